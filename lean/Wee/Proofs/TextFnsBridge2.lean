import Wee.Proofs.TextFnsBridge
/-!
# Bridge, part 2: the FEN READER translated from the Rust source (`Wee/Gen/TextFns.lean`, stage 3d) = the hand model

`Board.from_ArrayMap`, `ArrayMap.try_parse`, `File/Rank.from_char`, `Square.try_from_str`, `str.parse_usize`, and the
composition `Fen.try_from_notation rx text` = the model's `fenPipeline` (`Wee/Props/FenRegex.lean`) for every `rx`
that returns what the regex semantics returns.
-/
set_option linter.unusedVariables false
set_option linter.unusedSimpArgs false
namespace Wee.GenFns
open Wee

/-! ## `Board::from(&ArrayMap<Square, PieceIndex>)` -/

/-- the cells a placement parser can produce: 64 of them, every piece a real piece -/
structure CellsOk (cells : List FenL.Cell) : Prop where
  len : cells.length = 64
  real : ∀ c p, some (c, p) ∈ cells → p ≠ Piece.none

/-- one pass of the model's `piecesOfCells` -/
def cellAssign (cells : List FenL.Cell) (m : PieceMap) (sq : Nat) : PieceMap :=
  match cells.getD sq Option.none with
  | some (c, p) => m.assign c p sq true
  | Option.none => m

theorem piecesOfCells_foldl (cells : List FenL.Cell) :
    piecesOfCells cells = (List.range 64).foldl (cellAssign cells) {} := rfl

theorem arrCells_index (cells : List FenL.Cell) (sq : Square) (h : sq.toNat < cells.length) :
    ArrayMap.index (arrCells cells) (Index.from_Square sq) = some (codeOf (cells.getD sq.toNat Option.none)) := by
  unfold ArrayMap.index arrCells
  rw [Index.from_Square_toNat]
  simp [h, List.getD_eq_getElem?_getD]

theorem arrOf_index0 (m : PieceMap) : ArrayMap.index (arrOf m) (Index.from_PieceIndex 0) = some 0 := rfl
theorem arrOf_set0 (m : PieceMap) : ArrayMap.set (arrOf m) (Index.from_PieceIndex 0) 0 = some (arrOf m) := rfl

theorem some_new (c : Color) (p : Piece) (hp : p ≠ Piece.none) : PieceIndex.some (PieceIndex.new c p) = true := by
  cases c <;> cases p <;> first | exact absurd rfl hp | rfl

theorem foldl_map' {α β γ : Type} (f : α → β) (g : γ → β → γ) (l : List α) (i : γ) :
    (l.map f).foldl g i = l.foldl (fun a x => g a (f x)) i := by
  induction l generalizing i with
  | nil => rfl
  | cons x xs ih => simp [ih]

theorem foldl_congr_mem {α γ : Type} (g h : γ → α → γ) (l : List α) (i : γ) (e : ∀ a, ∀ x ∈ l, g a x = h a x) :
    l.foldl g i = l.foldl h i := by
  induction l generalizing i with
  | nil => rfl
  | cons x xs ih =>
    rw [List.foldl_cons, List.foldl_cons, e i x List.mem_cons_self]
    exact ih _ (fun a y hy => e a y (List.mem_cons_of_mem _ hy))

/-- **`Board::from(&map)`**: on the mailbox of a list of model cells (64 cells, real pieces) the loop translated from
`board.rs` (every square: `piece_occupancy[piece].set(square, piece.some())`, the empty cell writing `false` into the
unused slot 0) followed by `Board::new` builds the Rust-side board of the model's `piecesOfCells`; no panic -/
theorem Board.from_ArrayMap_eq (cells : List FenL.Cell) (h : CellsOk cells) :
    Board.from_ArrayMap (arrCells cells) = .ok (boardOf (piecesOfCells cells)) := by
  unfold Board.from_ArrayMap
  refine for_loop_bind arrOf (fun m (sq : Square) => cellAssign cells m sq.toNat) (fun _ _ => True) _ Square.ALL
    (Array.replicate 16 BitBoard.ZERO) {} rfl trivial ?_ _ _ ?_
  · intro x hx m k _
    refine ⟨?_, trivial⟩
    have hx64 : x.toNat < 64 := by
      rw [Square.ALL_eq, List.mem_map] at hx
      obtain ⟨n, hn, rfl⟩ := hx
      have := List.mem_range.1 hn
      rw [toNat_toUInt8_lt _ (by omega)]; exact this
    rw [arrCells_index cells x (by rw [h.len]; exact hx64)]
    unfold cellAssign
    have hmem : ∀ cp, cells.getD x.toNat Option.none = some cp → some cp ∈ cells := by
      intro cp e
      rw [List.getD_eq_getElem?_getD, List.getElem?_eq_getElem (by rw [h.len]; exact hx64)] at e
      simp only [Option.getD_some] at e
      rw [← e]; exact List.getElem_mem _
    cases hc : cells.getD x.toNat Option.none with
    | none =>
      simp only [codeOf, TRes.ofPanics_some, TRes.ok_bind, arrOf_index0]
      have : PieceIndex.some (0 : UInt8) = false := rfl
      rw [this, BitBoard.set_eq _ _ _ hx64]
      have : assignBit (0 : UInt64) x.toNat false = 0 := by simp [assignBit, clearBit]
      simp only [this, TRes.ofPanics_some, TRes.ok_bind, arrOf_set0]
      rfl
    | some cp =>
      obtain ⟨c, p⟩ := cp
      have hp : p ≠ Piece.none := h.real c p (hmem _ hc)
      simp only [codeOf, TRes.ofPanics_some, TRes.ok_bind, arrOf_index, some_new c p hp, BitBoard.set_eq _ _ _ hx64,
        arrOf_set m c p hp]
      rfl
  · intro t' _ ht'
    subst ht'
    simp only [Board.new_eq, TRes.ofPanics_some, TRes.ok_bind, TRes.pure_eq]
    have e : List.foldl (fun m (sq : Square) => cellAssign cells m sq.toNat) {} Square.ALL = piecesOfCells cells := by
      rw [piecesOfCells_foldl, Square.ALL_eq, foldl_map']
      apply foldl_congr_mem
      intro a n hn
      have := List.mem_range.1 hn
      rw [toNat_toUInt8_lt _ (by omega)]
    rw [e]

theorem pieceOfFenChar_real (ch : Char) (c : Color) (p : Piece) (h : pieceOfFenChar ch = some (c, p)) : p ≠ Piece.none := by
  unfold pieceOfFenChar at h
  split at h <;> first | (cases h; simp) | cases h

theorem cellsOk_init : CellsOk (List.replicate 64 Option.none) :=
  ⟨by simp, by intro c p hm; simp at hm⟩

/-- what `parseBoardCells` returns is a mailbox of 64 cells with real pieces -/
theorem parseBoardCells_ok (checked : Bool) (s : List Char) : ∀ (idx : Nat) (cells cells' : List FenL.Cell),
    CellsOk cells → parseBoardCells checked s idx cells = .ok cells' → CellsOk cells' := by
  induction s with
  | nil => intro idx cells cells' h e; simp only [parseBoardCells] at e; cases e; exact h
  | cons ch rest ih =>
    intro idx cells cells' h e
    rw [parseBoardCells] at e
    split at e
    · simp only at e
      split at e
      · cases e
      · exact ih _ _ _ h e
    · split at e
      · cases e; exact h
      · split at e
        · exact ih _ _ _ h e
        · split at e
          · cases e
          · rename_i pc hpc
            split at e
            · cases e
            · refine ih _ _ _ ⟨by simp [h.len], ?_⟩ e
              intro c p hm
              rcases List.mem_or_eq_of_mem_set hm with hm | hm
              · exact h.real c p hm
              · cases hm; exact pieceOfFenChar_real ch c p hpc

/-- the Rust-side outcome of a model outcome -/
def TRes.ofRes {α β : Type} (f : α → β) : Res α → TRes β
  | .ok a => .ok (f a)
  | .err => .err
  | .panic => .panic

/-- **`Board::try_parse`, complete**: the placement parser translated from `notation.rs` (cursor loop, then
`Board::from(&map)`, then `Board::new`) is the model's `parseBoardCells` followed by `piecesOfCells`, both profiles -/
theorem Board.try_parse_model (checked : Bool) (s : List Char) :
    Board.try_parse s = TRes.ofRes (fun cells => boardOf (piecesOfCells cells))
      (parseBoardCells checked s 0 (List.replicate 64 Option.none)) := by
  rw [Board.try_parse_eq checked s]
  cases e : parseBoardCells checked s 0 (List.replicate 64 Option.none) with
  | ok cells => exact Board.from_ArrayMap_eq cells (parseBoardCells_ok checked s 0 _ _ cellsOk_init e)
  | err => rfl
  | panic => rfl

/-! ## `ArrayMap<Color, CastleRights>::try_parse` -/

def castleStep (acc : Option (Wee.CastleRights × Wee.CastleRights)) (c : Char) :
    Option (Wee.CastleRights × Wee.CastleRights) :=
  match acc with
  | Option.none => Option.none
  | some (w, b) =>
    match c with
    | 'k' => some (w, { b with kingside := true })
    | 'q' => some (w, { b with queenside := true })
    | 'K' => some ({ w with kingside := true }, b)
    | 'Q' => some ({ w with queenside := true }, b)
    | '-' => some (w, b)
    | _ => Option.none

theorem parseCastle_eq (s : List Char) :
    parseCastle s = s.foldl castleStep (some (Wee.CastleRights.noRights, Wee.CastleRights.noRights)) := rfl

theorem castleStep_none (s : List Char) : s.foldl castleStep Option.none = Option.none := by
  induction s with
  | nil => rfl
  | cons c r ih => exact ih

/-- the Rust-side `ArrayMap<Color, CastleRights>` of a pair of model rights -/
def rightsArr (wb : Wee.CastleRights × Wee.CastleRights) : Array CastleRights := #[crOf wb.1, crOf wb.2]

theorem castle_loop (f : Array CastleRights → Char → TRes (Flow (Array CastleRights)))
    (hf : ∀ w b c, f (rightsArr (w, b)) c = match castleStep (some (w, b)) c with
      | some wb => .ok (.cont (rightsArr wb)) | Option.none => .err) (s : List Char) :
    ∀ w b, for_loop s (rightsArr (w, b)) f = TRes.okOr ((s.foldl castleStep (some (w, b))).map rightsArr) := by
  induction s with
  | nil => intro w b; rfl
  | cons c r ih =>
    intro w b
    rw [for_loop, hf, List.foldl_cons]
    cases e : castleStep (some (w, b)) c with
    | none => simp only [castleStep_none]; rfl
    | some wb => obtain ⟨w', b'⟩ := wb; exact ih w' b'

/-- **`ArrayMap::<Color, CastleRights>::try_parse`** (the castling letters) is the model's `parseCastle`: `Err` at the
first character outside `kqKQ-`, no panic -/
theorem ArrayMap.try_parse_eq (s : List Char) :
    ArrayMap.try_parse s = TRes.okOr ((parseCastle s).map rightsArr) := by
  unfold ArrayMap.try_parse
  have h0 : Array.replicate 2 CastleRights.NONE = rightsArr (Wee.CastleRights.noRights, Wee.CastleRights.noRights) := rfl
  rw [h0]
  refine Eq.trans (b := TRes.okOr ((s.foldl castleStep (some (Wee.CastleRights.noRights, Wee.CastleRights.noRights))).map
    rightsArr)) ?_ (by rw [parseCastle_eq])
  refine castle_loop _ ?_ s _ _
  · intro w b c
    simp only [token.BLACK_KING, token.BLACK_QUEEN, token.WHITE_KING, token.WHITE_QUEEN, beq_iff_eq, castleStep]
    by_cases h1 : c = 'k'
    · subst h1; rfl
    by_cases h2 : c = 'q'
    · subst h2; rfl
    by_cases h3 : c = 'K'
    · subst h3; rfl
    by_cases h4 : c = 'Q'
    · subst h4; rfl
    by_cases h5 : c = '-'
    · subst h5; rfl
    simp only [h1, h2, h3, h4, h5, if_false]

/-! ## `File::from_char`, `Rank::from_char`, `Square::try_from(&str)` -/

theorem char_lt_iff (a b : Char) : a < b ↔ a.toNat < b.toNat := by
  rw [Char.lt_def, UInt32.lt_iff_toNat_lt]; rfl

theorem sub_char_u8 (c : Char) (base : Nat) (h1 : base ≤ c.toNat) (h2 : c.toNat < 256) (hb : base < 256) :
    UInt8.checked_sub (char.as_u8 c) base.toUInt8 = some (c.toNat - base).toUInt8 := by
  unfold UInt8.checked_sub char.as_u8
  rw [if_pos (by rw [toNat_toUInt8_lt _ hb, toNat_toUInt8_lt _ h2]; exact h1)]
  congr 1
  apply UInt8.toNat_inj.1
  rw [UInt8.toNat_sub_of_le _ _ (by rw [UInt8.le_iff_toNat_le, toNat_toUInt8_lt _ hb, toNat_toUInt8_lt _ h2]; exact h1),
    toNat_toUInt8_lt _ hb, toNat_toUInt8_lt _ h2, toNat_toUInt8_lt _ (by omega)]

/-- `File::from_char`: upper-cased letter `A`..`H`; no panic (the subtraction cannot underflow) -/
theorem File.from_char_eq (c : Char) :
    File.from_char c = .ok (if c.toUpper < 'A' ∨ c.toUpper > 'H' then Option.none
      else some (c.toUpper.toNat - 'A'.toNat).toUInt8) := by
  unfold File.from_char
  simp only []
  by_cases h : c.toUpper < 'A' ∨ c.toUpper > 'H'
  · have : (decide (c.toUpper < 'A') || decide (c.toUpper > 'H')) = true := by simpa using h
    rw [if_pos this, if_pos h]; rfl
  · have : ¬ (decide (c.toUpper < 'A') || decide (c.toUpper > 'H')) = true := by simpa using h
    rw [if_neg this, if_neg h]
    simp only [gt_iff_lt, char_lt_iff, not_or, Nat.not_lt] at h
    have e := sub_char_u8 c.toUpper 65 h.1 (by have : ('H' : Char).toNat = 72 := rfl; omega) (by omega)
    have : char.as_u8 'A' = (65 : Nat).toUInt8 := rfl
    rw [this, e]; rfl

/-- `Rank::from_char`: digit `1`..`8`; no panic -/
theorem Rank.from_char_eq (c : Char) :
    Rank.from_char c = .ok (if c < '1' ∨ c > '8' then Option.none else some (c.toNat - '1'.toNat).toUInt8) := by
  unfold Rank.from_char
  by_cases h : c < '1' ∨ c > '8'
  · have : (decide (c < '1') || decide (c > '8')) = true := by simpa using h
    rw [if_pos this, if_pos h]; rfl
  · have : ¬ (decide (c < '1') || decide (c > '8')) = true := by simpa using h
    rw [if_neg this, if_neg h]
    simp only [gt_iff_lt, char_lt_iff, not_or, Nat.not_lt] at h
    have e := sub_char_u8 c 49 h.1 (by have : ('8' : Char).toNat = 56 := rfl; omega) (by omega)
    have : char.as_u8 '1' = (49 : Nat).toUInt8 := rfl
    rw [this, e]; rfl

theorem utf8_cons (c : Char) (r : List Char) :
    (String.ofList (c :: r)).utf8ByteSize = c.utf8Size + (String.ofList r).utf8ByteSize := by
  have : String.ofList (c :: r) = String.singleton c ++ String.ofList r := by
    apply String.toList_inj.1; simp
  rw [this, String.utf8ByteSize_append, String.utf8ByteSize_singleton]

theorem utf8_nil : (String.ofList []).utf8ByteSize = 0 := by decide

theorem str_len_ne2 (s : List Char) (hs : (String.ofList s).utf8ByteSize < 2 ^ 64) :
    ((str.len s) != (2 : UInt64)) = decide ((String.ofList s).utf8ByteSize ≠ 2) := by
  unfold str.len
  by_cases h : (String.ofList s).utf8ByteSize = 2
  · rw [h]; rfl
  · have : (String.ofList s).utf8ByteSize.toUInt64 ≠ 2 := by
      intro e
      apply h
      have := congrArg UInt64.toNat e
      simpa [Nat.toUInt64, Nat.mod_eq_of_lt hs] using this
    simp [this, h]

/-- **`Square::try_from(&str)`** is the model's `parseSquare` (byte length 2, `File::from_char`, `Rank::from_char`), for
every text whose byte length fits `usize`; no panic -/
theorem Square.try_from_str_eq (s : List Char) (hs : (String.ofList s).utf8ByteSize < 2 ^ 64) :
    Square.try_from_str s = TRes.okOr ((parseSquare s).map Nat.toUInt8) := by
  unfold Square.try_from_str parseSquare
  rw [str_len_ne2 s hs]
  by_cases hb : (String.ofList s).utf8ByteSize = 2
  · have hd : decide ((String.ofList s).utf8ByteSize ≠ 2) = false := by simp [hb]
    rw [hd, if_neg (show ¬ ((String.ofList s).utf8ByteSize ≠ 2) by simp [hb])]
    simp only [Bool.false_eq_true, if_false, TRes.pure_eq, TRes.ok_bind]
    match s, hb with
    | [], hb => rw [utf8_nil] at hb; cases hb
    | [c], hb =>
      rw [utf8_cons, utf8_nil, Nat.add_zero, Char.utf8Size_eq_two_iff] at hb
      have hv : 127 < c.toNat := by
        have := hb.1; rw [UInt32.lt_iff_toNat_lt] at this; exact this
      have hup : c.toUpper = c := by
        unfold Char.toUpper
        rw [dif_neg]
        intro hh
        have := hh.2; rw [UInt32.le_iff_toNat_le] at this
        have e : ('z' : Char).val.toNat = 122 := rfl
        have e2 : c.val.toNat = c.toNat := rfl
        omega
      have hH : c.toUpper > 'H' := by
        rw [hup, gt_iff_lt, char_lt_iff]; have : ('H' : Char).toNat = 72 := rfl; omega
      simp [iter.nth, File.from_char_eq, hH]
    | [f, r], hb =>
      simp only [iter.nth, File.from_char_eq, Rank.from_char_eq]
      have h0 : [f, r][(0 : UInt64).toNat]? = some f := rfl
      have h1 : [f, r][(1 : UInt64).toNat]? = some r := rfl
      rw [h0, h1]
      simp only [TRes.okOr_some, TRes.ok_bind]
      by_cases hf : f.toUpper < 'A' ∨ f.toUpper > 'H'
      · rw [if_pos hf, if_pos hf]; rfl
      · rw [if_neg hf, if_neg hf]
        simp only [TRes.okOr_some, TRes.ok_bind]
        by_cases hr : r < '1' ∨ r > '8'
        · rw [if_pos hr, if_pos hr]; rfl
        · rw [if_neg hr, if_neg hr]
          simp only [TRes.okOr_some, TRes.ok_bind, Option.map_some]
          simp only [gt_iff_lt, char_lt_iff, not_or, Nat.not_lt] at hf hr
          have eA : ('A' : Char).toNat = 65 := rfl
          have eH : ('H' : Char).toNat = 72 := rfl
          have e1 : ('1' : Char).toNat = 49 := rfl
          have e8 : ('8' : Char).toNat = 56 := rfl
          rw [from_File_Rank_lt8 _ _ (by rw [toNat_toUInt8_lt _ (by omega)]; omega)
            (by rw [toNat_toUInt8_lt _ (by omega)]; omega), toNat_toUInt8_lt _ (by omega), toNat_toUInt8_lt _ (by omega)]
          rfl
    | a :: b :: c :: t, hb =>
      rw [utf8_cons, utf8_cons, utf8_cons] at hb
      have := Char.utf8Size_pos a; have := Char.utf8Size_pos b; have := Char.utf8Size_pos c
      omega
  · have hd : decide ((String.ofList s).utf8ByteSize ≠ 2) = true := by simp [hb]
    rw [hd, if_pos hb]; rfl

/-! ## `str::parse::<usize>()` -/

/-- Rust's `usize::from_str` strips ONE leading `+` before the digits -/
def dropPlus : List Char → List Char
  | '+' :: r => r
  | s => s

theorem dropPlus_of_head (s : List Char) (h : s.head? ≠ some '+') : dropPlus s = s := by
  unfold dropPlus
  split
  · simp at h
  · rfl

/-- **`str::parse::<usize>()`** is the model's `parseUsize` after one optional leading `+` (the model ≠ code
difference of the notes: `"+5"` parses in Rust, not in the model) -/
theorem str.parse_usize_eq (s : List Char) :
    str.parse_usize s = TRes.okOr ((parseUsize (dropPlus s)).map Nat.toUInt64) := by
  have key : ∀ d : List Char, (if d.isEmpty then TRes.err else
      match d.foldl (fun (acc : Option Nat) c => match acc with
        | Option.none => Option.none
        | Option.some v =>
          if c.isDigit then
            let v' := v * 10 + (c.toNat - 48)
            if v' < 2 ^ 64 then Option.some v' else Option.none
          else Option.none) (Option.some 0) with
      | Option.some v => TRes.ok v.toUInt64
      | Option.none => TRes.err) = TRes.okOr ((parseUsize d).map Nat.toUInt64) := by
    intro d
    rw [FenL.parseUsize_eq]
    by_cases he : d.isEmpty = true
    · rw [if_pos he, if_pos he]; rfl
    · rw [if_neg he, if_neg he]
      change (match d.foldl FenL.usizeStep (some 0) with
        | Option.some v => TRes.ok v.toUInt64
        | Option.none => TRes.err) = TRes.okOr ((d.foldl FenL.usizeStep (some 0)).map Nat.toUInt64)
      cases d.foldl FenL.usizeStep (some 0) <;> rfl
  unfold str.parse_usize dropPlus
  split
  · exact key _
  · rename_i hne
    split
    · exact absurd rfl (hne _)
    · exact key _

/-- on a text that does not start with `+` (every text matched by `\d+`) it IS `parseUsize` -/
theorem str.parse_usize_digits (s : List Char) (h : s.head? ≠ some '+') :
    str.parse_usize s = TRes.okOr ((parseUsize s).map Nat.toUInt64) := by
  rw [str.parse_usize_eq, dropPlus_of_head s h]

/-- the difference, spelled out -/
theorem str.parse_usize_plus (r : List Char) :
    str.parse_usize ('+' :: r) = TRes.okOr ((parseUsize r).map Nat.toUInt64) ∧ parseUsize ('+' :: r) = Option.none := by
  refine ⟨str.parse_usize_eq _, ?_⟩
  rw [FenL.parseUsize_eq, if_neg (by simp), List.foldl_cons]
  have : FenL.usizeStep (some 0) '+' = Option.none := by decide
  rw [this]
  induction r with
  | nil => rfl
  | cons c r ih => exact ih

/-! ## The composition: `Fen::try_from_notation` = `fenPipeline` -/
open Wee.Spec
open Wee.FenRx

/-- run a model computation, continue on the Rust side -/
def TRes.bindRes {α β : Type} (x : Res α) (k : α → TRes β) : TRes β :=
  match x with
  | .ok a => k a
  | .err => .err
  | .panic => .panic

/-- the part of the model's `fenPipeline` after `re.captures(..)`: the field parsers applied to the capture groups, in
the order of `notation.rs` (`&groups[i]` panics when group `i` did not participate) -/
def fenFields (checked : Bool) (groups : Nat → Option (List Char)) : Res Wee.State := do
  let board ← FenRx.index groups 1 >>= FenRx.boardTryParse checked
  let turn ← FenRx.index groups 3 >>= FenRx.turnOf
  let rights ← FenRx.index groups 4 >>= FenRx.rightsOf
  let ep ← FenRx.index groups 6 >>= FenRx.epOf
  let half ← FenRx.index groups 7 >>= FenRx.clockOf
  let full ← FenRx.index groups 8 >>= FenRx.clockOf
  pure { pieces := board, turn := turn, castleW := rights.1, castleB := rights.2, ep := ep,
         halfmove := half, fullmove := full }

theorem fenPipeline_fields (nd : Char → Bool) (checked : Bool) (text : List Char) :
    fenPipeline nd checked text = (FenRx.okOr (reCaptures (unicode nd) fenAst text) >>= fenFields checked) := rfl

theorem board_stanza {β : Type} (checked : Bool) (g : RegexGroups) (K : Board → TRes β) :
    (TRes.ofPanics (Captures.index g 1) >>= fun t => Board.try_parse t >>= K) =
      TRes.bindRes (FenRx.index g 1 >>= FenRx.boardTryParse checked) (fun m => K (boardOf m)) := by
  unfold Captures.index FenRx.index
  cases g 1 with
  | none => rfl
  | some b =>
    simp only [TRes.ofPanics_some, TRes.ok_bind, Board.try_parse_model checked b]
    show _ = TRes.bindRes (FenRx.boardTryParse checked b) _
    unfold FenRx.boardTryParse
    cases parseBoardCells checked b 0 (List.replicate 64 Option.none) <;> rfl

theorem turnOf_other (sd : List Char) (h1 : sd ≠ ['w']) (h2 : sd ≠ ['b']) : FenRx.turnOf sd = .err := by
  unfold FenRx.turnOf
  split
  · exact absurd rfl h1
  · exact absurd rfl h2
  · rfl

theorem turn_stanza {β : Type} (g : RegexGroups) (K : Color → TRes β) :
    ((do
        let t_5 ← TRes.ofPanics (Captures.index g 3)
        if (t_5 == ['w']) then (do pure Color.white)
        else (if (t_5 == ['b']) then (do pure Color.black) else (do TRes.err))) >>= K) =
      TRes.bindRes (FenRx.index g 3 >>= FenRx.turnOf) K := by
  unfold Captures.index FenRx.index
  cases g 3 with
  | none => rfl
  | some sd =>
    by_cases h1 : sd = ['w']
    · subst h1; rfl
    by_cases h2 : sd = ['b']
    · subst h2; rfl
    simp only [TRes.ofPanics_some, TRes.ok_bind, beq_iff_eq, h1, h2, if_false]
    show _ = TRes.bindRes (FenRx.turnOf sd) K
    rw [turnOf_other sd h1 h2]; rfl

theorem rights_stanza {β : Type} (g : RegexGroups) (K : Array CastleRights → TRes β) :
    ((do
        let t_7 ← TRes.ofPanics (Captures.index g 4)
        if (t_7 == ['-']) then (do pure (Array.replicate 2 CastleRights.NONE))
        else (do
          let s := t_7
          let t_8 ← (ArrayMap.try_parse s)
          pure t_8)) >>= K) =
      TRes.bindRes (FenRx.index g 4 >>= FenRx.rightsOf) (fun r => K (rightsArr r)) := by
  unfold Captures.index FenRx.index
  cases g 4 with
  | none => rfl
  | some s =>
    by_cases h1 : s = ['-']
    · subst h1; rfl
    simp only [TRes.ofPanics_some, TRes.ok_bind, beq_iff_eq, h1, if_false, ArrayMap.try_parse_eq]
    show _ = TRes.bindRes (FenRx.rightsOf s) _
    have : FenRx.rightsOf s = FenRx.okOr (parseCastle s) := by
      unfold FenRx.rightsOf
      split
      · exact absurd rfl h1
      · rfl
    rw [this]
    cases parseCastle s <;> rfl

theorem ep_stanza {β : Type} (g : RegexGroups) (hg : ∀ s, g 6 = some s → (String.ofList s).utf8ByteSize < 2 ^ 64)
    (K : Option Square → TRes β) :
    ((do
        let t_10 ← TRes.ofPanics (Captures.index g 6)
        if (t_10 == ['-']) then (do pure Option.none)
        else (do
          let s := t_10
          let t_11 ← (Square.try_from_str s)
          pure (Option.some t_11))) >>= K) =
      TRes.bindRes (FenRx.index g 6 >>= FenRx.epOf) (fun e => K (e.map Nat.toUInt8)) := by
  unfold Captures.index FenRx.index
  cases h6 : g 6 with
  | none => rfl
  | some s =>
    by_cases h1 : s = ['-']
    · subst h1; rfl
    simp only [TRes.ofPanics_some, TRes.ok_bind, beq_iff_eq, h1, if_false, Square.try_from_str_eq s (hg s h6)]
    show _ = TRes.bindRes (FenRx.epOf s) _
    have : FenRx.epOf s = match parseSquare s with | some sq => .ok (some sq) | Option.none => .err := by
      unfold FenRx.epOf
      split
      · exact absurd rfl h1
      · rfl
    rw [this]
    cases parseSquare s <;> rfl

theorem clock_stanza {β : Type} (g : RegexGroups) (i : Nat) (hg : ∀ s, g i = some s → s.head? ≠ some '+')
    (K : UInt64 → TRes β) :
    (TRes.ofPanics (Captures.index g i) >>= fun t => str.parse_usize t >>= K) =
      TRes.bindRes (FenRx.index g i >>= FenRx.clockOf) (fun n => K n.toUInt64) := by
  unfold Captures.index FenRx.index
  cases hi : g i with
  | none => rfl
  | some s =>
    simp only [TRes.ofPanics_some, TRes.ok_bind, str.parse_usize_digits s (hg s hi)]
    show _ = TRes.bindRes (FenRx.clockOf s) _
    unfold FenRx.clockOf
    cases parseUsize s <;> rfl

/-- what the bridge needs to know about the capture groups: group 6 is a text that exists in a 64-bit address space
(`str::len` is a `usize`), groups 7 and 8 do not start with `+` (they are matched by `\d+`) -/
structure GroupsOk (g : RegexGroups) : Prop where
  ep : ∀ s, g 6 = some s → (String.ofList s).utf8ByteSize < 2 ^ 64
  half : ∀ s, g 7 = some s → s.head? ≠ some '+'
  full : ∀ s, g 8 = some s → s.head? ≠ some '+'

/-- **`Fen::try_from_notation` behind `re.captures`**: for ANY capture function `rx` (the seam), the function translated
from `notation.rs` is `Err` when `rx` finds no match and otherwise the model's field parsers `fenFields` on the groups
`rx` returned (Rust-side state of the model state; same `Err`s, same panics at `&groups[i]`), both build profiles -/
theorem Fen.try_from_notation_fields (checked : Bool) (rx : RegexCaptures) (text : List Char)
    (hg : ∀ g, rx fen.FEN_REGEX text = some g → GroupsOk g) :
    Fen.try_from_notation rx text =
      match rx fen.FEN_REGEX text with
      | Option.none => .err
      | some g => TRes.ofRes stateOf (fenFields checked g) := by
  unfold Fen.try_from_notation
  simp only [Regex.new, TRes.ok_bind]
  cases hrx : rx fen.FEN_REGEX text with
  | none => rfl
  | some g =>
    have ok := hg g hrx
    simp only [TRes.okOr_some, TRes.ok_bind]
    refine (board_stanza checked g _).trans ?_
    unfold fenFields
    generalize (FenRx.index g 1 >>= FenRx.boardTryParse checked) = X1
    cases X1 with
    | err => rfl
    | panic => rfl
    | ok m =>
    refine (turn_stanza g _).trans ?_
    generalize (FenRx.index g 3 >>= FenRx.turnOf) = X3
    cases X3 with
    | err => rfl
    | panic => rfl
    | ok t =>
    refine (rights_stanza g _).trans ?_
    generalize (FenRx.index g 4 >>= FenRx.rightsOf) = X4
    cases X4 with
    | err => rfl
    | panic => rfl
    | ok r =>
    refine (ep_stanza g ok.ep _).trans ?_
    generalize (FenRx.index g 6 >>= FenRx.epOf) = X6
    cases X6 with
    | err => rfl
    | panic => rfl
    | ok e =>
    refine (clock_stanza g 7 ok.half _).trans ?_
    generalize (FenRx.index g 7 >>= FenRx.clockOf) = X7
    cases X7 with
    | err => rfl
    | panic => rfl
    | ok h =>
    refine (clock_stanza g 8 ok.full _).trans ?_
    generalize (FenRx.index g 8 >>= FenRx.clockOf) = X8
    cases X8 with
    | err => rfl
    | panic => rfl
    | ok f => rfl


/-! ### the regex seam -/

/-- the literal translated from `notation.rs` by stage 3d is the literal `Props/FenRegex.lean` is about -/
theorem fen.FEN_REGEX_eq : String.ofList fen.FEN_REGEX = Gen.fenRegex := by decide

/-- the literal of the translated function denotes `fenAst` -/
theorem fen.FEN_REGEX_parsed : parseRegex (String.ofList fen.FEN_REGEX) = some fenAst := by
  rw [fen.FEN_REGEX_eq]; exact FenRegex_parsed

/-- **the seam**: `rx pattern text` stands for `Regex::new(pattern).unwrap().captures(text)`; it is assumed to return,
for every pattern of the subset of `Spec/Regex.lean`, what the relational regex semantics returns (`\d` = `nd`) -/
def RegexSeam (nd : Char → Bool) (rx : RegexCaptures) : Prop :=
  ∀ (p : List Char) (ast : Regex) (text : List Char),
    parseRegex (String.ofList p) = some ast → rx p text = reCaptures (unicode nd) ast text

theorem utf8_le (s : List Char) : (String.ofList s).utf8ByteSize ≤ 4 * s.length := by
  induction s with
  | nil => rw [utf8_nil]; exact Nat.zero_le _
  | cons c r ih =>
    rw [utf8_cons, List.length_cons]
    have := Char.utf8Size_le_four c
    omega

theorem epOk_length (ep : List Char) (h : FenL.epOk ep = true) : ep.length ≤ 2 := by
  simp only [FenL.epOk, Bool.or_eq_true, beq_iff_eq] at h
  rcases h with h | h
  · subst h; decide
  · match ep, h with
    | [f, r], _ => exact Nat.le_refl _

theorem fenCaptures_counters {nd : Char → Bool} (cs : List Char) (G : FenGroups) (hG : fenCaptures nd cs = some G) :
    G.half.all nd = true ∧ G.full.all nd = true := by
  unfold fenCaptures at hG
  split at hG
  · split at hG
    · rename_i hg
      cases hG
      simp only [Bool.and_eq_true] at hg
      exact ⟨hg.1.2.2, hg.2.2⟩
    · cases hG
  · cases hG

theorem head_ne_plus {nd : Char → Bool} (hplus : nd '+' = false) (s : List Char) (h : s.all nd = true) :
    s.head? ≠ some '+' := by
  cases s with
  | nil => simp
  | cons c r =>
    intro e
    simp only [List.head?_cons, Option.some.injEq] at e
    subst e
    simp only [List.all_cons, Bool.and_eq_true] at h
    rw [hplus] at h; cases h.1

/-- the groups of a match of `FEN_REGEX` satisfy the side conditions of the bridge, when `+` is no decimal digit -/
theorem groupsOk_of_captures (nd : Char → Bool) (hnd : NdAssumptions nd) (hplus : nd '+' = false) (text : List Char)
    (g : RegexGroups) (h : reCaptures (unicode nd) fenAst text = some g) : GroupsOk g := by
  rw [FenRegex_reCaptures nd hnd] at h
  cases hG : fenCaptures nd text with
  | none => rw [hG] at h; cases h
  | some G =>
    rw [hG] at h
    simp only [Option.map_some, Option.some.injEq] at h
    subst h
    obtain ⟨-, -, -, he⟩ := parseFenChars_of_fenCaptures_some true text G hG
    obtain ⟨hh, hf⟩ := fenCaptures_counters text G hG
    refine ⟨?_, ?_, ?_⟩
    · intro s hs
      simp only [FenGroups.groups, Option.some.injEq] at hs
      subst hs
      have := utf8_le G.ep
      have := epOk_length G.ep he
      omega
    · intro s hs
      simp only [FenGroups.groups, Option.some.injEq] at hs
      subst hs
      exact head_ne_plus hplus _ hh
    · intro s hs
      simp only [FenGroups.groups, Option.some.injEq] at hs
      subst hs
      exact head_ne_plus hplus _ hf

/-- **`Fen::try_from_notation` = `fenPipeline`**: for every capture function `rx` that returns what the regex semantics
returns (`RegexSeam`), every set `nd` of decimal digits with `NdAssumptions` that does not contain `+`, both build
profiles and every text, the FEN reader translated from `notation.rs` computes the Rust-side value of the model's
`fenPipeline nd checked text` — the same `Err`s, the same (absent) panics, the state `stateOf s` -/
theorem Fen.try_from_notation_eq (nd : Char → Bool) (hnd : NdAssumptions nd) (hplus : nd '+' = false) (checked : Bool)
    (rx : RegexCaptures) (hrx : RegexSeam nd rx) (text : List Char) :
    Fen.try_from_notation rx text = TRes.ofRes stateOf (fenPipeline nd checked text) := by
  have hrx' : rx fen.FEN_REGEX text = reCaptures (unicode nd) fenAst text := hrx _ _ _ fen.FEN_REGEX_parsed
  rw [Fen.try_from_notation_fields checked rx text
    (fun g hg => groupsOk_of_captures nd hnd hplus text g (by rw [← hrx']; exact hg)), hrx', fenPipeline_fields]
  cases reCaptures (unicode nd) fenAst text <;> rfl

/-- … and therefore the hand-written recogniser `parseFenChars` of `Model/Fen.lean` (the function C11 / C14 are stated
for), through `FenRegex_recogniser` -/
theorem Fen.try_from_notation_model (nd : Char → Bool) (hnd : NdAssumptions nd) (hplus : nd '+' = false) (checked : Bool)
    (rx : RegexCaptures) (hrx : RegexSeam nd rx) (text : List Char) :
    Fen.try_from_notation rx text = TRes.ofRes stateOf (parseFenChars checked text) := by
  rw [FenRegex_recogniser nd hnd checked text]
  exact Fen.try_from_notation_eq nd hnd hplus checked rx hrx text

/-- the translated reader never panics behind a regex with the standard semantics -/
theorem Fen.try_from_notation_no_panic (nd : Char → Bool) (hnd : NdAssumptions nd) (hplus : nd '+' = false)
    (rx : RegexCaptures) (hrx : RegexSeam nd rx) (s : String) :
    Fen.try_from_notation rx s.toList ≠ .panic := by
  rw [Fen.try_from_notation_eq nd hnd hplus true rx hrx]
  have := C14_fen_pipeline nd hnd true s
  cases h : fenPipeline nd true s.toList with
  | ok a => intro e; cases e
  | err => intro e; cases e
  | panic => exact absurd h this

/-- the seam and the assumptions on `nd` are satisfiable (`nd` = ASCII digits, `rx` = the semantics itself) -/
theorem regexSeam_inhabited : ∃ nd rx, NdAssumptions nd ∧ nd '+' = false ∧ RegexSeam nd rx := by
  refine ⟨Char.isDigit, fun p text => match parseRegex (String.ofList p) with
    | some ast => reCaptures (unicode Char.isDigit) ast text
    | Option.none => Option.none, ?_, by decide, ?_⟩
  · exact ⟨fun _ h => h, fun c h => by rw [isWhiteSpace_eq]; exact FenL.not_space_of_isDigit c h⟩
  · intro p ast text h
    simp only [h]


/-! ## `MoveQuery::test` -/

/-- the Rust-side `MoveQuery` of a model query (`Rank` / `File` are `u8`) -/
def mqOf (q : Wee.MoveQuery) : MoveQuery :=
  { f_piece := q.piece, f_origin_rank := q.originRank.map Nat.toUInt8, f_origin_file := q.originFile.map Nat.toUInt8,
    f_dest_rank := q.destRank.map Nat.toUInt8, f_dest_file := q.destFile.map Nat.toUInt8, f_promotion := q.promotion,
    f_castle := q.castle, f_is_capture := q.isCapture }

/-- ranks and files of a query fit a `u8` (the SAN scanner only produces values `< 8`) -/
structure QueryOk (q : Wee.MoveQuery) : Prop where
  originRank : ∀ r, q.originRank = some r → r < 256
  originFile : ∀ r, q.originFile = some r → r < 256
  destRank : ∀ r, q.destRank = some r → r < 256
  destFile : ∀ r, q.destFile = some r → r < 256

/-- a move word whose accessors do not panic: the three piece codes are `Piece` discriminants (every generated move) -/
structure MoveOk (m : UInt32) : Prop where
  piece : ∃ p, Wee.Move.piece? m = some p
  capture : Wee.Move.captureCode m ≤ 6
  promotion : Wee.Move.promotionCode m ≤ 6

theorem mapT_ok {α β : Type} (o : Option α) (f : α → TRes β) (g : α → β) (h : ∀ a, o = some a → f a = .ok (g a)) :
    Option.mapT o f = .ok (o.map g) := by
  cases o with
  | none => rfl
  | some a => simp only [Option.mapT, h a rfl]; rfl

theorem coord_map (o : Option Nat) (ho : ∀ r, o = some r → r < 256) (x : Nat) (hx : x < 256) :
    (o.map Nat.toUInt8).map (fun r => r == x.toUInt8) = o.map (fun r => r == x) := by
  cases o with
  | none => rfl
  | some r =>
    have hr := ho r rfl
    simp only [Option.map_some, Option.some.injEq]
    by_cases h : r = x
    · subst h; simp
    · have : r.toUInt8 ≠ x.toUInt8 := by
        intro e
        apply h
        have := congrArg UInt8.toNat e
        rwa [toNat_toUInt8_lt _ hr, toNat_toUInt8_lt _ hx] at this
      rw [beq_eq_false_iff_ne.2 this, beq_eq_false_iff_ne.2 h]

theorem rank_toUInt8 (o : Nat) (h : o < 64) : Square.rank o.toUInt8 = (rankOf o).toUInt8 := by
  apply UInt8.toNat_inj.1
  rw [Square.rank_toNat, toNat_toUInt8_lt _ (by omega), toNat_toUInt8_lt _ (by unfold rankOf; omega)]

theorem file_toUInt8 (o : Nat) (h : o < 64) : Square.file o.toUInt8 = (fileOf o).toUInt8 := by
  apply UInt8.toNat_inj.1
  rw [Square.file_toNat, toNat_toUInt8_lt _ (by omega), toNat_toUInt8_lt _ (by unfold fileOf; omega)]

/-- **`MoveQuery::test`** (`moves.rs`): on a move word whose accessors do not panic, the eight `if !self.x.map(..).unwrap_or(true)
{ return false; }` stanzas translated from the source are the model's conjunction `MoveQuery.test`; no panic -/
theorem MoveQuery.test_eq (q : Wee.MoveQuery) (hq : QueryOk q) (m : UInt32) (hm : MoveOk m) :
    MoveQuery.test (mqOf q) m = .ok (q.test m) := by
  obtain ⟨p, hp⟩ := hm.piece
  have hpiece : Move.piece m = some p := by rw [Move.piece_eq, hp]
  have hpiece' : Wee.Move.piece m = p := by unfold Wee.Move.piece; rw [hp]; rfl
  have ho := model_origin_lt m
  have hd := model_dest_lt m
  have e1 := mapT_ok (mqOf q).f_piece (fun p' => (do
      let t_1 ← TRes.ofPanics (Move.piece m)
      pure (p' == t_1))) (fun p' => p' == p) (fun a _ => by simp only [hpiece]; rfl)
  have e2 := mapT_ok (mqOf q).f_origin_rank (fun r => (do
      let t_3 ← TRes.ofPanics (Move.origin m)
      pure (r == (Square.rank t_3)))) (fun r => r == (rankOf (Wee.Move.origin m)).toUInt8)
      (fun a _ => by simp only [Move.origin_eq, TRes.ofPanics_some, TRes.ok_bind, rank_toUInt8 _ ho]; rfl)
  have e3 := mapT_ok (mqOf q).f_origin_file (fun f => (do
      let t_5 ← TRes.ofPanics (Move.origin m)
      pure (f == (Square.file t_5)))) (fun r => r == (fileOf (Wee.Move.origin m)).toUInt8)
      (fun a _ => by simp only [Move.origin_eq, TRes.ofPanics_some, TRes.ok_bind, file_toUInt8 _ ho]; rfl)
  have e4 := mapT_ok (mqOf q).f_dest_rank (fun r => (do
      let t_7 ← TRes.ofPanics (Move.destination m)
      pure (r == (Square.rank t_7)))) (fun r => r == (rankOf (Wee.Move.dest m)).toUInt8)
      (fun a _ => by simp only [Move.destination_eq, TRes.ofPanics_some, TRes.ok_bind, rank_toUInt8 _ hd]; rfl)
  have e5 := mapT_ok (mqOf q).f_dest_file (fun f => (do
      let t_9 ← TRes.ofPanics (Move.destination m)
      pure (f == (Square.file t_9)))) (fun r => r == (fileOf (Wee.Move.dest m)).toUInt8)
      (fun a _ => by simp only [Move.destination_eq, TRes.ofPanics_some, TRes.ok_bind, file_toUInt8 _ hd]; rfl)
  have e6 := mapT_ok (mqOf q).f_promotion (fun p' => (do
      let t_11 ← TRes.ofPanics (Move.promotion m)
      let t_12 ← TRes.ofPanics (Move.piece m)
      pure (p' == (Option.getD t_11 t_12)))) (fun p' => p' == (Wee.Move.promotion m).getD (Wee.Move.piece m))
      (fun a _ => by simp only [promotion_some' m hm.promotion, hpiece, hpiece']; rfl)
  have e7 := mapT_ok (mqOf q).f_castle (fun s => (do
      pure (Move.is_castle m s))) (fun s => Wee.Move.isCastle m s)
      (fun a _ => by simp only [Move.is_castle_eq]; rfl)
  have e8 := mapT_ok (mqOf q).f_is_capture (fun c => (do
      let t_15 ← TRes.ofPanics (Move.is_capture m)
      pure (c == t_15))) (fun c => c == Wee.Move.isCapture m)
      (fun a _ => by simp only [is_capture' m hm.capture]; rfl)
  unfold MoveQuery.test
  rw [e1, e2, e3, e4, e5, e6, e7, e8]
  simp only [mqOf, coord_map _ hq.originRank _ (show rankOf (Wee.Move.origin m) < 256 by unfold rankOf; omega),
    coord_map _ hq.originFile _ (show fileOf (Wee.Move.origin m) < 256 by unfold fileOf; omega),
    coord_map _ hq.destRank _ (show rankOf (Wee.Move.dest m) < 256 by unfold rankOf; omega),
    coord_map _ hq.destFile _ (show fileOf (Wee.Move.dest m) < 256 by unfold fileOf; omega)]
  unfold Wee.MoveQuery.test
  rw [hpiece']
  simp only [TRes.ok_bind]
  generalize (Option.map (fun p' => p' == p) q.piece).getD true = b1
  generalize (Option.map (fun r => r == rankOf (Wee.Move.origin m)) q.originRank).getD true = b2
  generalize (Option.map (fun r => r == fileOf (Wee.Move.origin m)) q.originFile).getD true = b3
  generalize (Option.map (fun r => r == rankOf (Wee.Move.dest m)) q.destRank).getD true = b4
  generalize (Option.map (fun r => r == fileOf (Wee.Move.dest m)) q.destFile).getD true = b5
  generalize (Option.map (fun p' => p' == (Wee.Move.promotion m).getD p) q.promotion).getD true = b6
  generalize (Option.map (fun s => Wee.Move.isCastle m s) q.castle).getD true = b7
  generalize (Option.map (fun c => c == Wee.Move.isCapture m) q.isCapture).getD true = b8
  cases b1 <;> cases b2 <;> cases b3 <;> cases b4 <;> cases b5 <;> cases b6 <;> cases b7 <;> cases b8 <;> rfl


/-! ## `San::try_from_notation` -/

/-- cursor and query of the SAN scanner -/
abbrev SanSt := List Char × Wee.MoveQuery

/-- the check / mate mark -/
def sanMark (it : List Char) : List Char := match it with | '#' :: r => r | '+' :: r => r | _ => it

def promoPiece (c : Char) : Option Piece :=
  match c with
  | 'Q' => some .queen | 'R' => some .rook | 'B' => some .bishop | 'N' => some .knight | _ => Option.none

def eqStrip (r : List Char) : List Char := match r with | '=' :: r' => r' | _ => r

/-- the promotion stanza -/
def sanPromo (it : List Char) (q : Wee.MoveQuery) : Option SanSt :=
  match it with
  | c :: r =>
    if c.isUpper then
      match promoPiece c with
      | Option.none => Option.none
      | some p => some (eqStrip r, { q with promotion := some p })
    else some (it, q)
  | [] => some (it, q)

/-- a rank stanza (`upd`: which field it sets) -/
def sanRank (upd : Wee.MoveQuery → Nat → Wee.MoveQuery) (it : List Char) (q : Wee.MoveQuery) : Option SanSt :=
  match it with
  | c :: r =>
    if c.isDigit then
      if '1' ≤ c ∧ c ≤ '8' then some (r, upd q (c.toNat - '1'.toNat)) else Option.none
    else some (it, q)
  | [] => some (it, q)

/-- a file stanza -/
def sanFile (upd : Wee.MoveQuery → Nat → Wee.MoveQuery) (it : List Char) (q : Wee.MoveQuery) : Option SanSt :=
  match it with
  | c :: r =>
    if c.isLower then
      if 'a' ≤ c ∧ c ≤ 'h' then some (r, upd q (c.toNat - 'a'.toNat)) else Option.none
    else some (it, q)
  | [] => some (it, q)

/-- the capture mark -/
def sanCapture (it : List Char) (q : Wee.MoveQuery) : SanSt :=
  match it with | 'x' :: r => (r, { q with isCapture := some true }) | _ => (it, q)

def pieceLetter (c : Char) : Option Piece :=
  match c with
  | 'K' => some .king | 'Q' => some .queen | 'R' => some .rook | 'B' => some .bishop
  | 'N' => some .knight | 'P' => some .pawn | _ => Option.none

/-- the piece-letter stanza -/
def sanPiece (it : List Char) (q : Wee.MoveQuery) : Option SanSt :=
  match it with
  | c :: r =>
    if c.isUpper then
      match pieceLetter c with
      | Option.none => Option.none
      | some p => some (r, { q with piece := some p })
    else some (it, q)
  | [] => some (it, q)

/-- nothing may be left; the default piece is the pawn -/
def sanFinish (st : SanSt) : Option Wee.MoveQuery :=
  if !st.1.isEmpty then Option.none
  else some (if st.2.piece.isNone then { st.2 with piece := some .pawn } else st.2)

/-- the model's SAN scanner after the two castling prefixes, as a chain of named stanzas -/
def sanBody (cs : List Char) : Option Wee.MoveQuery :=
  match sanPromo (sanMark cs.reverse) {} with
  | Option.none => Option.none
  | some (it, q) =>
  match sanRank (fun q n => { q with destRank := some n }) it q with
  | Option.none => Option.none
  | some (it, q) =>
  match sanFile (fun q n => { q with destFile := some n }) it q with
  | Option.none => Option.none
  | some (it, q) =>
  match sanRank (fun q n => { q with originRank := some n }) (sanCapture it q).1 (sanCapture it q).2 with
  | Option.none => Option.none
  | some (it, q) =>
  match sanFile (fun q n => { q with originFile := some n }) it q with
  | Option.none => Option.none
  | some (it, q) =>
  match sanPiece it q with
  | Option.none => Option.none
  | some (it, q) => sanFinish (it, q)

/-- `parseSanChars` IS that chain (definitional unfolding) -/
theorem parseSanChars_eq (cs : List Char) :
    parseSanChars cs =
      if startsWith cs "O-O-O".toList then some { castle := some .queen }
      else if startsWith cs "O-O".toList then some { castle := some .king }
      else sanBody cs := rfl

/-- run a model stanza (`none` = `Err(())`), continue on the Rust side -/
def TRes.bindOpt {α β : Type} (x : Option α) (k : α → TRes β) : TRes β :=
  match x with
  | some a => k a
  | Option.none => .err

theorem sanMark_ne (c : Char) (r : List Char) (h1 : c ≠ '#') (h2 : c ≠ '+') : sanMark (c :: r) = c :: r := by
  unfold sanMark
  split
  · rename_i h; cases h; exact absurd rfl h1
  · rename_i h; cases h; exact absurd rfl h2
  · rfl

theorem eqStrip_ne (c : Char) (r : List Char) (h1 : c ≠ '=') : eqStrip (c :: r) = c :: r := by
  unfold eqStrip
  split
  · rename_i h; cases h; exact absurd rfl h1
  · rfl

theorem sanCapture_ne (c : Char) (r : List Char) (q : Wee.MoveQuery) (h1 : c ≠ 'x') : sanCapture (c :: r) q = (c :: r, q) := by
  unfold sanCapture
  split
  · rename_i h; cases h; exact absurd rfl h1
  · rfl

theorem promoPiece_none (c : Char) (h1 : c ≠ 'Q') (h2 : c ≠ 'R') (h3 : c ≠ 'B') (h4 : c ≠ 'N') :
    promoPiece c = Option.none := by
  unfold promoPiece
  split <;> first | rfl | (exfalso; simp_all)

theorem pieceLetter_none (c : Char) (h1 : c ≠ 'K') (h2 : c ≠ 'Q') (h3 : c ≠ 'R') (h4 : c ≠ 'B') (h5 : c ≠ 'N')
    (h6 : c ≠ 'P') : pieceLetter c = Option.none := by
  unfold pieceLetter
  split <;> first | rfl | (exfalso; simp_all)

theorem mark_stanza {β : Type} (iter : List Char) (K : List Char → TRes β) :
    (
      (do
          if (((List.head? iter) == (Option.some '#')) || ((List.head? iter) == (Option.some '+'))) then (do
              let iter := List.tail iter
              pure iter)
          else (do
              pure iter)) >>= K) = K (sanMark iter) := by
  cases iter with
  | nil => rfl
  | cons c r =>
    by_cases h1 : c = '#'
    · subst h1; rfl
    by_cases h2 : c = '+'
    · subst h2; rfl
    rw [sanMark_ne c r h1 h2]
    simp [h1, h2, TRes.pure_eq]

theorem eq_stanza {β : Type} (r : List Char) (query : MoveQuery) (K : List Char × MoveQuery → TRes β) :
    ((if ((List.head? r) == (Option.some '=')) then (do
          let iter := List.tail r
          pure (iter, query))
      else (do
          pure (r, query))) >>= K) = K (eqStrip r, query) := by
  cases r with
  | nil => rfl
  | cons d r' =>
    by_cases hd : d = '='
    · subst hd; rfl
    rw [eqStrip_ne d r' hd]
    simp [hd, TRes.pure_eq]

theorem promo_stanza {β : Type} (iter : List Char) (q : Wee.MoveQuery) (query : MoveQuery) (hq : query = mqOf q)
    (K : List Char × MoveQuery → TRes β) :
    (
      (do
          match (List.head? iter) with
          | Option.some c => (do
              if (Char.isUpper c) then (do
                  let iter := List.tail iter
                  let query ← (do
                      if (c == 'Q') then (do
                          let t_4 ← MoveQuery.set_promotion query Piece.queen
                          let query := t_4
                          pure query)
                      else (if (c == 'R') then (do
                          let t_5 ← MoveQuery.set_promotion query Piece.rook
                          let query := t_5
                          pure query)
                      else (if (c == 'B') then (do
                          let t_6 ← MoveQuery.set_promotion query Piece.bishop
                          let query := t_6
                          pure query)
                      else (if (c == 'N') then (do
                          let t_7 ← MoveQuery.set_promotion query Piece.knight
                          let query := t_7
                          pure query)
                      else (do
                          TRes.err)))))
                  if ((List.head? iter) == (Option.some '=')) then (do
                      let iter := List.tail iter
                      pure (iter, query))
                  else (do
                      pure (iter, query)))
              else (do
                  pure (iter, query)))
          | Option.none => (do
              pure (iter, query))) >>= K) = TRes.bindOpt (sanPromo iter q) (fun st => K (st.1, mqOf st.2)) := by
  subst hq
  cases iter with
  | nil => rfl
  | cons c r =>
    simp only [List.head?_cons, List.tail_cons]
    by_cases hu : c.isUpper = true
    · by_cases h1 : c = 'Q'
      · subst h1; exact eq_stanza r _ K
      by_cases h2 : c = 'R'
      · subst h2; exact eq_stanza r _ K
      by_cases h3 : c = 'B'
      · subst h3; exact eq_stanza r _ K
      by_cases h4 : c = 'N'
      · subst h4; exact eq_stanza r _ K
      unfold sanPromo
      simp only [hu, if_true, promoPiece_none c h1 h2 h3 h4, beq_iff_eq, h1, h2, h3, h4, if_false]
      rfl
    · unfold sanPromo
      simp only [hu]
      rfl

theorem drank_stanza {β : Type} (iter : List Char) (q : Wee.MoveQuery) (query : MoveQuery) (hq : query = mqOf q)
    (K : List Char × MoveQuery → TRes β) :
    (
      (do
          match (List.head? iter) with
          | Option.some r => (do
              if (Char.isDigit r) then (do
                  let iter := List.tail iter
                  if (r == '1') then (do
                      let t_8 ← MoveQuery.set_destination_rank query Rank.ONE
                      let query := t_8
                      pure (iter, query))
                  else (if (r == '2') then (do
                      let t_9 ← MoveQuery.set_destination_rank query Rank.TWO
                      let query := t_9
                      pure (iter, query))
                  else (if (r == '3') then (do
                      let t_10 ← MoveQuery.set_destination_rank query Rank.THREE
                      let query := t_10
                      pure (iter, query))
                  else (if (r == '4') then (do
                      let t_11 ← MoveQuery.set_destination_rank query Rank.FOUR
                      let query := t_11
                      pure (iter, query))
                  else (if (r == '5') then (do
                      let t_12 ← MoveQuery.set_destination_rank query Rank.FIVE
                      let query := t_12
                      pure (iter, query))
                  else (if (r == '6') then (do
                      let t_13 ← MoveQuery.set_destination_rank query Rank.SIX
                      let query := t_13
                      pure (iter, query))
                  else (if (r == '7') then (do
                      let t_14 ← MoveQuery.set_destination_rank query Rank.SEVEN
                      let query := t_14
                      pure (iter, query))
                  else (if (r == '8') then (do
                      let t_15 ← MoveQuery.set_destination_rank query Rank.EIGHT
                      let query := t_15
                      pure (iter, query))
                  else (do
                      TRes.err)))))))))
              else (do
                  pure (iter, query)))
          | Option.none => (do
              pure (iter, query))) >>= K) =
      TRes.bindOpt (sanRank (fun q n => { q with destRank := some n }) iter q) (fun st => K (st.1, mqOf st.2)) := by
  subst hq
  cases iter with
  | nil => rfl
  | cons c r =>
    simp only [List.head?_cons, List.tail_cons]
    by_cases hu : c.isDigit = true
    · by_cases h1 : c = '1'
      · subst h1; rfl
      by_cases h2 : c = '2'
      · subst h2; rfl
      by_cases h3 : c = '3'
      · subst h3; rfl
      by_cases h4 : c = '4'
      · subst h4; rfl
      by_cases h5 : c = '5'
      · subst h5; rfl
      by_cases h6 : c = '6'
      · subst h6; rfl
      by_cases h7 : c = '7'
      · subst h7; rfl
      by_cases h8 : c = '8'
      · subst h8; rfl
      have hr : ¬ ('1' ≤ c ∧ c ≤ '8') := by
        simp only [FenL.char_le_iff, Spec.char_eq_iff_toNat, Char.reduceToNat] at *
        omega
      unfold sanRank
      simp only [hu, if_true, hr, beq_iff_eq, h1, h2, h3, h4, h5, h6, h7, h8, if_false]
      rfl
    · unfold sanRank
      simp only [hu]
      rfl

theorem orank_stanza {β : Type} (iter : List Char) (q : Wee.MoveQuery) (query : MoveQuery) (hq : query = mqOf q)
    (K : List Char × MoveQuery → TRes β) :
    (
      (do
          match (List.head? iter) with
          | Option.some r => (do
              if (Char.isDigit r) then (do
                  let iter := List.tail iter
                  if (r == '1') then (do
                      let t_25 ← MoveQuery.set_origin_rank query Rank.ONE
                      let query := t_25
                      pure (iter, query))
                  else (if (r == '2') then (do
                      let t_26 ← MoveQuery.set_origin_rank query Rank.TWO
                      let query := t_26
                      pure (iter, query))
                  else (if (r == '3') then (do
                      let t_27 ← MoveQuery.set_origin_rank query Rank.THREE
                      let query := t_27
                      pure (iter, query))
                  else (if (r == '4') then (do
                      let t_28 ← MoveQuery.set_origin_rank query Rank.FOUR
                      let query := t_28
                      pure (iter, query))
                  else (if (r == '5') then (do
                      let t_29 ← MoveQuery.set_origin_rank query Rank.FIVE
                      let query := t_29
                      pure (iter, query))
                  else (if (r == '6') then (do
                      let t_30 ← MoveQuery.set_origin_rank query Rank.SIX
                      let query := t_30
                      pure (iter, query))
                  else (if (r == '7') then (do
                      let t_31 ← MoveQuery.set_origin_rank query Rank.SEVEN
                      let query := t_31
                      pure (iter, query))
                  else (if (r == '8') then (do
                      let t_32 ← MoveQuery.set_origin_rank query Rank.EIGHT
                      let query := t_32
                      pure (iter, query))
                  else (do
                      TRes.err)))))))))
              else (do
                  pure (iter, query)))
          | Option.none => (do
              pure (iter, query))) >>= K) =
      TRes.bindOpt (sanRank (fun q n => { q with originRank := some n }) iter q) (fun st => K (st.1, mqOf st.2)) := by
  subst hq
  cases iter with
  | nil => rfl
  | cons c r =>
    simp only [List.head?_cons, List.tail_cons]
    by_cases hu : c.isDigit = true
    · by_cases h1 : c = '1'
      · subst h1; rfl
      by_cases h2 : c = '2'
      · subst h2; rfl
      by_cases h3 : c = '3'
      · subst h3; rfl
      by_cases h4 : c = '4'
      · subst h4; rfl
      by_cases h5 : c = '5'
      · subst h5; rfl
      by_cases h6 : c = '6'
      · subst h6; rfl
      by_cases h7 : c = '7'
      · subst h7; rfl
      by_cases h8 : c = '8'
      · subst h8; rfl
      have hr : ¬ ('1' ≤ c ∧ c ≤ '8') := by
        simp only [FenL.char_le_iff, Spec.char_eq_iff_toNat, Char.reduceToNat] at *
        omega
      unfold sanRank
      simp only [hu, if_true, hr, beq_iff_eq, h1, h2, h3, h4, h5, h6, h7, h8, if_false]
      rfl
    · unfold sanRank
      simp only [hu]
      rfl

theorem dfile_stanza {β : Type} (iter : List Char) (q : Wee.MoveQuery) (query : MoveQuery) (hq : query = mqOf q)
    (K : List Char × MoveQuery → TRes β) :
    (
      (do
          match (List.head? iter) with
          | Option.some f => (do
              if (Char.isLower f) then (do
                  let iter := List.tail iter
                  if (f == 'a') then (do
                      let t_16 ← MoveQuery.set_destination_file query File.A
                      let query := t_16
                      pure (iter, query))
                  else (if (f == 'b') then (do
                      let t_17 ← MoveQuery.set_destination_file query File.B
                      let query := t_17
                      pure (iter, query))
                  else (if (f == 'c') then (do
                      let t_18 ← MoveQuery.set_destination_file query File.C
                      let query := t_18
                      pure (iter, query))
                  else (if (f == 'd') then (do
                      let t_19 ← MoveQuery.set_destination_file query File.D
                      let query := t_19
                      pure (iter, query))
                  else (if (f == 'e') then (do
                      let t_20 ← MoveQuery.set_destination_file query File.E
                      let query := t_20
                      pure (iter, query))
                  else (if (f == 'f') then (do
                      let t_21 ← MoveQuery.set_destination_file query File.F
                      let query := t_21
                      pure (iter, query))
                  else (if (f == 'g') then (do
                      let t_22 ← MoveQuery.set_destination_file query File.G
                      let query := t_22
                      pure (iter, query))
                  else (if (f == 'h') then (do
                      let t_23 ← MoveQuery.set_destination_file query File.H
                      let query := t_23
                      pure (iter, query))
                  else (do
                      TRes.err)))))))))
              else (do
                  pure (iter, query)))
          | Option.none => (do
              pure (iter, query))) >>= K) =
      TRes.bindOpt (sanFile (fun q n => { q with destFile := some n }) iter q) (fun st => K (st.1, mqOf st.2)) := by
  subst hq
  cases iter with
  | nil => rfl
  | cons c r =>
    simp only [List.head?_cons, List.tail_cons]
    by_cases hu : c.isLower = true
    · by_cases h1 : c = 'a'
      · subst h1; rfl
      by_cases h2 : c = 'b'
      · subst h2; rfl
      by_cases h3 : c = 'c'
      · subst h3; rfl
      by_cases h4 : c = 'd'
      · subst h4; rfl
      by_cases h5 : c = 'e'
      · subst h5; rfl
      by_cases h6 : c = 'f'
      · subst h6; rfl
      by_cases h7 : c = 'g'
      · subst h7; rfl
      by_cases h8 : c = 'h'
      · subst h8; rfl
      have hr : ¬ ('a' ≤ c ∧ c ≤ 'h') := by
        simp only [FenL.char_le_iff, Spec.char_eq_iff_toNat, Char.reduceToNat] at *
        omega
      unfold sanFile
      simp only [hu, if_true, hr, beq_iff_eq, h1, h2, h3, h4, h5, h6, h7, h8, if_false]
      rfl
    · unfold sanFile
      simp only [hu]
      rfl

theorem ofile_stanza {β : Type} (iter : List Char) (q : Wee.MoveQuery) (query : MoveQuery) (hq : query = mqOf q)
    (K : List Char × MoveQuery → TRes β) :
    (
      (do
          match (List.head? iter) with
          | Option.some f => (do
              if (Char.isLower f) then (do
                  let iter := List.tail iter
                  if (f == 'a') then (do
                      let t_33 ← MoveQuery.set_origin_file query File.A
                      let query := t_33
                      pure (iter, query))
                  else (if (f == 'b') then (do
                      let t_34 ← MoveQuery.set_origin_file query File.B
                      let query := t_34
                      pure (iter, query))
                  else (if (f == 'c') then (do
                      let t_35 ← MoveQuery.set_origin_file query File.C
                      let query := t_35
                      pure (iter, query))
                  else (if (f == 'd') then (do
                      let t_36 ← MoveQuery.set_origin_file query File.D
                      let query := t_36
                      pure (iter, query))
                  else (if (f == 'e') then (do
                      let t_37 ← MoveQuery.set_origin_file query File.E
                      let query := t_37
                      pure (iter, query))
                  else (if (f == 'f') then (do
                      let t_38 ← MoveQuery.set_origin_file query File.F
                      let query := t_38
                      pure (iter, query))
                  else (if (f == 'g') then (do
                      let t_39 ← MoveQuery.set_origin_file query File.G
                      let query := t_39
                      pure (iter, query))
                  else (if (f == 'h') then (do
                      let t_40 ← MoveQuery.set_origin_file query File.H
                      let query := t_40
                      pure (iter, query))
                  else (do
                      TRes.err)))))))))
              else (do
                  pure (iter, query)))
          | Option.none => (do
              pure (iter, query))) >>= K) =
      TRes.bindOpt (sanFile (fun q n => { q with originFile := some n }) iter q) (fun st => K (st.1, mqOf st.2)) := by
  subst hq
  cases iter with
  | nil => rfl
  | cons c r =>
    simp only [List.head?_cons, List.tail_cons]
    by_cases hu : c.isLower = true
    · by_cases h1 : c = 'a'
      · subst h1; rfl
      by_cases h2 : c = 'b'
      · subst h2; rfl
      by_cases h3 : c = 'c'
      · subst h3; rfl
      by_cases h4 : c = 'd'
      · subst h4; rfl
      by_cases h5 : c = 'e'
      · subst h5; rfl
      by_cases h6 : c = 'f'
      · subst h6; rfl
      by_cases h7 : c = 'g'
      · subst h7; rfl
      by_cases h8 : c = 'h'
      · subst h8; rfl
      have hr : ¬ ('a' ≤ c ∧ c ≤ 'h') := by
        simp only [FenL.char_le_iff, Spec.char_eq_iff_toNat, Char.reduceToNat] at *
        omega
      unfold sanFile
      simp only [hu, if_true, hr, beq_iff_eq, h1, h2, h3, h4, h5, h6, h7, h8, if_false]
      rfl
    · unfold sanFile
      simp only [hu]
      rfl

theorem capture_stanza {β : Type} (iter : List Char) (q : Wee.MoveQuery) (query : MoveQuery) (hq : query = mqOf q)
    (K : List Char × MoveQuery → TRes β) :
    (
      (do
          if ((List.head? iter) == (Option.some 'x')) then (do
              let iter := List.tail iter
              let t_24 ← MoveQuery.set_is_capture query true
              let query := t_24
              pure (iter, query))
          else (do
              pure (iter, query))) >>= K) = K ((sanCapture iter q).1, mqOf (sanCapture iter q).2) := by
  subst hq
  cases iter with
  | nil => rfl
  | cons c r =>
    by_cases h1 : c = 'x'
    · subst h1; rfl
    rw [sanCapture_ne c r q h1]
    simp [h1, TRes.pure_eq]

theorem piece_stanza {β : Type} (iter : List Char) (q : Wee.MoveQuery) (query : MoveQuery) (hq : query = mqOf q)
    (K : List Char × MoveQuery → TRes β) :
    (
      (do
          match (List.head? iter) with
          | Option.some p => (do
              if (Char.isUpper p) then (do
                  let iter := List.tail iter
                  if (p == 'K') then (do
                      let t_41 ← MoveQuery.set_piece query Piece.king
                      let query := t_41
                      pure (iter, query))
                  else (if (p == 'Q') then (do
                      let t_42 ← MoveQuery.set_piece query Piece.queen
                      let query := t_42
                      pure (iter, query))
                  else (if (p == 'R') then (do
                      let t_43 ← MoveQuery.set_piece query Piece.rook
                      let query := t_43
                      pure (iter, query))
                  else (if (p == 'B') then (do
                      let t_44 ← MoveQuery.set_piece query Piece.bishop
                      let query := t_44
                      pure (iter, query))
                  else (if (p == 'N') then (do
                      let t_45 ← MoveQuery.set_piece query Piece.knight
                      let query := t_45
                      pure (iter, query))
                  else (if (p == 'P') then (do
                      let t_46 ← MoveQuery.set_piece query Piece.pawn
                      let query := t_46
                      pure (iter, query))
                  else (do
                      TRes.err)))))))
              else (do
                  pure (iter, query)))
          | Option.none => (do
              pure (iter, query))) >>= K) = TRes.bindOpt (sanPiece iter q) (fun st => K (st.1, mqOf st.2)) := by
  subst hq
  cases iter with
  | nil => rfl
  | cons c r =>
    simp only [List.head?_cons, List.tail_cons]
    by_cases hu : c.isUpper = true
    · by_cases h1 : c = 'K'
      · subst h1; rfl
      by_cases h2 : c = 'Q'
      · subst h2; rfl
      by_cases h3 : c = 'R'
      · subst h3; rfl
      by_cases h4 : c = 'B'
      · subst h4; rfl
      by_cases h5 : c = 'N'
      · subst h5; rfl
      by_cases h6 : c = 'P'
      · subst h6; rfl
      unfold sanPiece
      simp only [hu, if_true, pieceLetter_none c h1 h2 h3 h4 h5 h6, beq_iff_eq, h1, h2, h3, h4, h5, h6, if_false]
      rfl
    · unfold sanPiece
      simp only [hu]
      rfl

theorem finish_stanza (iter : List Char) (q : Wee.MoveQuery) (query : MoveQuery) (hq : query = mqOf q) :
    (
      (do
          if (Option.isSome (List.head? iter)) then (do
              TRes.err)
          else (do
              pure ())) >>= fun _ =>
      (do
          if (Option.isNone query.f_piece) then (do
              let t_47 ← MoveQuery.set_piece query Piece.pawn
              let query := t_47
              pure query)
          else (do
              pure query))) = TRes.okOr ((sanFinish (iter, q)).map mqOf) := by
  subst hq
  cases iter with
  | cons c r => rfl
  | nil =>
    cases hp : q.piece with
    | none => simp [sanFinish, mqOf, hp, TRes.pure_eq, MoveQuery.set_piece]
    | some p => simp [sanFinish, mqOf, hp, TRes.pure_eq]

/-- **`San::try_from_notation`** (the SAN scanner of `notation.rs`: two castling prefixes, then the reversed text read
through a peekable cursor — mark, promotion, destination rank / file, `x`, origin rank / file, piece letter, nothing
left, default pawn) is the model's `parseSanChars`, for every text; no panic -/
theorem San.try_from_notation_eq (s : List Char) :
    San.try_from_notation s = TRes.okOr ((parseSanChars s).map mqOf) := by
  rw [parseSanChars_eq]
  unfold San.try_from_notation
  have e1 : str.starts_with s ['O', '-', 'O', '-', 'O'] = startsWith s "O-O-O".toList := rfl
  have e2 : str.starts_with s ['O', '-', 'O'] = startsWith s "O-O".toList := rfl
  rw [e1, e2]
  by_cases h1 : startsWith s "O-O-O".toList = true
  · rw [if_pos h1, if_pos h1]; rfl
  rw [if_neg h1, if_neg h1]
  by_cases h2 : startsWith s "O-O".toList = true
  · rw [if_pos h2, if_pos h2]; rfl
  rw [if_neg h2, if_neg h2]
  simp only [MoveQuery.new_eq, TRes.ok_bind]
  refine (mark_stanza _ _).trans ?_
  refine (promo_stanza _ {} _ rfl _).trans ?_
  unfold sanBody
  cases sanPromo (sanMark s.reverse) {} with
  | none => rfl
  | some st =>
  obtain ⟨it, q⟩ := st
  dsimp only []
  refine (drank_stanza it q _ rfl _).trans ?_
  cases sanRank (fun q n => { q with destRank := some n }) it q with
  | none => rfl
  | some st =>
  obtain ⟨it, q⟩ := st
  dsimp only []
  refine (dfile_stanza it q _ rfl _).trans ?_
  cases sanFile (fun q n => { q with destFile := some n }) it q with
  | none => rfl
  | some st =>
  obtain ⟨it, q⟩ := st
  dsimp only []
  refine (capture_stanza it q _ rfl _).trans ?_
  refine (orank_stanza _ _ _ rfl _).trans ?_
  cases sanRank (fun q n => { q with originRank := some n }) (sanCapture it q).1 (sanCapture it q).2 with
  | none => rfl
  | some st =>
  obtain ⟨it, q⟩ := st
  dsimp only []
  refine (ofile_stanza it q _ rfl _).trans ?_
  cases sanFile (fun q n => { q with originFile := some n }) it q with
  | none => rfl
  | some st =>
  obtain ⟨it, q⟩ := st
  dsimp only []
  refine (piece_stanza it q _ rfl _).trans ?_
  cases sanPiece it q with
  | none => rfl
  | some st =>
  obtain ⟨it, q⟩ := st
  dsimp only []
  exact finish_stanza it q _ rfl


/-! ## the coordinate (LAN) writer -/

/-- **`Lan::into_notation(Move)`** (`mod lan`, the coordinate writer used for `bestmove` / `pv`): on a move word whose
promotion code is a `Piece` discriminant it appends exactly the model's `Move.lan m`; no panic -/
theorem Lan.into_notation_eq (m : UInt32) (hp : Wee.Move.promotionCode m ≤ 6) (f : List Char) :
    Lan.into_notation m f = .ok (f ++ (Wee.Move.lan m).toList) := by
  have ho := model_origin_lt m
  have hd := model_dest_lt m
  unfold Lan.into_notation Wee.Move.lan
  simp only [Move.origin_eq, Move.destination_eq, TRes.ofPanics_some, TRes.ok_bind, promotion_some' m hp,
    Square.fmt_eq _ (show ((Wee.Move.origin m).toUInt8).toNat < 64 by rw [toNat_toUInt8_lt _ (by omega)]; exact ho),
    Square.fmt_eq _ (show ((Wee.Move.dest m).toUInt8).toNat < 64 by rw [toNat_toUInt8_lt _ (by omega)]; exact hd),
    toNat_toUInt8_lt _ (show Wee.Move.origin m < 256 by omega), toNat_toUInt8_lt _ (show Wee.Move.dest m < 256 by omega)]
  cases Wee.Move.promotion m with
  | none => simp [TRes.pure_eq]
  | some p => simp [TRes.pure_eq, Piece.into_char_eq]

/-! ## what the SAN scanner produces can be tested -/

theorem queryOk_of_none (q : Wee.MoveQuery) (h1 : q.originRank = Option.none) (h2 : q.originFile = Option.none)
    (h3 : q.destRank = Option.none) (h4 : q.destFile = Option.none) : QueryOk q :=
  ⟨fun r e => (by rw [h1] at e; cases e), fun r e => (by rw [h2] at e; cases e), fun r e => (by rw [h3] at e; cases e),
    fun r e => (by rw [h4] at e; cases e)⟩

theorem queryOk_default : QueryOk {} := queryOk_of_none _ rfl rfl rfl rfl

theorem sanPromo_ok (it : List Char) (q : Wee.MoveQuery) (st : SanSt) (hq : QueryOk q) (h : sanPromo it q = some st) :
    QueryOk st.2 := by
  unfold sanPromo at h
  split at h
  · split at h
    · split at h
      · cases h
      · cases h; exact ⟨hq.1, hq.2, hq.3, hq.4⟩
    · cases h; exact hq
  · cases h; exact hq

theorem sanPiece_ok (it : List Char) (q : Wee.MoveQuery) (st : SanSt) (hq : QueryOk q) (h : sanPiece it q = some st) :
    QueryOk st.2 := by
  unfold sanPiece at h
  split at h
  · split at h
    · split at h
      · cases h
      · cases h; exact ⟨hq.1, hq.2, hq.3, hq.4⟩
    · cases h; exact hq
  · cases h; exact hq

theorem sanCapture_ok (it : List Char) (q : Wee.MoveQuery) (hq : QueryOk q) : QueryOk (sanCapture it q).2 := by
  unfold sanCapture
  split
  · exact ⟨hq.1, hq.2, hq.3, hq.4⟩
  · exact hq

theorem sanRank_ok (upd : Wee.MoveQuery → Nat → Wee.MoveQuery)
    (hupd : ∀ q n, QueryOk q → n < 256 → QueryOk (upd q n)) (it : List Char) (q : Wee.MoveQuery) (st : SanSt)
    (hq : QueryOk q) (h : sanRank upd it q = some st) : QueryOk st.2 := by
  unfold sanRank at h
  split at h
  · split at h
    · split at h
      · rename_i c r _ hr
        cases h
        apply hupd _ _ hq
        have := hr.2
        simp only [FenL.char_le_iff, Char.reduceToNat] at this
        omega
      · cases h
    · cases h; exact hq
  · cases h; exact hq

theorem sanFile_ok (upd : Wee.MoveQuery → Nat → Wee.MoveQuery)
    (hupd : ∀ q n, QueryOk q → n < 256 → QueryOk (upd q n)) (it : List Char) (q : Wee.MoveQuery) (st : SanSt)
    (hq : QueryOk q) (h : sanFile upd it q = some st) : QueryOk st.2 := by
  unfold sanFile at h
  split at h
  · split at h
    · split at h
      · rename_i c r _ hr
        cases h
        apply hupd _ _ hq
        have := hr.2
        simp only [FenL.char_le_iff, Char.reduceToNat] at this
        omega
      · cases h
    · cases h; exact hq
  · cases h; exact hq

/-- every query the SAN scanner returns has coordinates that fit a `u8` (so `MoveQuery.test_eq` applies to it) -/
theorem parseSanChars_queryOk (s : List Char) (q : Wee.MoveQuery) (h : parseSanChars s = some q) : QueryOk q := by
  rw [parseSanChars_eq] at h
  split at h
  · cases h; exact queryOk_of_none _ rfl rfl rfl rfl
  split at h
  · cases h; exact queryOk_of_none _ rfl rfl rfl rfl
  unfold sanBody at h
  split at h
  · cases h
  rename_i it1 q1 h1
  have k1 := sanPromo_ok _ _ _ queryOk_default h1
  split at h
  · cases h
  rename_i it2 q2 h2
  have k2 := sanRank_ok (fun q n => { q with destRank := some n })
    (fun q n hq hn => ⟨hq.1, hq.2, fun r e => (by cases e; exact hn), hq.4⟩) _ _ _ k1 h2
  split at h
  · cases h
  rename_i it3 q3 h3
  have k3 := sanFile_ok (fun q n => { q with destFile := some n })
    (fun q n hq hn => ⟨hq.1, hq.2, hq.3, fun r e => (by cases e; exact hn)⟩) _ _ _ k2 h3
  split at h
  · cases h
  rename_i it4 q4 h4
  have k4 := sanRank_ok (fun q n => { q with originRank := some n })
    (fun q n hq hn => ⟨fun r e => (by cases e; exact hn), hq.2, hq.3, hq.4⟩) _ _ _
    (sanCapture_ok it3 q3 k3) h4
  split at h
  · cases h
  rename_i it5 q5 h5
  have k5 := sanFile_ok (fun q n => { q with originFile := some n })
    (fun q n hq hn => ⟨hq.1, fun r e => (by cases e; exact hn), hq.3, hq.4⟩) _ _ _ k4 h5
  split at h
  · cases h
  rename_i it6 q6 h6
  have k6 := sanPiece_ok _ _ _ k5 h6
  unfold sanFinish at h
  split at h
  · cases h
  · cases h
    split
    · exact ⟨k6.1, k6.2, k6.3, k6.4⟩
    · exact k6

/-- **SAN text → does this move match?** — the composition the engine runs for every SAN token
(`San::try_from_notation` then `MoveQuery::test` on each legal move): equal to the model's `parseSanChars` then
`MoveQuery.test`, `Err` exactly when the model rejects the text; no panic on a move word with valid piece codes -/
theorem San.test_eq (s : List Char) (m : UInt32) (hm : MoveOk m) :
    (San.try_from_notation s >>= fun Q => MoveQuery.test Q m) =
      TRes.okOr ((parseSanChars s).map fun q => q.test m) := by
  rw [San.try_from_notation_eq]
  cases h : parseSanChars s with
  | none => rfl
  | some q => exact MoveQuery.test_eq q (parseSanChars_queryOk s q h) m hm


/-! ## the coordinate writer for a line of moves (`info pv …`) -/

def enumAux {α : Type} : Nat → List α → List (UInt64 × α)
  | _, [] => []
  | k, a :: r => (k.toUInt64, a) :: enumAux (k + 1) r

theorem enumerate_aux {α : Type} (l : List α) (k : Nat) :
    ((List.range' k l.length).map Nat.toUInt64).zip l = enumAux k l := by
  induction l generalizing k with
  | nil => rfl
  | cons a r ih =>
    simp only [List.length_cons, List.range'_succ, List.map_cons, List.zip_cons_cons, enumAux, ih]

theorem iter.enumerate_eq {α : Type} (l : List α) : iter.enumerate l = enumAux 0 l := by
  unfold iter.enumerate
  rw [List.range_eq_range', enumerate_aux]

theorem lan_loop (n : Nat) (hn : n < 2 ^ 64) (B : List Char → UInt64 × Move → TRes (Flow (List Char)))
    (hB : ∀ f (k : Nat) m, k < n → Wee.Move.promotionCode m ≤ 6 →
      B f (k.toUInt64, m) = .ok (.cont (f ++ (Wee.Move.lan m).toList ++ if k + 1 < n then [' '] else []))) :
    ∀ (l : List Move) (k : Nat) (f : List Char), k + l.length = n → (∀ m ∈ l, Wee.Move.promotionCode m ≤ 6) →
      for_loop (enumAux k l) f B = .ok (f ++ (" ".intercalate (l.map Wee.Move.lan)).toList) := by
  intro l
  induction l with
  | nil => intro k f _ _; simp [enumAux, for_loop]
  | cons m r ih =>
    intro k f hk hp
    simp only [List.length_cons] at hk
    rw [enumAux, for_loop, hB f k m (by omega) (hp m List.mem_cons_self)]
    cases r with
    | nil =>
      simp only [List.length_nil] at hk
      have : ¬ (k + 1 < n) := by omega
      simp [this, enumAux, for_loop]
    | cons b r' =>
      simp only [List.length_cons] at hk
      have : k + 1 < n := by omega
      simp only [this, if_true]
      rw [ih (k + 1) _ (by simp only [List.length_cons]; omega) (fun m' hm' => hp m' (List.mem_cons_of_mem _ hm'))]
      simp [String.intercalate_cons_cons, List.append_assoc]

/-- **`Lan::into_notation(&[Move])`** (the `info pv` line): the loop translated from `notation.rs` (`enumerate`, a space
after every move but the last, `len() - 1` never underflows inside the loop) appends the model's coordinate texts joined
by single spaces; no panic -/
theorem Lan.into_notation_slice_eq (l : List Move) (hl : l.length < 2 ^ 64)
    (hp : ∀ m ∈ l, Wee.Move.promotionCode m ≤ 6) (f : List Char) :
    Lan.into_notation_slice l f = .ok (f ++ (" ".intercalate (l.map Wee.Move.lan)).toList) := by
  unfold Lan.into_notation_slice
  rw [iter.enumerate_eq]
  refine lan_loop l.length hl _ ?_ l 0 f (by simp) hp
  intro f k m hk hm
  have h1 : 1 ≤ l.length := by omega
  have hsub : UInt64.checked_sub (slice.len l) (1 : UInt64) = some (l.length - 1).toUInt64 := by
    unfold UInt64.checked_sub slice.len
    have e : (l.length.toUInt64).toNat = l.length := by simp [Nat.toUInt64, Nat.mod_eq_of_lt hl]
    rw [if_pos (by rw [e]; exact h1)]
    congr 1
    apply UInt64.toNat_inj.1
    rw [UInt64.toNat_sub_of_le _ _ (by rw [UInt64.le_iff_toNat_le, e]; exact h1), e]
    simp [Nat.toUInt64, Nat.mod_eq_of_lt (show l.length - 1 < 2 ^ 64 by omega)]
  have hlt : decide (k.toUInt64 < (l.length - 1).toUInt64) = decide (k + 1 < l.length) := by
    have e1 : (k.toUInt64).toNat = k := by simp [Nat.toUInt64, Nat.mod_eq_of_lt (show k < 2 ^ 64 by omega)]
    have e2 : ((l.length - 1).toUInt64).toNat = l.length - 1 := by
      simp [Nat.toUInt64, Nat.mod_eq_of_lt (show l.length - 1 < 2 ^ 64 by omega)]
    have hiff : k.toUInt64 < (l.length - 1).toUInt64 ↔ k + 1 < l.length := by
      rw [UInt64.lt_iff_toNat_lt, e1, e2]; omega
    by_cases h : k + 1 < l.length
    · rw [decide_eq_true h, decide_eq_true (hiff.2 h)]
    · rw [decide_eq_false h, decide_eq_false (fun h' => h (hiff.1 h'))]
  simp only [Lan.into_notation_eq m hm, TRes.ok_bind, hsub, TRes.ofPanics_some, hlt]
  by_cases h : k + 1 < l.length
  · simp [h, TRes.pure_eq]
  · simp [h, TRes.pure_eq]


/-! ## the coordinate (LAN) READER: the `filter_map` closure of `uci.rs` -/

theorem fromUTF8?_size (bs : ByteArray) (a : String) (h : String.fromUTF8? bs = some a) : a.utf8ByteSize = bs.size := by
  unfold String.fromUTF8? at h
  split at h
  · cases h; rfl
  · cases h

theorem sliceBytes_size (s : String) (a b : Nat) (r : String) (h : sliceBytes s a b = some r) : r.utf8ByteSize = b - a := by
  unfold sliceBytes at h
  simp only at h
  split at h
  · cases h
  · rename_i hb
    split at h
    · cases h
    · rw [fromUTF8?_size _ _ h]
      simp only [ByteArray.size_extract]
      have : b ≤ s.toUTF8.size := by omega
      omega

/-- the primitive `str::get(a..b)` of the prelude is the model's `sliceBytes` -/
theorem str.get_range_eq (s : List Char) (a b : UInt64) :
    str.get_range s a b = (sliceBytes (String.ofList s) a.toNat b.toNat).map String.toList := by
  unfold str.get_range sliceBytes
  simp only []
  split
  · rfl
  · split <;> rfl

theorem parseSquare_lt (cs : List Char) (o : Nat) (h : parseSquare cs = some o) : o < 64 := by
  unfold parseSquare at h
  split at h
  · cases h
  · split at h
    · rename_i f r
      simp only at h
      split at h
      · cases h
      · rename_i hf
        split at h
        · cases h
        · rename_i hr
          cases h
          simp only [gt_iff_lt, char_lt_iff, not_or, Nat.not_lt, Char.reduceToNat] at hf hr
          unfold mkSq
          have : ('1' : Char).toNat = 49 := rfl
          have : ('A' : Char).toNat = 65 := rfl
          omega
    · cases h

/-- the square stanza of the closure: `Square::try_from(m.get(a..b)?).ok()?` -/
theorem square_stanza {β : Type} (m : List Char) (a b : UInt64) (hab : b.toNat - a.toNat = 2) (K : Square → TRes β) :
    ((TRes.okOr (str.get_range m a b)) >>= fun t => Square.try_from_str t >>= K) =
      match sliceBytes (String.ofList m) a.toNat b.toNat with
      | Option.none => .err
      | some t => match parseSquare t.toList with
        | Option.none => .err
        | some o => K o.toUInt8 := by
  rw [str.get_range_eq]
  cases h : sliceBytes (String.ofList m) a.toNat b.toNat with
  | none => rfl
  | some t =>
    have hsz := sliceBytes_size _ _ _ _ h
    have : (String.ofList t.toList).utf8ByteSize < 2 ^ 64 := by
      rw [String.ofList_toList, hsz, hab]; decide
    simp only [Option.map_some, TRes.okOr_some, TRes.ok_bind, Square.try_from_str_eq _ this]
    cases parseSquare t.toList <;> rfl

theorem promo_letter {β : Type} (c : Char) (K : Option Piece → TRes β) :
    ((if (c == 'q') then (do pure (Option.some Piece.queen))
      else (if (c == 'r') then (do pure (Option.some Piece.rook))
      else (if (c == 'b') then (do pure (Option.some Piece.bishop))
      else (if (c == 'n') then (do pure (Option.some Piece.knight))
      else (do TRes.err))))) >>= K) =
      if c = 'q' then K (some .queen) else if c = 'r' then K (some .rook) else if c = 'b' then K (some .bishop)
      else if c = 'n' then K (some .knight) else .err := by
  by_cases h1 : c = 'q'
  · subst h1; rfl
  by_cases h2 : c = 'r'
  · subst h2; rfl
  by_cases h3 : c = 'b'
  · subst h3; rfl
  by_cases h4 : c = 'n'
  · subst h4; rfl
  simp [h1, h2, h3, h4]

/-- the Rust-side outcome of the model's `parseUciMoveToken` (outer `none` = panic, inner `none` = token rejected) -/
def tokenRes : Option (Option Wee.MoveQuery) → TRes MoveQuery
  | Option.none => .panic
  | some Option.none => .err
  | some (some q) => .ok (mqOf q)

/-- **the LAN reader** (`uci.rs`, `position … moves <m>…`: the `filter_map` closure, translated from the source:
`m.get(0..2)?`, `Square::try_from(..).ok()?`, `m.get(2..4)?`, the optional promotion letter at `chars().nth(4)`,
`MoveQuery::new` + `set_origin` + `set_destination` + `set_promotion`) is the model's `parseUciMoveToken`, for every text:
`None` (token rejected) exactly when the model rejects, never a panic -/
theorem uci.parse_move_token_eq (m : List Char) :
    uci.parse_move_token m = tokenRes (parseUciMoveToken (String.ofList m)) := by
  unfold uci.parse_move_token parseUciMoveToken
  refine (square_stanza m 0 2 rfl _).trans ?_
  have z0 : (0 : UInt64).toNat = 0 := rfl
  have z2 : (2 : UInt64).toNat = 2 := rfl
  have z4 : (4 : UInt64).toNat = 4 := rfl
  rw [z0, z2]
  cases sliceBytes (String.ofList m) 0 2 with
  | none => rfl
  | some a =>
  dsimp only []
  cases ho : parseSquare a.toList with
  | none => rfl
  | some o =>
  dsimp only []
  refine (square_stanza m 2 4 rfl _).trans ?_
  rw [z2, z4]
  cases sliceBytes (String.ofList m) 2 4 with
  | none => rfl
  | some b =>
  dsimp only []
  cases hd : parseSquare b.toList with
  | none => rfl
  | some d =>
  dsimp only []
  have ho64 := parseSquare_lt _ _ ho
  have hd64 := parseSquare_lt _ _ hd
  have hm : (String.ofList m).toList[4]? = m[4]? := by rw [String.toList_ofList]
  have hn : iter.nth m (4 : UInt64) = m[4]? := rfl
  rw [hm, hn]
  cases m[4]? with
  | none =>
    simp only [TRes.pure_eq, TRes.ok_bind, MoveQuery.new_eq, MoveQuery.set_origin, MoveQuery.set_destination, tokenRes, mqOf,
      Option.map_some, Option.map_none, rank_toUInt8 _ ho64, file_toUInt8 _ ho64, rank_toUInt8 _ hd64, file_toUInt8 _ hd64]
  | some c =>
    dsimp only []
    refine (promo_letter c _).trans ?_
    by_cases h1 : c = 'q'
    · subst h1
      simp only [TRes.pure_eq, TRes.ok_bind, MoveQuery.new_eq, MoveQuery.set_origin, MoveQuery.set_destination,
        MoveQuery.set_promotion, tokenRes, mqOf, if_true,
        Option.map_some, Option.map_none, rank_toUInt8 _ ho64, file_toUInt8 _ ho64, rank_toUInt8 _ hd64, file_toUInt8 _ hd64]
    by_cases h2 : c = 'r'
    · subst h2
      simp only [TRes.pure_eq, TRes.ok_bind, MoveQuery.new_eq, MoveQuery.set_origin, MoveQuery.set_destination,
        MoveQuery.set_promotion, tokenRes, mqOf, if_true,
        Option.map_some, Option.map_none, rank_toUInt8 _ ho64, file_toUInt8 _ ho64, rank_toUInt8 _ hd64, file_toUInt8 _ hd64]
      rfl
    by_cases h3 : c = 'b'
    · subst h3
      simp only [TRes.pure_eq, TRes.ok_bind, MoveQuery.new_eq, MoveQuery.set_origin, MoveQuery.set_destination,
        MoveQuery.set_promotion, tokenRes, mqOf, if_true,
        Option.map_some, Option.map_none, rank_toUInt8 _ ho64, file_toUInt8 _ ho64, rank_toUInt8 _ hd64, file_toUInt8 _ hd64]
      rfl
    by_cases h4 : c = 'n'
    · subst h4
      simp only [TRes.pure_eq, TRes.ok_bind, MoveQuery.new_eq, MoveQuery.set_origin, MoveQuery.set_destination,
        MoveQuery.set_promotion, tokenRes, mqOf, if_true,
        Option.map_some, Option.map_none, rank_toUInt8 _ ho64, file_toUInt8 _ ho64, rank_toUInt8 _ hd64, file_toUInt8 _ hd64]
      rfl
    simp only [h1, h2, h3, h4, if_false]
    rfl


/-! ## the remaining one-liners (so that every generated function has its bridge statement) -/

theorem Square.rank_file_eq (sq : Square) : Square.rank_file sq = .ok (Square.rank sq, Square.file sq) := rfl
theorem Board.empty_map_eq : Board.empty_map = .ok (arrCells (List.replicate 64 Option.none)) := rfl
theorem State.new_eq (s : Wee.State) :
    State.new (boardOf s.pieces) s.turn (rightsArr (s.castleW, s.castleB)) (s.ep.map Nat.toUInt8)
      ⟨s.halfmove.toUInt64, s.fullmove.toUInt64⟩ = .ok (stateOf s) := rfl
theorem MoveQuery.set_origin_eq (q : MoveQuery) (sq : Square) :
    MoveQuery.set_origin q sq = .ok { q with f_origin_rank := some (Square.rank sq), f_origin_file := some (Square.file sq) } := rfl
theorem MoveQuery.set_destination_eq (q : MoveQuery) (sq : Square) :
    MoveQuery.set_destination q sq = .ok { q with f_dest_rank := some (Square.rank sq), f_dest_file := some (Square.file sq) } := rfl
/-- `MoveQuery::by_moving_from_to` on squares `< 64` is the model query with the four coordinates set -/
theorem MoveQuery.by_moving_from_to_eq (o d : Nat) (ho : o < 64) (hd : d < 64) :
    MoveQuery.by_moving_from_to o.toUInt8 d.toUInt8 =
      .ok (mqOf { originRank := some (rankOf o), originFile := some (fileOf o), destRank := some (rankOf d), destFile := some (fileOf d) }) := by
  simp only [MoveQuery.by_moving_from_to, MoveQuery.new_eq, MoveQuery.set_origin_eq, MoveQuery.set_destination_eq, TRes.ok_bind,
    TRes.pure_eq, mqOf, Option.map_some, Option.map_none, rank_toUInt8 _ ho, file_toUInt8 _ ho, rank_toUInt8 _ hd, file_toUInt8 _ hd]

end Wee.GenFns
