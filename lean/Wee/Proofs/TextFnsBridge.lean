import Wee.Gen.TextFns
import Wee.Proofs.GenMovesBridge
import Wee.Proofs.FenLemmas
import Wee.Props.FenRegex
import Wee.Model.San
/-!
# Bridge: the text notations translated from the Rust source (`Wee/Gen/TextFns.lean`, stage 3d) = the hand model

Every theorem is about a `def` that `tools/rs2lean_text.py` regenerates from the text of `notation.rs`, `board.rs`,
`piece.rs`, `moves.rs`; the right-hand sides are the model functions of `Wee/Model/Fen.lean` / `Wee/Model/San.lean`
the property theorems C11 / C12 / C14 are about.
-/
set_option linter.unusedVariables false
set_option linter.unusedSimpArgs false
namespace Wee.GenFns
open Wee

/-! ## The `TRes` monad -/

@[simp] theorem TRes.ok_bind {α β : Type} (a : α) (f : α → TRes β) : (TRes.ok a >>= f) = f a := rfl
@[simp] theorem TRes.pure_bind {α β : Type} (a : α) (f : α → TRes β) : ((pure a : TRes α) >>= f) = f a := rfl
@[simp] theorem TRes.err_bind {α β : Type} (f : α → TRes β) : ((TRes.err : TRes α) >>= f) = TRes.err := rfl
@[simp] theorem TRes.panic_bind {α β : Type} (f : α → TRes β) : ((TRes.panic : TRes α) >>= f) = TRes.panic := rfl
theorem TRes.pure_eq {α : Type} (a : α) : (pure a : TRes α) = TRes.ok a := rfl
@[simp] theorem TRes.ofPanics_some {α : Type} (a : α) : TRes.ofPanics (some a) = TRes.ok a := rfl
@[simp] theorem TRes.ofPanics_none {α : Type} : TRes.ofPanics (none : Option α) = TRes.panic := rfl
@[simp] theorem TRes.okOr_some {α : Type} (a : α) : TRes.okOr (some a) = TRes.ok a := rfl
@[simp] theorem TRes.okOr_none {α : Type} : TRes.okOr (none : Option α) = TRes.err := rfl

theorem u8_lt8_cases (a : UInt8) (h : a.toNat < 8) :
    a = 0 ∨ a = 1 ∨ a = 2 ∨ a = 3 ∨ a = 4 ∨ a = 5 ∨ a = 6 ∨ a = 7 := by
  have : a.toNat = 0 ∨ a.toNat = 1 ∨ a.toNat = 2 ∨ a.toNat = 3 ∨ a.toNat = 4 ∨ a.toNat = 5 ∨ a.toNat = 6 ∨
      a.toNat = 7 := by omega
  rcases this with h | h | h | h | h | h | h | h <;> simp [← UInt8.toNat_inj, h]

/-! ## Target 1: the FEN writer -/

/-- `Into<char> for Piece` is the model's `Piece.letter`; no panic -/
theorem Piece.into_char_eq (p : Piece) : Piece.into_char p = .ok p.letter := by
  cases p <;> rfl

/-- `Display for Piece` -/
theorem Piece.fmt_eq (p : Piece) (f : List Char) : Piece.fmt p f = .ok (f ++ [p.letter]) := by
  simp [Piece.fmt, Piece.into_char_eq, TRes.pure_eq]

/-- `Display for PieceIndex` on `PieceIndex::new(c, p)` is the model's `pieceChar` -/
theorem PieceIndex.fmt_new (c : Color) (p : Piece) (f : List Char) :
    PieceIndex.fmt (PieceIndex.new c p) f = .ok (f ++ [pieceChar c p]) := by
  simp only [PieceIndex.fmt, PieceIndex.piece_new, PieceIndex.color_new, TRes.ofPanics_some, TRes.ok_bind,
    Piece.into_char_eq, TRes.pure_eq]
  cases c <;> rfl

/-- `Display for File` on a file `< 8` -/
theorem File.fmt_eq (x : File) (h : x.toNat < 8) (f : List Char) : File.fmt x f = .ok (f ++ [fileChar x.toNat]) := by
  rcases u8_lt8_cases x h with rfl | rfl | rfl | rfl | rfl | rfl | rfl | rfl <;> rfl

/-- `Display for Rank` on a rank `< 8` -/
theorem Rank.fmt_eq (x : Rank) (h : x.toNat < 8) (f : List Char) : Rank.fmt x f = .ok (f ++ [rankChar x.toNat]) := by
  rcases u8_lt8_cases x h with rfl | rfl | rfl | rfl | rfl | rfl | rfl | rfl <;> rfl

/-- outside the board both print `?` (no panic) -/
theorem File.fmt_off (x : File) (h : 8 ≤ x.toNat) (f : List Char) : File.fmt x f = .ok (f ++ ['?']) := by
  have : x > 7 := by rw [gt_iff_lt, UInt8.lt_iff_toNat_lt]; simp; omega
  simp [File.fmt, this, TRes.pure_eq]

/-- `Display for Square` is the model's `sqName` -/
theorem Square.fmt_eq (sq : Square) (h : sq.toNat < 64) (f : List Char) :
    Square.fmt sq f = .ok (f ++ (sqName sq.toNat).toList) := by
  have hf : (Square.file sq).toNat < 8 := by rw [Square.file_toNat]; unfold fileOf; omega
  have hr : (Square.rank sq).toNat < 8 := by rw [Square.rank_toNat]; unfold rankOf; omega
  simp only [Square.fmt, File.fmt_eq _ hf, Rank.fmt_eq _ hr, TRes.ok_bind, TRes.pure_eq, Square.file_toNat,
    Square.rank_toNat, sqName, String.toList_ofList, List.append_assoc, List.cons_append, List.nil_append]


/-! ### loops -/

/-- a loop whose body never breaks, fails or panics under an invariant is a fold (`abs`: the Rust-side value of
the abstract loop state; `P k`: invariant with `k` iterations to go) -/
theorem for_loop_abs {α σ τ : Type} (abs : τ → σ) (g : τ → α → τ) (P : Nat → τ → Prop)
    (f : σ → α → TRes (Flow σ)) :
    ∀ (l : List α) (t : τ), P l.length t →
      (∀ x ∈ l, ∀ t k, P (k + 1) t → f (abs t) x = .ok (.cont (abs (g t x))) ∧ P k (g t x)) →
      for_loop l (abs t) f = .ok (abs (l.foldl g t)) ∧ P 0 (l.foldl g t) := by
  intro l
  induction l with
  | nil => intro t h _; exact ⟨rfl, h⟩
  | cons x xs ih =>
    intro t h step
    obtain ⟨e, hp⟩ := step x List.mem_cons_self t xs.length h
    rw [for_loop, e]
    exact ih (g t x) hp (fun y hy => step y (List.mem_cons_of_mem _ hy))

/-- Rust-side code of a mailbox cell -/
def codeOf : Option (Color × Piece) → PieceIndex
  | some cp => PieceIndex.new cp.1 cp.2
  | Option.none => 0

def cellsStep (m : PieceMap) (a : Array PieceIndex) (sq : Square) : Array PieceIndex :=
  match m.pieceAt sq.toNat with
  | some cp => a.setIfInBounds sq.toNat (PieceIndex.new cp.1 cp.2)
  | Option.none => a

/-- the mailbox `ArrayMap<Square, PieceIndex>` that `From<&Board>` builds -/
def cellsArr (m : PieceMap) : Array PieceIndex := Square.ALL.foldl (cellsStep m) (Array.replicate 64 PieceIndex.NONE)

theorem cellsStep_size (m : PieceMap) (a : Array PieceIndex) (sq : Square) : (cellsStep m a sq).size = a.size := by
  unfold cellsStep; split <;> simp

theorem cells_foldl_size (m : PieceMap) (l : List Square) (a : Array PieceIndex) :
    (l.foldl (cellsStep m) a).size = a.size := by
  induction l generalizing a with
  | nil => rfl
  | cons x t ih => rw [List.foldl_cons, ih, cellsStep_size]

theorem cells_foldl_get (m : PieceMap) (l : List Square) (a : Array PieceIndex) (i : Nat) (hi : i < a.size) :
    (l.foldl (cellsStep m) a)[i]? =
      if (l.any (fun sq => sq.toNat == i) && (m.pieceAt i).isSome) then some (codeOf (m.pieceAt i)) else a[i]? := by
  induction l generalizing a with
  | nil => simp
  | cons x t ih =>
    rw [List.foldl_cons, ih _ (by rw [cellsStep_size]; exact hi)]
    by_cases hx : x.toNat = i
    · subst hx
      cases hp : m.pieceAt x.toNat with
      | none => simp [cellsStep, hp]
      | some cp => simp [cellsStep, hp, codeOf, hi]
    · cases hp : m.pieceAt x.toNat with
      | none => simp [cellsStep, hp, hx]
      | some cp => simp [cellsStep, hp, hx, Array.getElem?_setIfInBounds_ne]

theorem cellsArr_size (m : PieceMap) : (cellsArr m).size = 64 := by
  unfold cellsArr; rw [cells_foldl_size]; simp

theorem cellsArr_index (m : PieceMap) (sq : Square) (h : sq.toNat < 64) :
    ArrayMap.index (cellsArr m) (Index.from_Square sq) = some (codeOf (m.pieceAt sq.toNat)) := by
  unfold ArrayMap.index cellsArr
  rw [Index.from_Square_toNat, cells_foldl_get _ _ _ _ (by simpa using h)]
  have hmem : Square.ALL.any (fun x => x.toNat == sq.toNat) = true := by
    rw [Square.ALL_eq, List.any_eq_true]
    refine ⟨sq, ?_, by simp⟩
    rw [List.mem_map]
    exact ⟨sq.toNat, List.mem_range.2 h, by simp⟩
  rw [hmem]
  cases hp : m.pieceAt sq.toNat with
  | none => simp [codeOf, PieceIndex.NONE, h]
  | some cp => simp

/-- `From<&Board> for ArrayMap<Square, PieceIndex>`: the mailbox of the placement; no panic -/
theorem ArrayMap.from_Board_eq (m : PieceMap) : ArrayMap.from_Board (boardOf m) = .ok (cellsArr m) := by
  unfold ArrayMap.from_Board
  refine Eq.trans (for_loop_abs (fun a => a) (cellsStep m) (fun _ a => a.size = 64) _
    Square.ALL (Array.replicate 64 PieceIndex.NONE) (by simp) (by
      intro x hx a k ha
      have hx64 : x.toNat < 64 := by
        rw [Square.ALL_eq, List.mem_map] at hx
        obtain ⟨n, hn, rfl⟩ := hx
        have := List.mem_range.1 hn
        simp [Nat.toUInt8]; omega
      refine ⟨?_, by rw [cellsStep_size]; exact ha⟩
      simp only [Board.piece_at_eq m x hx64, TRes.ofPanics_some, TRes.ok_bind, cellsStep]
      cases hp : m.pieceAt x.toNat with
      | none => rfl
      | some cp =>
        simp only [Option.map_some, ArrayMap.set, Index.from_Square_toNat, ha, hx64, if_true, TRes.ofPanics_some,
          TRes.ok_bind]
        rfl)).1 rfl


/-! ### the placement field -/

theorem toNat_toUInt8_lt (n : Nat) (h : n < 256) : (n.toUInt8).toNat = n := by
  simp [Nat.toUInt8, Nat.mod_eq_of_lt h]

theorem i32_display_small (n : Nat) (h : n ≤ 8) : i32.display (Int32.ofNat n) = (toString n).toList := by
  have : n = 0 ∨ n = 1 ∨ n = 2 ∨ n = 3 ∨ n = 4 ∨ n = 5 ∨ n = 6 ∨ n = 7 ∨ n = 8 := by omega
  rcases this with rfl | rfl | rfl | rfl | rfl | rfl | rfl | rfl | rfl <;> decide

theorem i32_pos_small (n : Nat) (h : n ≤ 8) : decide (Int32.ofNat n > (0 : Int32)) = decide (n > 0) := by
  have : n = 0 ∨ n = 1 ∨ n = 2 ∨ n = 3 ∨ n = 4 ∨ n = 5 ∨ n = 6 ∨ n = 7 ∨ n = 8 := by omega
  rcases this with rfl | rfl | rfl | rfl | rfl | rfl | rfl | rfl | rfl <;> decide

theorem i32_succ_small (n : Nat) (h : n ≤ 7) :
    Int32.checked_add (Int32.ofNat n) (1 : Int32) = some (Int32.ofNat (n + 1)) := by
  have : n = 0 ∨ n = 1 ∨ n = 2 ∨ n = 3 ∨ n = 4 ∨ n = 5 ∨ n = 6 ∨ n = 7 := by omega
  rcases this with rfl | rfl | rfl | rfl | rfl | rfl | rfl | rfl <;> decide

theorem some_codeOf (m : PieceMap) (sq : Nat) : PieceIndex.some (codeOf (m.pieceAt sq)) = (m.pieceAt sq).isSome := by
  cases hp : m.pieceAt sq with
  | none => rfl
  | some cp =>
    obtain ⟨c, p⟩ := cp
    have hne : p ≠ Piece.none := by
      have := FenL.pieceAt_some hp
      exact this.1
    cases c <;> cases p <;> first | exact absurd rfl hne | rfl

theorem State.board_stateOf (s : Wee.State) : State.board (stateOf s) = boardOf s.pieces := rfl

theorem for_loop_abs' {α σ τ : Type} (abs : τ → σ) (g : τ → α → τ) (P : Nat → τ → Prop)
    (f : σ → α → TRes (Flow σ)) (l : List α) (s0 : σ) (t : τ) (hs : s0 = abs t) (h0 : P l.length t)
    (step : ∀ x ∈ l, ∀ t k, P (k + 1) t → f (abs t) x = .ok (.cont (abs (g t x))) ∧ P k (g t x)) :
    for_loop l s0 f = .ok (abs (l.foldl g t)) ∧ P 0 (l.foldl g t) := by
  subst hs; exact for_loop_abs abs g P f l t h0 step

theorem mem_ALL8 {l : List UInt8} (h : l = (List.range 8).map Nat.toUInt8) (x : UInt8) (hx : x ∈ l) : x.toNat < 8 := by
  subst h
  rw [List.mem_map] at hx
  obtain ⟨n, hn, rfl⟩ := hx
  have := List.mem_range.1 hn
  rw [toNat_toUInt8_lt _ (by omega)]; exact this

theorem for_loop_bind {α σ τ β : Type} (abs : τ → σ) (g : τ → α → τ) (P : Nat → τ → Prop)
    (f : σ → α → TRes (Flow σ)) (l : List α) (s0 : σ) (t : τ) (hs : s0 = abs t) (h0 : P l.length t)
    (step : ∀ x ∈ l, ∀ t k, P (k + 1) t → f (abs t) x = .ok (.cont (abs (g t x))) ∧ P k (g t x))
    (K : σ → TRes β) (R : TRes β) (hK : ∀ t', P 0 t' → t' = l.foldl g t → K (abs t') = R) :
    (for_loop l s0 f >>= K) = R := by
  obtain ⟨e, hP⟩ := for_loop_abs' abs g P f l s0 t hs h0 step
  rw [e]; exact hK _ hP rfl

theorem files_foldl (g : Nat → FenL.Cell) (t : List Char × Nat) :
    List.foldl (fun t (fl : File) => FenL.rankStep g t fl.toNat) t File.ALL = List.foldl (FenL.rankStep g) t (List.range 8) := rfl

def boardStep (m : PieceMap) (o : List Char) (x : Rank) : List Char :=
  o ++ writeRank m x.toNat ++ (if x != Rank.ONE then ['/'] else [])

theorem boardStep_foldl (m : PieceMap) (f : List Char) :
    List.foldl (boardStep m) f Rank.ALL.reverse = f ++ writeBoard m := by
  have : Rank.ALL.reverse = [7, 6, 5, 4, 3, 2, 1, 0] := by decide
  rw [this]
  simp [List.foldl, boardStep, writeBoard, Rank.ONE]

theorem none_crOf_mk (k q : Bool) : CastleRights.none (crOf ⟨k, q⟩) = (!k && !q) := by
  cases k <;> cases q <;> rfl
@[simp] theorem crOf_kingside (r : Wee.CastleRights) : (crOf r).f_kingside = r.kingside := rfl
@[simp] theorem crOf_queenside (r : Wee.CastleRights) : (crOf r).f_queenside = r.queenside := rfl

theorem usize_display_eq (n : Nat) (h : n < 2 ^ 64) : usize.display n.toUInt64 = (toString n).toList := by
  simp [usize.display, Nat.toUInt64, Nat.mod_eq_of_lt h]

/-- **`Fen::into_notation`** (the FEN writer, as translated from `notation.rs`) appends exactly the model's `writeFen s` to
the sink and does not panic, for every state the Rust `State` type can hold (en-passant square `< 64`, counters `< 2^64`) -/
theorem Fen.into_notation_eq (s : Wee.State) (hep : ∀ t, s.ep = some t → t < 64) (hh : s.halfmove < 2 ^ 64)
    (hf : s.fullmove < 2 ^ 64) (f : List Char) :
    Fen.into_notation (stateOf s) f = .ok (f ++ (writeFen s).toList) := by
  unfold Fen.into_notation
  simp only [State.board_stateOf, ArrayMap.from_Board_eq, TRes.ok_bind, State.castle_rights_stateOf, State.turn_to_move_stateOf,
    State.en_passant_target_stateOf, State.clock_stateOf, TRes.ofPanics_some]
  generalize hm : s.pieces = m
  refine for_loop_bind (fun a => a) (boardStep m) (fun _ _ => True) _ Rank.ALL.reverse f f rfl trivial ?_ _ _ ?_
  · intro x hx o k _
    have hx8 : x.toNat < 8 := mem_ALL8 Rank.ALL_eq x (List.mem_reverse.1 hx)
    refine ⟨?_, trivial⟩
    refine for_loop_bind (fun t : List Char × Nat => (t.1, Int32.ofNat t.2))
      (fun t fl => FenL.rankStep (fun c => m.pieceAt (mkSq x.toNat c)) t fl.toNat) (fun k t => t.2 + k ≤ 8) _ File.ALL
      (o, (0 : Int32)) (o, 0) rfl (by simp [File.ALL]) ?_ _ _ ?_
    · intro fl hfl t k ht
      obtain ⟨o', n⟩ := t
      have hfl8 : fl.toNat < 8 := mem_ALL8 File.ALL_eq fl hfl
      have hsq : (mkSq x.toNat fl.toNat).toUInt8.toNat = mkSq x.toNat fl.toNat :=
        toNat_toUInt8_lt _ (by unfold mkSq; omega)
      have hsq64 : (mkSq x.toNat fl.toNat).toUInt8.toNat < 64 := by rw [hsq]; unfold mkSq; omega
      simp only at ht
      simp only [from_File_Rank_lt8 fl x hfl8 hx8, TRes.ofPanics_some, TRes.ok_bind, cellsArr_index _ _ hsq64, hsq,
        some_codeOf]
      cases hp : m.pieceAt (mkSq x.toNat fl.toNat) with
      | none =>
        simp [FenL.rankStep, hp, i32_succ_small n (by omega), TRes.pure_eq]
        omega
      | some cp =>
        obtain ⟨c, p⟩ := cp
        simp only [FenL.rankStep, hp, codeOf, Option.isSome_some, if_true, i32_pos_small n (by omega)]
        by_cases hn : n > 0
        · simp [hn, TRes.pure_eq, PieceIndex.fmt_new, i32_display_small n (by omega)]
          omega
        · have : n = 0 := by omega
          subst this
          simp [TRes.pure_eq, PieceIndex.fmt_new]
          omega
    · intro t' hP ht'
      obtain ⟨o', n'⟩ := t'
      simp only [Nat.add_zero] at hP
      rw [files_foldl] at ht'
      have hfin := FenL.rankFin_foldl (fun c => m.pieceAt (mkSq x.toNat c)) (List.range 8) o 0
      rw [← ht', ← FenL.writeRank_eq] at hfin
      simp only [i32_pos_small n' hP, i32_display_small n' hP, TRes.pure_eq, TRes.ok_bind, boardStep, ← hfin, FenL.rankFin]
      by_cases hn : n' > 0 <;> by_cases hx1 : (x != Rank.ONE) = true <;> simp [hn, hx1]
  · intro t' _ ht'
    rw [boardStep_foldl] at ht'
    subst ht'
    rw [FenL.toList_writeFen, hm]
    rcases s with ⟨pieces, turn, ⟨wk, wq⟩, ⟨bk, bq⟩, ep, hmv, fmv⟩
    simp only at hep hh hf
    have hd1 := usize_display_eq _ hh
    have hd2 := usize_display_eq _ hf
    cases ep with
    | none =>
      cases turn <;> cases wk <;> cases wq <;> cases bk <;> cases bq <;>
        simp [iter.all, Color.ALL, none_crOf_mk, Wee.State.castle, TRes.pure_eq, hd1, hd2, FenL.turnChars,
          FenL.castleChars, FenL.epChars]
    | some t =>
      have ht := hep t rfl
      have hsq : (t.toUInt8).toNat = t := toNat_toUInt8_lt t (by omega)
      have hfmt := fun g => Square.fmt_eq t.toUInt8 (by omega) g
      cases turn <;> cases wk <;> cases wq <;> cases bk <;> cases bq <;>
        simp [iter.all, Color.ALL, none_crOf_mk, Wee.State.castle, TRes.pure_eq, hd1, hd2, FenL.turnChars,
          FenL.castleChars, FenL.epChars, hfmt, hsq, sqName]

/-! ## Target 2: the field parsers of the FEN reader -/

/-- `PieceIndex::try_parse` is the model's `pieceOfFenChar` -/
theorem PieceIndex.try_parse_eq (c : Char) :
    PieceIndex.try_parse c = TRes.okOr ((pieceOfFenChar c).map fun cp => PieceIndex.new cp.1 cp.2) := by
  unfold PieceIndex.try_parse pieceOfFenChar
  simp only [token.WHITE_PAWN, token.WHITE_KNIGHT, token.WHITE_BISHOP, token.WHITE_ROOK, token.WHITE_QUEEN, token.WHITE_KING,
    token.BLACK_PAWN, token.BLACK_KNIGHT, token.BLACK_BISHOP, token.BLACK_ROOK, token.BLACK_QUEEN, token.BLACK_KING, beq_iff_eq]
  by_cases h0 : c = 'P'
  · subst h0; rfl
  by_cases h1 : c = 'N'
  · subst h1; rfl
  by_cases h2 : c = 'B'
  · subst h2; rfl
  by_cases h3 : c = 'R'
  · subst h3; rfl
  by_cases h4 : c = 'Q'
  · subst h4; rfl
  by_cases h5 : c = 'K'
  · subst h5; rfl
  by_cases h6 : c = 'p'
  · subst h6; rfl
  by_cases h7 : c = 'n'
  · subst h7; rfl
  by_cases h8 : c = 'b'
  · subst h8; rfl
  by_cases h9 : c = 'r'
  · subst h9; rfl
  by_cases h10 : c = 'q'
  · subst h10; rfl
  by_cases h11 : c = 'k'
  · subst h11; rfl
  simp only [h0, h1, h2, h3, h4, h5, h6, h7, h8, h9, h10, h11, if_false]
  rfl

/-- the mailbox array of a list of model cells -/
def arrCells (cells : List FenL.Cell) : Array PieceIndex := (cells.map codeOf).toArray

/-- one pass of the `for c in s.chars()` loop of `Board::try_parse`, in a normal form of our own -/
def parseStep (st : UInt8 × Array PieceIndex) (c : Char) : TRes (Flow (UInt8 × Array PieceIndex)) :=
  if '1' ≤ c ∧ c ≤ '8' then
    match UInt8.checked_add st.1 (c.toNat - 48).toUInt8 with
    | some v => .ok (.cont (v, st.2))
    | Option.none => .err
  else if c = ' ' then .ok (.brk st)
  else if c = '/' then .ok (.cont st)
  else match pieceOfFenChar c with
    | Option.none => .err
    | some cp =>
      if st.1.toNat > 63 then .err
      else if FenL.flipSq st.1.toNat < st.2.size then
        .ok (.cont (st.1 + 1, st.2.setIfInBounds (FenL.flipSq st.1.toNat) (PieceIndex.new cp.1 cp.2)))
      else .panic

theorem arrCells_set (cells : List FenL.Cell) (i : Nat) (cp : Color × Piece) :
    (arrCells cells).setIfInBounds i (PieceIndex.new cp.1 cp.2) = arrCells (cells.set i (some cp)) := by
  simp [arrCells, List.map_set, codeOf]

/-- the loop over the normal form is the model's `parseBoardCells` (the final cursor is dropped) -/
theorem parse_loop {β : Type} (checked : Bool) (K : Array PieceIndex → TRes β) (s : List Char) :
    ∀ (li : UInt8) (cells : List FenL.Cell), cells.length = 64 →
      (for_loop s (li, arrCells cells) parseStep >>= fun st => K st.2) =
        match parseBoardCells checked s li.toNat cells with
        | .ok cells' => K (arrCells cells')
        | .err => .err
        | .panic => .panic := by
  induction s with
  | nil => intro li cells _; rfl
  | cons c rest ih =>
    intro li cells hlen
    have hsz : (arrCells cells).size = 64 := by simp [arrCells, hlen]
    rw [for_loop, parseBoardCells]
    by_cases hd : '1' ≤ c ∧ c ≤ '8'
    · rw [if_pos hd]
      simp only [parseStep, if_pos hd]
      have h0 : ('0' : Char).toNat = 48 := rfl
      rw [h0]
      have hc : c.toNat - 48 < 10 := by
        have h2 : c.toNat ≤ 56 := hd.2
        omega
      by_cases hov : li.toNat + (c.toNat - 48) ≥ 256
      · rw [if_pos hov]
        have : UInt8.checked_add li (c.toNat - 48).toUInt8 = Option.none := by
          simp only [UInt8.checked_add]
          rw [toNat_toUInt8_lt _ (by omega), if_neg]
          exact Nat.not_lt.2 hov
        rw [this]; rfl
      · rw [if_neg hov]
        have hlt : li.toNat + (c.toNat - 48) < 256 := Nat.lt_of_not_ge hov
        have : UInt8.checked_add li (c.toNat - 48).toUInt8 = some (li + (c.toNat - 48).toUInt8) := by
          simp only [UInt8.checked_add]
          rw [toNat_toUInt8_lt _ (by omega), if_pos hlt]
        rw [this]
        simp only []
        have hn : (li + (c.toNat - 48).toUInt8).toNat = li.toNat + (c.toNat - 48) := by
          rw [UInt8.toNat_add, toNat_toUInt8_lt _ (by omega)]
          exact Nat.mod_eq_of_lt hlt
        rw [← hn]
        exact ih _ _ hlen
    · rw [if_neg hd]
      simp only [parseStep, if_neg hd]
      by_cases hsp : c = ' '
      · rw [if_pos hsp, if_pos hsp]; rfl
      · rw [if_neg hsp, if_neg hsp]
        by_cases hsl : c = '/'
        · rw [if_pos hsl, if_pos hsl]; exact ih _ _ hlen
        · rw [if_neg hsl, if_neg hsl]
          cases hp : pieceOfFenChar c with
          | none => rfl
          | some cp =>
            simp only []
            by_cases h63 : li.toNat > 63
            · rw [if_pos h63, if_pos h63]; rfl
            · rw [if_neg h63, if_neg h63]
              rw [if_pos (by rw [hsz]; exact FenL.flipSq_lt _)]
              simp only []
              have hn : (li + 1).toNat = li.toNat + 1 := by
                rw [UInt8.toNat_add]; exact Nat.mod_eq_of_lt (by simp; omega)
              rw [arrCells_set, ← hn]
              exact ih _ _ (by simp [hlen])


theorem to_digit10_of_range (c : Char) (h : '1' ≤ c ∧ c ≤ '8') :
    (char.to_digit10 c).map UInt32.toUInt8 = some (c.toNat - 48).toUInt8 := by
  have h1 : 49 ≤ c.toNat := h.1
  have h2 : c.toNat ≤ 56 := h.2
  have hd : c.isDigit = true := by
    simp only [Char.isDigit, Bool.and_eq_true, decide_eq_true_eq]
    exact ⟨by show (48 : Nat) ≤ c.toNat; omega, by show c.toNat ≤ 57; omega⟩
  simp only [char.to_digit10, hd, if_true, Option.map_some]
  congr 1
  apply UInt8.toNat_inj.1
  simp [Nat.toUInt32, Nat.toUInt8]

/-- **`Board::try_parse`** (the placement parser behind the regex): the `u8` cursor loop translated from `notation.rs` is the
model's `parseBoardCells` (both build profiles: the cursor cannot overflow unchecked), followed by the translated
`Board::from(&map)` -/
theorem Board.try_parse_eq (checked : Bool) (s : List Char) :
    Board.try_parse s =
      match parseBoardCells checked s 0 (List.replicate 64 Option.none) with
      | .ok cells => Board.from_ArrayMap (arrCells cells)
      | .err => .err
      | .panic => .panic := by
  unfold Board.try_parse
  simp only [Board.empty_map, TRes.pure_eq, TRes.ok_bind]
  have hbody : ∀ (f : (UInt8 × Array PieceIndex) → Char → TRes (Flow (UInt8 × Array PieceIndex))),
      (∀ st c, f st c = parseStep st c) →
      (for_loop s ((0 : UInt8), Array.replicate 64 PieceIndex.NONE) f >>= fun st => Board.from_ArrayMap st.2) =
        match parseBoardCells checked s 0 (List.replicate 64 Option.none) with
        | .ok cells => Board.from_ArrayMap (arrCells cells)
        | .err => .err
        | .panic => .panic := by
    intro f hf
    have : f = parseStep := funext fun st => funext fun c => hf st c
    subst this
    have h0 : Array.replicate 64 PieceIndex.NONE = arrCells (List.replicate 64 Option.none) := by
      rfl
    rw [h0]
    exact parse_loop checked Board.from_ArrayMap s 0 _ (by simp)
  refine hbody _ ?_
  intro st c
  obtain ⟨li, map⟩ := st
  simp only [parseStep]
  by_cases hd : '1' ≤ c ∧ c ≤ '8'
  · have hdd : (decide ('1' ≤ c) && decide (c ≤ '8')) = true := by simp [hd]
    rw [if_pos hdd, if_pos hd]
    have hdig := to_digit10_of_range c hd
    cases htd : char.to_digit10 c with
    | none => rw [htd] at hdig; cases hdig
    | some d =>
      rw [htd] at hdig
      simp only [Option.map_some, Option.some.injEq] at hdig
      simp only [TRes.okOr_some, TRes.ok_bind, hdig]
      cases UInt8.checked_add li (c.toNat - 48).toUInt8 <;> rfl
  · have hdd : ¬ ((decide ('1' ≤ c) && decide (c ≤ '8')) = true) := by simpa using hd
    rw [if_neg hdd, if_neg hd]
    by_cases hsp : c = ' '
    · subst hsp; rfl
    · rw [if_neg (by simpa using hsp), if_neg hsp]
      by_cases hsl : c = '/'
      · subst hsl; rfl
      · rw [if_neg (by simpa using hsl), if_neg hsl, PieceIndex.try_parse_eq]
        cases hp : pieceOfFenChar c with
        | none => rfl
        | some cp =>
          simp only [Option.map_some, TRes.okOr_some, TRes.ok_bind, Square.try_from_u8_eq]
          by_cases h63 : li.toNat > 63
          · rw [if_neg (by omega), if_pos h63]; rfl
          · have hlt : li.toNat < 64 := by omega
            rw [if_pos hlt, if_neg h63]
            have hr : (Square.rank li).toNat < 8 := by rw [Square.rank_toNat]; unfold rankOf; omega
            have hf : (Square.file li).toNat < 8 := by rw [Square.file_toNat]; unfold fileOf; omega
            have h7 : (7 - Square.rank li).toNat = 7 - (Square.rank li).toNat := by
              rw [UInt8.toNat_sub_of_le _ _ (by rw [UInt8.le_iff_toNat_le]; simp; omega)]; rfl
            have hsq : (mkSq (7 - Square.rank li).toNat (Square.file li).toNat).toUInt8.toNat = FenL.flipSq li.toNat := by
              rw [toNat_toUInt8_lt _ (by rw [h7]; unfold mkSq; omega), h7, Square.rank_toNat, Square.file_toNat]; rfl
            have hadd : UInt8.checked_add li 1 = some (li + 1) := by
              simp only [UInt8.checked_add]; rw [if_pos]; simp; omega
            simp only [TRes.okOr_some, TRes.ok_bind, Square.rank_file, TRes.pure_eq, Rank.opposing_rank_eq _ hr,
              TRes.ofPanics_some, from_File_Rank_lt8 _ _ hf (by rw [h7]; omega), ArrayMap.set, Index.from_Square_toNat, hsq, hadd]
            by_cases hsz : FenL.flipSq li.toNat < map.size
            · simp only [if_pos hsz, TRes.ofPanics_some, TRes.ok_bind]
            · simp only [if_neg hsz, TRes.ofPanics_none, TRes.panic_bind]


/-! ## Target 3 (started): `MoveQuery` constructors and setters -/

/-- the one-line setters and constructors of `MoveQuery` -/
theorem MoveQuery.new_eq : MoveQuery.new = .ok ⟨none, none, none, none, none, none, none, none⟩ := rfl
theorem MoveQuery.set_piece_eq (q : MoveQuery) (p : Piece) : MoveQuery.set_piece q p = .ok { q with f_piece := some p } := rfl
theorem MoveQuery.set_promotion_eq (q : MoveQuery) (p : Piece) :
    MoveQuery.set_promotion q p = .ok { q with f_promotion := some p } := rfl
theorem MoveQuery.set_castle_eq (q : MoveQuery) (sd : Side) : MoveQuery.set_castle q sd = .ok { q with f_castle := some sd } := rfl
theorem MoveQuery.set_is_capture_eq (q : MoveQuery) (b : Bool) :
    MoveQuery.set_is_capture q b = .ok { q with f_is_capture := some b } := rfl
theorem MoveQuery.set_origin_rank_eq (q : MoveQuery) (r : Rank) :
    MoveQuery.set_origin_rank q r = .ok { q with f_origin_rank := some r } := rfl
theorem MoveQuery.set_origin_file_eq (q : MoveQuery) (r : File) :
    MoveQuery.set_origin_file q r = .ok { q with f_origin_file := some r } := rfl
theorem MoveQuery.set_destination_rank_eq (q : MoveQuery) (r : Rank) :
    MoveQuery.set_destination_rank q r = .ok { q with f_dest_rank := some r } := rfl
theorem MoveQuery.set_destination_file_eq (q : MoveQuery) (r : File) :
    MoveQuery.set_destination_file q r = .ok { q with f_dest_file := some r } := rfl
theorem MoveQuery.by_castling_eq (sd : Side) :
    MoveQuery.by_castling sd = .ok ⟨none, none, none, none, none, none, some sd, none⟩ := rfl

end Wee.GenFns
