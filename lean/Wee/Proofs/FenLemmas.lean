import Wee.Model.Fen
import Wee.Spec.Fen
import Wee.Spec.Abs
/-!
# Helper lemmas for C11 (FEN round trip)

Layers:
* bits (`test` of `setBit`, extensionality) — a private copy, independent of `BitLemmas`;
* `PieceMap`: `get`/`set`, the mailbox → bitboard fold (`buildMap`), `pieceAt` under disjointness;
* decimal numbers: `parseUsize (toString n).toList = some n`;
* one rank / whole board of the writer against `parseBoardCells`;
* `splitFields`, the regex gate and the scalar fields; composition `parse_write`;
* mailbox placements (`buildMap`, `concPieces`) are disjoint; `Spec.rankText`/`Spec.writeFen` against
  the engine's writer (`spec_writer_agrees`); the en-passant bound implied by `Spec.readFen`.

Named layers: (a) `parseUsize_toString`; (b) `parse_enc`, `parse_rank`; (c) `parse_writeBoard`,
`boardFieldOk_writeBoard`; (d) `buildMap_pieceAt`; (e) `splitFields_six`, `toList_writeFen`,
`turn_props`, `castle_props`, `ep_props`, `counter_props`, `parseFenChars_ok`.
-/
namespace Wee.FenL

/-! ## Bits -/

theorem test_or (a b : UInt64) (n : Nat) : test (a ||| b) n = (test a n || test b n) := by
  simp [test, UInt64.toNat_or, Nat.testBit_or]

theorem test_and (a b : UInt64) (n : Nat) : test (a &&& b) n = (test a n && test b n) := by
  simp [test, UInt64.toNat_and, Nat.testBit_and]

theorem test_zero (n : Nat) : test 0 n = false := by simp [test]

theorem test_bit (m n : Nat) (hm : m < 64) : test (bit m) n = decide (m = n) := by
  unfold test bit
  rw [UInt64.toNat_shiftLeft]
  have h1 : (m.toUInt64).toNat = m := by
    simp [Nat.toUInt64, UInt64.toNat_ofNat', Nat.mod_eq_of_lt (show m < 2^64 by omega)]
  simp only [h1, Nat.mod_eq_of_lt hm]
  have h2 : (1 : UInt64).toNat <<< m % 2^64 = 2^m := by
    simp [Nat.shiftLeft_eq]
    have := Nat.pow_lt_pow_right (by decide : 1 < 2) hm; simpa using this
  rw [h2, Nat.testBit_two_pow]

theorem test_ge (a : UInt64) (n : Nat) (h : 64 ≤ n) : test a n = false := by
  unfold test
  apply Nat.testBit_lt_two_pow
  exact Nat.lt_of_lt_of_le a.toNat_lt (Nat.pow_le_pow_right (by omega) h)

theorem bb_ext (a b : UInt64) (h : ∀ n, n < 64 → test a n = test b n) : a = b := by
  apply UInt64.toNat_inj.1
  apply Nat.eq_of_testBit_eq
  intro i
  by_cases hi : i < 64
  · exact h i hi
  · have := test_ge a i (by omega); have := test_ge b i (by omega)
    simp_all [test]

theorem test_setBit (b : UInt64) (m n : Nat) (hm : m < 64) :
    test (setBit b m) n = (test b n || decide (m = n)) := by
  simp [setBit, test_or, test_bit m n hm]

theorem disjoint_test {a b : UInt64} (h : a &&& b = 0) (n : Nat) :
    test a n = true → test b n = true → False := by
  intro ha hb
  have := test_and a b n
  rw [h, test_zero, ha, hb] at this
  simp at this

theorem getD_of_lt {α} (l : List α) (d : α) {i : Nat} (h : i < l.length) : l.getD i d = l[i] := by
  simp [List.getD_eq_getElem?_getD, h]

/-! ## `PieceMap` -/

/-- the twelve bitboards in `PieceIndex` order -/
def boards (m : PieceMap) : List UInt64 :=
  [m.wp, m.wn, m.wb, m.wr, m.wq, m.wk, m.bp, m.bn, m.bb, m.br, m.bq, m.bk]

/-- the twelve bitboards are pairwise disjoint -/
def Disjoint (m : PieceMap) : Prop := (boards m).Pairwise (fun a b => a &&& b = 0)

instance (m : PieceMap) : Decidable (Disjoint m) := by unfold Disjoint; infer_instance

/-- position of `(c, p)` in `boards` -/
def pidx (c : Color) (p : Piece) : Nat := c.idx * 6 + (p.code - 1)

theorem boards_length (m : PieceMap) : (boards m).length = 12 := rfl

theorem get_eq_boards (m : PieceMap) (c : Color) (p : Piece) (hp : p ≠ .none) :
    m.get c p = (boards m).getD (pidx c p) 0 := by
  cases c <;> cases p <;> first | rfl | exact absurd rfl hp

theorem pidx_lt (c : Color) (p : Piece) : pidx c p < 12 := by
  cases c <;> cases p <;> decide

theorem pidx_inj {c c' : Color} {p p' : Piece} (hp : p ≠ .none) (hp' : p' ≠ .none)
    (h : pidx c p = pidx c' p') : c = c' ∧ p = p' := by
  cases c <;> cases c' <;> cases p <;> cases p' <;> first | exact ⟨rfl, rfl⟩ | exact absurd rfl hp | exact absurd rfl hp' | (exfalso; revert h; decide)

/-- under disjointness, at most one of the twelve bitboards has a given bit -/
theorem disjoint_unique {m : PieceMap} (hd : Disjoint m) {c c' : Color} {p p' : Piece}
    (hp : p ≠ .none) (hp' : p' ≠ .none) (sq : Nat)
    (h : test (m.get c p) sq = true) (h' : test (m.get c' p') sq = true) : c = c' ∧ p = p' := by
  apply pidx_inj hp hp'
  rw [get_eq_boards m c p hp] at h
  rw [get_eq_boards m c' p' hp'] at h'
  have hl := pidx_lt c p; have hl' := pidx_lt c' p'
  have hpw := List.pairwise_iff_getElem.1 hd
  rcases Nat.lt_trichotomy (pidx c p) (pidx c' p') with hlt | heq | hgt
  · exfalso
    have := hpw (pidx c p) (pidx c' p') (by rw [boards_length]; exact hl) (by rw [boards_length]; exact hl') hlt
    rw [getD_of_lt _ _ (by rw [boards_length]; exact hl)] at h
    rw [getD_of_lt _ _ (by rw [boards_length]; exact hl')] at h'
    exact disjoint_test this sq h h'
  · exact heq
  · exfalso
    have := hpw (pidx c' p') (pidx c p) (by rw [boards_length]; exact hl') (by rw [boards_length]; exact hl) hgt
    rw [getD_of_lt _ _ (by rw [boards_length]; exact hl)] at h
    rw [getD_of_lt _ _ (by rw [boards_length]; exact hl')] at h'
    exact disjoint_test this sq h' h


/-! ### `get` / `set` / `assign` -/

theorem get_set (m : PieceMap) (c c' : Color) (p p' : Piece) (v : UInt64) (hp : p ≠ .none) :
    (m.set c' p' v).get c p = if c = c' ∧ p = p' then v else m.get c p := by
  cases c <;> cases c' <;> cases p <;> cases p' <;> first | rfl | exact absurd rfl hp

theorem test_get_assign (m : PieceMap) (c c' : Color) (p p' : Piece) (sq i : Nat) (hsq : sq < 64)
    (hp : p ≠ .none) :
    test ((m.assign c' p' sq true).get c p) i =
      (test (m.get c p) i || decide (c = c' ∧ p = p' ∧ sq = i)) := by
  unfold PieceMap.assign
  rw [get_set m c c' p p' _ hp]
  by_cases h : c = c' ∧ p = p'
  · rw [if_pos h]
    obtain ⟨rfl, rfl⟩ := h
    simp [assignBit, test_setBit _ _ _ hsq]
  · rw [if_neg h]
    have : decide (c = c' ∧ p = p' ∧ sq = i) = false := by
      apply decide_eq_false; intro h'; exact h ⟨h'.1, h'.2.1⟩
    simp [this]

/-- `Board::from(&ArrayMap<Square, PieceIndex>)` for a mailbox given as a function -/
def buildMap (f : Nat → Option (Color × Piece)) : PieceMap :=
  (List.range 64).foldl (fun (m : PieceMap) sq =>
    match f sq with
    | some (c, p) => m.assign c p sq true
    | Option.none => m) {}

theorem test_foldl_assign (f : Nat → Option (Color × Piece)) (l : List Nat) (hl : ∀ x ∈ l, x < 64)
    (m0 : PieceMap) (c : Color) (p : Piece) (hp : p ≠ .none) (i : Nat) :
    test ((l.foldl (fun (m : PieceMap) sq =>
      match f sq with
      | some (c, p) => m.assign c p sq true
      | Option.none => m) m0).get c p) i =
    (test (m0.get c p) i || decide (i ∈ l ∧ f i = some (c, p))) := by
  induction l generalizing m0 with
  | nil => simp
  | cons x t ih =>
    rw [List.foldl_cons, ih (fun y hy => hl y (List.mem_cons_of_mem _ hy))]
    have hx : x < 64 := hl x List.mem_cons_self
    cases hfx : f x with
    | none =>
      simp only []
      by_cases hix : i = x
      · subst hix; simp [hfx]
      · simp [hix]
    | some cp =>
      obtain ⟨c', p'⟩ := cp
      simp only []
      rw [test_get_assign m0 c c' p p' x i hx hp, Bool.or_assoc]
      congr 1
      by_cases hix : i = x
      · subst hix
        by_cases hcp : c = c' ∧ p = p'
        · obtain ⟨rfl, rfl⟩ := hcp; simp [hfx]
        · have : ¬ (c' = c ∧ p' = p) := fun h => hcp ⟨h.1.symm, h.2.symm⟩
          by_cases hit : i ∈ t <;> simp [hfx, hcp, this, hit]
          all_goals (intro h1 h2; exact absurd ⟨h1, h2⟩ hcp)
      · have : ¬ x = i := fun h => hix h.symm
        simp [hix, this]

theorem test_buildMap (f : Nat → Option (Color × Piece)) (c : Color) (p : Piece) (hp : p ≠ .none)
    (i : Nat) : test ((buildMap f).get c p) i = decide (i < 64 ∧ f i = some (c, p)) := by
  unfold buildMap
  rw [test_foldl_assign f (List.range 64) (fun x hx => List.mem_range.1 hx) {} c p hp i]
  have : test (({} : PieceMap).get c p) i = false := by
    cases c <;> cases p <;> exact test_zero i
  rw [this, Bool.false_or]
  simp [List.mem_range]

theorem piecesOfCells_eq (cells : List (Option (Color × Piece))) :
    piecesOfCells cells = buildMap (fun sq => cells.getD sq Option.none) := rfl

/-! ### `pieceAt` -/

def allPairs : List (Color × Piece) := Color.all.flatMap fun c => Piece.all.map fun p => (c, p)

theorem mem_allPairs (c : Color) (p : Piece) : (c, p) ∈ allPairs ↔ p ≠ .none := by
  cases c <;> cases p <;> decide

theorem pieceAt_eq (m : PieceMap) (sq : Nat) :
    m.pieceAt sq = allPairs.find? (fun (cp : Color × Piece) => test (m.get cp.1 cp.2) sq) := rfl

theorem pieceAt_some {m : PieceMap} {sq : Nat} {c : Color} {p : Piece}
    (h : m.pieceAt sq = some (c, p)) : p ≠ .none ∧ test (m.get c p) sq = true := by
  rw [pieceAt_eq] at h
  exact ⟨(mem_allPairs c p).1 (List.mem_of_find?_eq_some h), by simpa using List.find?_some h⟩

theorem find?_unique {α} (q : α → Bool) (l : List α) (x : α) (hx : x ∈ l) (hq : q x = true)
    (hu : ∀ y ∈ l, q y = true → y = x) : l.find? q = some x := by
  induction l with
  | nil => cases hx
  | cons a t ih =>
    by_cases ha : q a = true
    · rw [List.find?_cons_of_pos ha, hu a List.mem_cons_self ha]
    · rw [List.find?_cons_of_neg ha]
      rcases List.mem_cons.1 hx with rfl | hxt
      · exact absurd hq ha
      · exact ih hxt (fun y hy => hu y (List.mem_cons_of_mem _ hy))

theorem pieceAt_of_test {m : PieceMap} (hd : Disjoint m) {sq : Nat} {c : Color} {p : Piece}
    (hp : p ≠ .none) (h : test (m.get c p) sq = true) : m.pieceAt sq = some (c, p) := by
  rw [pieceAt_eq]
  apply find?_unique _ _ _ ((mem_allPairs c p).2 hp) h
  rintro ⟨c', p'⟩ hy hq
  have hp' := (mem_allPairs c' p').1 hy
  obtain ⟨rfl, rfl⟩ := disjoint_unique hd hp' hp sq hq h
  rfl

theorem pieceAt_eq_some_iff {m : PieceMap} (hd : Disjoint m) (sq : Nat) (c : Color) (p : Piece)
    (hp : p ≠ .none) : m.pieceAt sq = some (c, p) ↔ test (m.get c p) sq = true :=
  ⟨fun h => (pieceAt_some h).2, pieceAt_of_test hd hp⟩

/-- layer (d): rebuilding the bitboards from the mailbox of `pieceAt` gives the original placement -/
theorem buildMap_pieceAt {m : PieceMap} (hd : Disjoint m)
    (f : Nat → Option (Color × Piece)) (hf : ∀ sq < 64, f sq = m.pieceAt sq) : buildMap f = m := by
  have key : ∀ c p, p ≠ .none → (buildMap f).get c p = m.get c p := by
    intro c p hp
    apply bb_ext
    intro i hi
    rw [test_buildMap f c p hp i, hf i hi]
    cases ht : test (m.get c p) i with
    | true => simp [hi, (pieceAt_eq_some_iff hd i c p hp).2 ht]
    | false =>
      apply decide_eq_false
      rintro ⟨_, h⟩
      rw [(pieceAt_eq_some_iff hd i c p hp).1 h] at ht
      cases ht
  have e : ∀ a b : PieceMap, (∀ c p, p ≠ .none → a.get c p = b.get c p) → a = b := by
    intro a b h
    cases a; cases b
    have h1 := h .white .pawn (by decide); have h2 := h .white .knight (by decide)
    have h3 := h .white .bishop (by decide); have h4 := h .white .rook (by decide)
    have h5 := h .white .queen (by decide); have h6 := h .white .king (by decide)
    have h7 := h .black .pawn (by decide); have h8 := h .black .knight (by decide)
    have h9 := h .black .bishop (by decide); have h10 := h .black .rook (by decide)
    have h11 := h .black .queen (by decide); have h12 := h .black .king (by decide)
    simp only [PieceMap.get] at h1 h2 h3 h4 h5 h6 h7 h8 h9 h10 h11 h12
    subst h1 h2 h3 h4 h5 h6 h7 h8 h9 h10 h11 h12
    rfl
  exact e _ _ key

/-! ## Decimal numbers -/

theorem le_ofDigitChars (l : List Char) (v : Nat) : v ≤ Nat.ofDigitChars 10 l v := by
  rw [Nat.ofDigitChars_eq_ofDigitChars_zero]
  have : 1 ≤ 10 ^ l.length := Nat.one_le_pow _ _ (by decide)
  calc v = 1 * v := by omega
    _ ≤ 10 ^ l.length * v := Nat.mul_le_mul_right _ this
    _ ≤ _ := Nat.le_add_right _ _

def usizeStep (acc : Option Nat) (c : Char) : Option Nat :=
  match acc with
  | Option.none => Option.none
  | some v => if c.isDigit then
      let v' := v * 10 + (c.toNat - '0'.toNat)
      if v' < 2^64 then some v' else Option.none
    else Option.none

theorem parseUsize_eq (cs : List Char) :
    parseUsize cs = if cs.isEmpty then Option.none else cs.foldl usizeStep (some 0) := rfl

theorem foldl_usizeStep (l : List Char) (v : Nat) (hd : ∀ c ∈ l, c.isDigit = true)
    (hb : Nat.ofDigitChars 10 l v < 2^64) :
    l.foldl usizeStep (some v) = some (Nat.ofDigitChars 10 l v) := by
  induction l generalizing v with
  | nil => simp
  | cons c t ih =>
    rw [Nat.ofDigitChars_cons] at hb ⊢
    have hc := hd c List.mem_cons_self
    have hv : v * 10 + (c.toNat - '0'.toNat) < 2^64 := by
      have := le_ofDigitChars t (10 * v + (c.toNat - '0'.toNat)); omega
    rw [List.foldl_cons]
    have : usizeStep (some v) c = some (10 * v + (c.toNat - '0'.toNat)) := by
      simp only [usizeStep, hc, if_true, hv]
      congr 1; omega
    rw [this]
    exact ih _ (fun x hx => hd x (List.mem_cons_of_mem _ hx)) hb

/-- layer (a): the decimal text of a `usize` parses back to it -/
theorem parseUsize_toString (n : Nat) (hn : n < 2^64) : parseUsize (toString n).toList = some n := by
  rw [Nat.toString_eq_repr, Nat.toList_repr, parseUsize_eq]
  have hne : (Nat.toDigits 10 n).isEmpty = false := by
    cases h : Nat.toDigits 10 n with
    | nil => exact absurd h Nat.toDigits_ne_nil
    | cons _ _ => rfl
  rw [hne]
  simp only [Bool.false_eq_true, if_false]
  rw [foldl_usizeStep _ 0 (fun c hc => Nat.isDigit_of_mem_toDigits (by decide) (by decide) hc)
    (by rw [Nat.ofDigitChars_ten_toDigits]; exact hn), Nat.ofDigitChars_ten_toDigits]

theorem toString_nat_ne_nil (n : Nat) : (toString n).toList ≠ [] := by
  rw [Nat.toString_eq_repr, Nat.toList_repr]; exact Nat.toDigits_ne_nil

theorem isDigit_of_mem_toString (n : Nat) (c : Char) (h : c ∈ (toString n).toList) : c.isDigit = true := by
  rw [Nat.toString_eq_repr, Nat.toList_repr] at h
  exact Nat.isDigit_of_mem_toDigits (by decide) (by decide) h

theorem not_space_of_isDigit (c : Char) (h : c.isDigit = true) : isRegexSpace c = false := by
  simp only [Char.isDigit, Bool.and_eq_true, decide_eq_true_eq] at h
  have h1 : 48 ≤ c.toNat := by
    have := h.1; rw [ge_iff_le, UInt32.le_iff_toNat_le, show ('0' : Char).val.toNat = 48 by decide] at this
    exact this
  have h2 : c.toNat ≤ 57 := by
    have := h.2; rw [UInt32.le_iff_toNat_le, show ('9' : Char).val.toNat = 57 by decide] at this
    exact this
  simp only [isRegexSpace]
  simp
  omega


/-! ## One rank of the writer -/

abbrev Cell := Option (Color × Piece)

/-- digits of a pending run of empty squares -/
def runText (run : Nat) : List Char := if run > 0 then (toString run).toList else []

/-- right-recursive form of the rank writer: `run` empty squares are pending -/
def enc : List Cell → Nat → List Char
  | [], run => runText run
  | some (c, p) :: t, run => runText run ++ pieceChar c p :: enc t 0
  | Option.none :: t, run => enc t (run + 1)

def rankStep (g : Nat → Cell) (acc : List Char × Nat) (file : Nat) : List Char × Nat :=
  match g file with
  | some (c, p) =>
    let out := if acc.2 > 0 then acc.1 ++ (toString acc.2).toList else acc.1
    (out ++ [pieceChar c p], 0)
  | Option.none => (acc.1, acc.2 + 1)

def rankFin (acc : List Char × Nat) : List Char :=
  if acc.2 > 0 then acc.1 ++ (toString acc.2).toList else acc.1

theorem rankFin_foldl (g : Nat → Cell) (l : List Nat) (out : List Char) (run : Nat) :
    rankFin (l.foldl (rankStep g) (out, run)) = out ++ enc (l.map g) run := by
  induction l generalizing out run with
  | nil =>
    simp only [List.foldl_nil, List.map_nil, enc, rankFin, runText]
    split <;> simp <;> omega
  | cons x t ih =>
    rw [List.foldl_cons, List.map_cons]
    cases hg : g x with
    | none =>
      have : rankStep g (out, run) x = (out, run + 1) := by simp [rankStep, hg]
      rw [this, ih]; rfl
    | some cp =>
      obtain ⟨c, p⟩ := cp
      have : rankStep g (out, run) x = (out ++ runText run ++ [pieceChar c p], 0) := by
        simp only [rankStep, hg, runText]
        split <;> simp
      rw [this, ih]
      simp [enc]

theorem writeRank_eq (m : PieceMap) (rank : Nat) :
    writeRank m rank = enc ((List.range 8).map fun f => m.pieceAt (mkSq rank f)) 0 := by
  have := rankFin_foldl (fun f => m.pieceAt (mkSq rank f)) (List.range 8) [] 0
  rw [List.nil_append] at this
  rw [← this]
  rfl


/-! ## The board parser against the rank writer -/

/-- square of FEN cursor position `i` (`Square::from((file, rank.opposing_rank()))`) -/
def flipSq (i : Nat) : Nat := mkSq (7 - rankOf i) (fileOf i)

theorem flipSq_lt (i : Nat) : flipSq i < 64 := by
  unfold flipSq mkSq rankOf fileOf; omega

theorem flipSq_flipSq (i : Nat) (h : i < 64) : flipSq (flipSq i) = i := by
  unfold flipSq mkSq rankOf fileOf; omega

theorem flipSq_inj {i j : Nat} (hi : i < 64) (hj : j < 64) (h : flipSq i = flipSq j) : i = j := by
  unfold flipSq mkSq rankOf fileOf at h; omega

/-- the mailbox holds the cells of cursor positions `< idx` and is empty elsewhere -/
def Inv (g : Nat → Cell) (cells : List Cell) (idx : Nat) : Prop :=
  cells.length = 64 ∧ ∀ i < 64, cells.getD (flipSq i) Option.none = if i < idx then g i else Option.none

theorem inv_init (g : Nat → Cell) : Inv g (List.replicate 64 Option.none) 0 := by
  refine ⟨by simp, fun i hi => ?_⟩
  rw [List.getD_eq_getElem?_getD, List.getElem?_replicate, if_neg (Nat.not_lt_zero i)]
  split <;> rfl

theorem inv_skip {g : Nat → Cell} {cells : List Cell} {idx : Nat} (h : Inv g cells idx) (run : Nat)
    (hrun : ∀ k < run, g (idx + k) = Option.none) : Inv g cells (idx + run) := by
  refine ⟨h.1, fun i hi => ?_⟩
  rw [h.2 i hi]
  by_cases h1 : i < idx
  · rw [if_pos h1, if_pos (by omega)]
  · rw [if_neg h1]
    by_cases h2 : i < idx + run
    · rw [if_pos h2]
      have := hrun (i - idx) (by omega)
      rw [show idx + (i - idx) = i by omega] at this
      exact this.symm
    · rw [if_neg h2]

theorem inv_set {g : Nat → Cell} {cells : List Cell} {s : Nat} (h : Inv g cells s) (hs : s < 64)
    (pc : Color × Piece) (hg : g s = some pc) : Inv g (cells.set (flipSq s) (some pc)) (s + 1) := by
  refine ⟨by simp [h.1], fun i hi => ?_⟩
  rw [List.getD_eq_getElem?_getD, List.getElem?_set]
  by_cases his : i = s
  · subst his
    simp [h.1, flipSq_lt, hg]
  · have hne : ¬ flipSq s = flipSq i := fun e => his (flipSq_inj hi hs e.symm)
    rw [if_neg hne, ← List.getD_eq_getElem?_getD, h.2 i hi]
    by_cases h1 : i < s
    · rw [if_pos h1, if_pos (by omega)]
    · rw [if_neg h1, if_neg (by omega)]

/-! ### single parser steps -/

theorem parse_digit (checked : Bool) (d : Char) (rest : List Char) (idx : Nat) (cells : List Cell)
    (hd : '1' ≤ d ∧ d ≤ '8') (hn : idx + (d.toNat - '0'.toNat) < 256) :
    parseBoardCells checked (d :: rest) idx cells =
      parseBoardCells checked rest (idx + (d.toNat - '0'.toNat)) cells := by
  rw [parseBoardCells, if_pos hd]
  simp only []
  rw [if_neg (by omega)]

theorem parse_slash (checked : Bool) (rest : List Char) (idx : Nat) (cells : List Cell) :
    parseBoardCells checked ('/' :: rest) idx cells = parseBoardCells checked rest idx cells := by
  rw [parseBoardCells, if_neg (by decide), if_neg (by decide), if_pos rfl]

theorem parse_piece (checked : Bool) (c : Color) (p : Piece) (hp : p ≠ .none) (rest : List Char)
    (idx : Nat) (cells : List Cell) (hidx : idx ≤ 63) :
    parseBoardCells checked (pieceChar c p :: rest) idx cells =
      parseBoardCells checked rest (idx + 1) (cells.set (flipSq idx) (some (c, p))) := by
  have h1 : ¬ ('1' ≤ pieceChar c p ∧ pieceChar c p ≤ '8') := by
    cases c <;> cases p <;> first | exact absurd rfl hp | decide
  have h2 : ¬ pieceChar c p = ' ' := by
    cases c <;> cases p <;> first | exact absurd rfl hp | decide
  have h3 : ¬ pieceChar c p = '/' := by
    cases c <;> cases p <;> first | exact absurd rfl hp | decide
  have h4 : pieceOfFenChar (pieceChar c p) = some (c, p) := by
    cases c <;> cases p <;> first | exact absurd rfl hp | decide
  rw [parseBoardCells, if_neg h1, if_neg h2, if_neg h3, h4]
  simp only []
  rw [if_neg (by omega)]
  rfl

theorem runText_digit (run : Nat) (h1 : 1 ≤ run) (h8 : run ≤ 8) :
    ∃ d : Char, runText run = [d] ∧ ('1' ≤ d ∧ d ≤ '8') ∧ d.toNat - '0'.toNat = run := by
  have : run = 1 ∨ run = 2 ∨ run = 3 ∨ run = 4 ∨ run = 5 ∨ run = 6 ∨ run = 7 ∨ run = 8 := by omega
  rcases this with rfl | rfl | rfl | rfl | rfl | rfl | rfl | rfl
  · exact ⟨'1', by decide, by decide, by decide⟩
  · exact ⟨'2', by decide, by decide, by decide⟩
  · exact ⟨'3', by decide, by decide, by decide⟩
  · exact ⟨'4', by decide, by decide, by decide⟩
  · exact ⟨'5', by decide, by decide, by decide⟩
  · exact ⟨'6', by decide, by decide, by decide⟩
  · exact ⟨'7', by decide, by decide, by decide⟩
  · exact ⟨'8', by decide, by decide, by decide⟩

/-- the pending run: the parser advances the cursor by `run` -/
theorem parse_runText (checked : Bool) (run : Nat) (h8 : run ≤ 8) (rest : List Char) (idx : Nat)
    (cells : List Cell) (hidx : idx + run ≤ 64) :
    parseBoardCells checked (runText run ++ rest) idx cells =
      parseBoardCells checked rest (idx + run) cells := by
  by_cases h0 : run = 0
  · subst h0; simp [runText]
  · obtain ⟨d, e, hd, hv⟩ := runText_digit run (by omega) h8
    rw [e, List.singleton_append, parse_digit checked d rest idx cells hd (by omega), hv]

/-- layer (b): a rank segment written by `enc` is read back cell by cell -/
theorem parse_enc (checked : Bool) (g : Nat → Cell) (hg : ∀ i c p, g i = some (c, p) → p ≠ .none)
    (n : Nat) : ∀ (run idx : Nat) (cells : List Cell) (rest : List Char),
    (∀ k < run, g (idx + k) = Option.none) → run + n ≤ 8 → idx + run + n ≤ 64 → Inv g cells idx →
    ∃ cells', parseBoardCells checked (enc ((List.range' (idx + run) n).map g) run ++ rest) idx cells =
        parseBoardCells checked rest (idx + run + n) cells' ∧ Inv g cells' (idx + run + n) := by
  induction n with
  | zero =>
    intro run idx cells rest hrun h8 h64 hinv
    refine ⟨cells, ?_, inv_skip hinv run hrun⟩
    simp only [List.range'_zero, List.map_nil, enc]
    exact parse_runText checked run (by omega) rest idx cells (by omega)
  | succ n ih =>
    intro run idx cells rest hrun h8 h64 hinv
    rw [List.range'_succ, List.map_cons]
    cases hgs : g (idx + run) with
    | none =>
      simp only [enc]
      have := ih (run + 1) idx cells rest (by
        intro k hk
        by_cases hk' : k < run
        · exact hrun k hk'
        · rw [show k = run by omega]; exact hgs) (by omega) (by omega) hinv
      rw [show idx + (run + 1) = idx + run + 1 by omega, show idx + run + 1 + n = idx + run + (n + 1) by omega] at this
      exact this
    | some cp =>
      obtain ⟨c, p⟩ := cp
      simp only [enc]
      rw [List.append_assoc, parse_runText checked run (by omega) _ idx cells (by omega),
        List.cons_append, parse_piece checked c p (hg _ c p hgs) _ _ cells (by omega)]
      have hinv' := inv_set (inv_skip hinv run hrun) (by omega) (c, p) hgs
      have := ih 0 (idx + run + 1) _ rest (by intro k hk; omega) (by omega) (by omega) hinv'
      rw [show idx + run + 1 + 0 = idx + run + 1 by omega, show idx + run + 1 + n = idx + run + (n + 1) by omega] at this
      exact this


/-! ## The whole board -/

/-- cell under cursor position `i` -/
def cellOf (m : PieceMap) (i : Nat) : Cell := m.pieceAt (flipSq i)

theorem cellOf_ne_none (m : PieceMap) : ∀ i c p, cellOf m i = some (c, p) → p ≠ .none :=
  fun _ _ _ h => (pieceAt_some h).1

theorem writeRank_eq_cursor (m : PieceMap) (r : Nat) (hr : r ≤ 7) :
    writeRank m r = enc ((List.range' ((7 - r) * 8 + 0) 8).map (cellOf m)) 0 := by
  rw [writeRank_eq, List.range'_eq_map_range, List.map_map]
  congr 1
  apply List.map_congr_left
  intro f hf
  have hf := List.mem_range.1 hf
  simp only [Function.comp, cellOf]
  congr 1
  unfold flipSq mkSq rankOf fileOf; omega

theorem isBoardChar_pieceChar (c : Color) (p : Piece) (hp : p ≠ .none) :
    isBoardChar (pieceChar c p) = true := by
  cases c <;> cases p <;> first | exact absurd rfl hp | decide

theorem isBoardChar_runText (run : Nat) (h8 : run ≤ 8) : ∀ ch ∈ runText run, isBoardChar ch = true := by
  have : run = 0 ∨ run = 1 ∨ run = 2 ∨ run = 3 ∨ run = 4 ∨ run = 5 ∨ run = 6 ∨ run = 7 ∨ run = 8 := by omega
  rcases this with rfl | rfl | rfl | rfl | rfl | rfl | rfl | rfl | rfl <;> decide

theorem isBoardChar_enc (l : List Cell) : ∀ run, run + l.length ≤ 8 →
    (∀ c p, some (c, p) ∈ l → p ≠ .none) → ∀ ch ∈ enc l run, isBoardChar ch = true := by
  induction l with
  | nil => intro run h8 _; exact isBoardChar_runText run (by simpa using h8)
  | cons x t ih =>
    intro run h8 hl ch hch
    simp only [List.length_cons] at h8
    cases x with
    | none =>
      simp only [enc] at hch
      exact ih (run + 1) (by omega) (fun c p h => hl c p (List.mem_cons_of_mem _ h)) ch hch
    | some cp =>
      obtain ⟨c, p⟩ := cp
      simp only [enc, List.mem_append, List.mem_cons] at hch
      rcases hch with h | rfl | h
      · exact isBoardChar_runText run (by omega) ch h
      · exact isBoardChar_pieceChar c p (hl c p List.mem_cons_self)
      · exact ih 0 (by omega) (fun c p h => hl c p (List.mem_cons_of_mem _ h)) ch h

theorem enc_ne_nil (l : List Cell) : ∀ run, 0 < run + l.length → run + l.length ≤ 8 → enc l run ≠ [] := by
  induction l with
  | nil =>
    intro run h0 h8
    obtain ⟨d, e, _⟩ := runText_digit run (by simp at h0; omega) (by simpa using h8)
    simp [enc, e]
  | cons x t ih =>
    intro run h0 h8
    simp only [List.length_cons] at h8
    cases x with
    | none => simp only [enc]; exact ih (run + 1) (by omega) (by omega)
    | some cp => obtain ⟨c, p⟩ := cp; simp [enc]

theorem isBoardChar_props (ch : Char) (h : isBoardChar ch = true) :
    ch ≠ '/' ∧ isRegexSpace ch = false := by
  simp only [isBoardChar, List.contains_eq_mem, decide_eq_true_eq] at h
  have : ∀ x ∈ "rnbqkpRNBQKP12345678".toList, x ≠ '/' ∧ isRegexSpace x = false := by decide
  exact this ch h

theorem writeRank_boardChars (m : PieceMap) (r : Nat) (hr : r ≤ 7) :
    ∀ ch ∈ writeRank m r, isBoardChar ch = true := by
  rw [writeRank_eq_cursor m r hr]
  apply isBoardChar_enc _ 0 (by simp)
  intro c p h
  obtain ⟨i, _, hi⟩ := List.mem_map.1 h
  exact cellOf_ne_none m i c p hi

theorem writeRank_ne_nil (m : PieceMap) (r : Nat) (hr : r ≤ 7) : writeRank m r ≠ [] := by
  rw [writeRank_eq_cursor m r hr]
  exact enc_ne_nil _ 0 (by simp) (by simp)

theorem writeBoard_eq (m : PieceMap) :
    writeBoard m = writeRank m 7 ++ '/' :: (writeRank m 6 ++ '/' :: (writeRank m 5 ++ '/' ::
      (writeRank m 4 ++ '/' :: (writeRank m 3 ++ '/' :: (writeRank m 2 ++ '/' ::
      (writeRank m 1 ++ '/' :: writeRank m 0)))))) := by
  simp [writeBoard]

/-- one rank followed by anything: cursor advances by 8 and the mailbox gains that rank -/
theorem parse_rank (checked : Bool) (m : PieceMap) (r : Nat) (hr : r ≤ 7) (cells : List Cell)
    (rest : List Char) (hinv : Inv (cellOf m) cells ((7 - r) * 8)) :
    ∃ cells', parseBoardCells checked (writeRank m r ++ rest) ((7 - r) * 8) cells =
        parseBoardCells checked rest ((7 - r) * 8 + 8) cells' ∧ Inv (cellOf m) cells' ((7 - r) * 8 + 8) := by
  rw [writeRank_eq_cursor m r hr]
  have := parse_enc checked (cellOf m) (cellOf_ne_none m) 8 0 ((7 - r) * 8) cells rest
    (by intro k hk; omega) (by omega) (by omega) hinv
  simpa using this

/-- layer (c): the written board is read back into the mailbox of `pieceAt` -/
theorem parse_writeBoard (checked : Bool) (m : PieceMap) :
    ∃ cells, parseBoardCells checked (writeBoard m) 0 (List.replicate 64 Option.none) = .ok cells ∧
      ∀ sq < 64, cells.getD sq Option.none = m.pieceAt sq := by
  rw [writeBoard_eq]
  obtain ⟨c7, e7, i7⟩ := parse_rank checked m 7 (by omega) _ ('/' :: (writeRank m 6 ++ '/' :: (writeRank m 5 ++ '/' ::
      (writeRank m 4 ++ '/' :: (writeRank m 3 ++ '/' :: (writeRank m 2 ++ '/' ::
      (writeRank m 1 ++ '/' :: writeRank m 0))))))) (inv_init (cellOf m))
  rw [e7, parse_slash]
  obtain ⟨c6, e6, i6⟩ := parse_rank checked m 6 (by omega) c7 ('/' :: (writeRank m 5 ++ '/' ::
      (writeRank m 4 ++ '/' :: (writeRank m 3 ++ '/' :: (writeRank m 2 ++ '/' ::
      (writeRank m 1 ++ '/' :: writeRank m 0)))))) i7
  rw [e6, parse_slash]
  obtain ⟨c5, e5, i5⟩ := parse_rank checked m 5 (by omega) c6 ('/' ::
      (writeRank m 4 ++ '/' :: (writeRank m 3 ++ '/' :: (writeRank m 2 ++ '/' ::
      (writeRank m 1 ++ '/' :: writeRank m 0))))) i6
  rw [e5, parse_slash]
  obtain ⟨c4, e4, i4⟩ := parse_rank checked m 4 (by omega) c5 ('/' :: (writeRank m 3 ++ '/' :: (writeRank m 2 ++ '/' ::
      (writeRank m 1 ++ '/' :: writeRank m 0)))) i5
  rw [e4, parse_slash]
  obtain ⟨c3, e3, i3⟩ := parse_rank checked m 3 (by omega) c4 ('/' :: (writeRank m 2 ++ '/' ::
      (writeRank m 1 ++ '/' :: writeRank m 0))) i4
  rw [e3, parse_slash]
  obtain ⟨c2, e2, i2⟩ := parse_rank checked m 2 (by omega) c3 ('/' :: (writeRank m 1 ++ '/' :: writeRank m 0)) i3
  rw [e2, parse_slash]
  obtain ⟨c1, e1, i1⟩ := parse_rank checked m 1 (by omega) c2 ('/' :: writeRank m 0) i2
  rw [e1, parse_slash]
  obtain ⟨c0, e0, i0⟩ := parse_rank checked m 0 (by omega) c1 [] i1
  rw [List.append_nil] at e0
  rw [e0]
  refine ⟨c0, by rw [parseBoardCells], fun sq hsq => ?_⟩
  have := i0.2 (flipSq sq) (flipSq_lt sq)
  rw [flipSq_flipSq sq hsq, if_pos (by have := flipSq_lt sq; omega)] at this
  rw [this, cellOf, flipSq_flipSq sq hsq]

theorem boardFieldOk_writeBoard (m : PieceMap) : boardFieldOk (writeBoard m) = true := by
  have nm : ∀ r, r ≤ 7 → '/' ∉ writeRank m r := fun r hr h =>
    (isBoardChar_props _ (writeRank_boardChars m r hr _ h)).1 rfl
  have split : (writeBoard m).splitOn '/' = [writeRank m 7, writeRank m 6, writeRank m 5, writeRank m 4,
      writeRank m 3, writeRank m 2, writeRank m 1, writeRank m 0] := by
    rw [writeBoard_eq]
    rw [List.splitOn_append_cons_self_of_not_mem (nm 7 (by omega)),
      List.splitOn_append_cons_self_of_not_mem (nm 6 (by omega)),
      List.splitOn_append_cons_self_of_not_mem (nm 5 (by omega)),
      List.splitOn_append_cons_self_of_not_mem (nm 4 (by omega)),
      List.splitOn_append_cons_self_of_not_mem (nm 3 (by omega)),
      List.splitOn_append_cons_self_of_not_mem (nm 2 (by omega)),
      List.splitOn_append_cons_self_of_not_mem (nm 1 (by omega)),
      List.splitOn_eq_singleton (nm 0 (by omega))]
  have ok : ∀ r, r ≤ 7 → (!(writeRank m r).isEmpty && (writeRank m r).all isBoardChar) = true := by
    intro r hr
    have h1 := writeRank_ne_nil m r hr
    have h2 := writeRank_boardChars m r hr
    rw [Bool.and_eq_true]
    constructor
    · cases h : writeRank m r with
      | nil => exact absurd h h1
      | cons _ _ => rfl
    · exact List.all_eq_true.2 h2
  simp only [boardFieldOk, split]
  simp [ok]

theorem writeBoard_no_space (m : PieceMap) : ∀ ch ∈ writeBoard m, isRegexSpace ch = false := by
  have nm : ∀ r, r ≤ 7 → ∀ ch ∈ writeRank m r, isRegexSpace ch = false := fun r hr ch h =>
    (isBoardChar_props _ (writeRank_boardChars m r hr _ h)).2
  intro ch hch
  rw [writeBoard_eq] at hch
  simp only [List.mem_append, List.mem_cons] at hch
  have hs : isRegexSpace '/' = false := by decide
  rcases hch with h | rfl | h | rfl | h | rfl | h | rfl | h | rfl | h | rfl | h | rfl | h
  all_goals first | exact hs | skip
  · exact nm 7 (by omega) ch h
  · exact nm 6 (by omega) ch h
  · exact nm 5 (by omega) ch h
  · exact nm 4 (by omega) ch h
  · exact nm 3 (by omega) ch h
  · exact nm 2 (by omega) ch h
  · exact nm 1 (by omega) ch h
  · exact nm 0 (by omega) ch h


/-! ## Field splitting -/

theorem go_nospace (b cur : List Char) (h : ∀ c ∈ b, isRegexSpace c = false) :
    splitFields.go b cur = [cur.reverse ++ b] := by
  induction b generalizing cur with
  | nil => simp [splitFields.go]
  | cons x t ih =>
    rw [splitFields.go, if_neg (by simp [h x List.mem_cons_self]),
      ih _ (fun c hc => h c (List.mem_cons_of_mem _ hc))]
    simp

theorem go_field (b rest cur : List Char) (sp : Char) (hsp : isRegexSpace sp = true)
    (h : ∀ c ∈ b, isRegexSpace c = false) :
    splitFields.go (b ++ sp :: rest) cur = (cur.reverse ++ b) :: splitFields.go rest [] := by
  induction b generalizing cur with
  | nil => simp [splitFields.go, hsp]
  | cons x t ih =>
    rw [List.cons_append, splitFields.go, if_neg (by simp [h x List.mem_cons_self]),
      ih _ (fun c hc => h c (List.mem_cons_of_mem _ hc))]
    simp

/-- six space-free fields joined by single spaces split back into the six fields -/
theorem splitFields_six (f1 f2 f3 f4 f5 f6 : List Char)
    (h1 : ∀ c ∈ f1, isRegexSpace c = false) (h2 : ∀ c ∈ f2, isRegexSpace c = false)
    (h3 : ∀ c ∈ f3, isRegexSpace c = false) (h4 : ∀ c ∈ f4, isRegexSpace c = false)
    (h5 : ∀ c ∈ f5, isRegexSpace c = false) (h6 : ∀ c ∈ f6, isRegexSpace c = false) :
    splitFields (f1 ++ ' ' :: (f2 ++ ' ' :: (f3 ++ ' ' :: (f4 ++ ' ' :: (f5 ++ ' ' :: f6))))) =
      [f1, f2, f3, f4, f5, f6] := by
  have hs : isRegexSpace ' ' = true := by decide
  unfold splitFields
  rw [go_field _ _ _ _ hs h1, go_field _ _ _ _ hs h2, go_field _ _ _ _ hs h3, go_field _ _ _ _ hs h4,
    go_field _ _ _ _ hs h5, go_nospace _ _ h6]
  simp

/-! ## The scalar fields -/

def turnChars : Color → List Char | .white => ['w'] | .black => ['b']

def castleChars (cw cb : CastleRights) : List Char :=
  if !cw.kingside && !cw.queenside && !cb.kingside && !cb.queenside then ['-']
  else (if cw.kingside then ['K'] else []) ++ (if cw.queenside then ['Q'] else []) ++
       (if cb.kingside then ['k'] else []) ++ (if cb.queenside then ['q'] else [])

def epChars : Option Nat → List Char
  | Option.none => ['-']
  | some t => [fileChar (fileOf t), rankChar (rankOf t)]

/-- the characters of the written FEN, field by field -/
theorem toList_writeFen (s : State) :
    (writeFen s).toList = writeBoard s.pieces ++ ' ' :: (turnChars s.turn ++ ' ' ::
      (castleChars s.castleW s.castleB ++ ' ' :: (epChars s.ep ++ ' ' ::
      ((toString s.halfmove).toList ++ ' ' :: (toString s.fullmove).toList)))) := by
  have e1 : (" " : String).toList = [' '] := by decide
  have e2 : ("w" : String).toList = ['w'] := by decide
  have e3 : ("b" : String).toList = ['b'] := by decide
  have e4 : ("-" : String).toList = ['-'] := by decide
  rcases s with ⟨pieces, turn, cw, cb, ep, hm, fm⟩
  cases turn <;> cases ep <;>
    simp only [writeFen, String.toList_append, String.toList_ofList, e1, e2, e3, e4, castleChars,
      turnChars, epChars, sqName, List.append_assoc, List.cons_append,
      List.nil_append]


/-! ## `parseFenChars` in named pieces -/

def sideOk (side : List Char) : Bool :=
  side.length == 1 && side.all (fun c => c == 'b' || c == '|' || c == 'w')

def castleOk (castle : List Char) : Bool :=
  castle == ['-'] ||
      (1 ≤ castle.length && castle.length ≤ 4 && castle.all (fun c => "K|Qkq".toList.contains c))

def epOk (ep : List Char) : Bool :=
  ep == ['-'] || (match ep with
      | [f, r] => 'a' ≤ f && f ≤ 'h' && '1' ≤ r && r ≤ '8'
      | _ => false)

def rightsOf (castle : List Char) : Option (CastleRights × CastleRights) :=
  if castle == ['-'] then some (CastleRights.noRights, CastleRights.noRights) else parseCastle castle

def epOf (ep : List Char) : Option Nat :=
  match ep with
  | [f, r] => some (mkSq (r.toNat - '1'.toNat) (f.toNat - 'a'.toNat))
  | _ => Option.none

/-- `parseFenChars` on a string that splits into six fields passing the gate, whose board parses,
whose side is `w`/`b`, whose rights and counters parse -/
theorem parseFenChars_ok (checked : Bool) (cs board side castle ep half full : List Char)
    (cells : List Cell) (turn : Color) (cw cb : CastleRights) (h f : Nat)
    (hsplit : splitFields cs = [board, side, castle, ep, half, full])
    (hb : boardFieldOk board = true) (hs : sideOk side = true) (hc : castleOk castle = true)
    (he : epOk ep = true) (hh : half.isEmpty = false) (hf : full.isEmpty = false)
    (hcells : parseBoardCells checked board 0 (List.replicate 64 Option.none) = .ok cells)
    (hside : side = turnChars turn)
    (hrights : rightsOf castle = some (cw, cb))
    (hhalf : parseUsize half = some h) (hfull : parseUsize full = some f) :
    parseFenChars checked cs = .ok (State.mk (piecesOfCells cells) turn cw cb (epOf ep) h f) := by
  unfold parseFenChars
  rw [hsplit]
  simp only []
  refine Eq.trans (if_neg ?_) ?_
  · intro hg
    have hg' : (!(boardFieldOk board && sideOk side && castleOk castle && epOk ep && !half.isEmpty &&
      !full.isEmpty)) = true := hg
    rw [hb, hs, hc, he, hh, hf] at hg'
    exact absurd hg' (by decide)
  rw [hcells]
  simp only []
  have hr' := hrights; unfold rightsOf at hr'
  subst hside
  cases turn
  · simp only [turnChars]
    rw [hr']
    simp only [hhalf, hfull]
    rfl
  · simp only [turnChars]
    rw [hr']
    simp only [hhalf, hfull]
    rfl


/-! ## Scalar fields: gate, value, no separator inside -/

theorem turn_props (t : Color) :
    sideOk (turnChars t) = true ∧ ∀ c ∈ turnChars t, isRegexSpace c = false := by
  cases t <;> decide

theorem castle_props (cw cb : CastleRights) :
    castleOk (castleChars cw cb) = true ∧ rightsOf (castleChars cw cb) = some (cw, cb) ∧
      ∀ c ∈ castleChars cw cb, isRegexSpace c = false := by
  obtain ⟨wk, wq⟩ := cw; obtain ⟨bk, bq⟩ := cb
  cases wk <;> cases wq <;> cases bk <;> cases bq <;> decide

theorem fileChar_props : ∀ f < 8, 'a' ≤ fileChar f ∧ fileChar f ≤ 'h' ∧
    (fileChar f).toNat - 'a'.toNat = f ∧ isRegexSpace (fileChar f) = false := by decide

theorem rankChar_props : ∀ r < 8, '1' ≤ rankChar r ∧ rankChar r ≤ '8' ∧
    (rankChar r).toNat - '1'.toNat = r ∧ isRegexSpace (rankChar r) = false := by decide

theorem ep_props (e : Option Nat) (he : ∀ t, e = some t → t < 64) :
    epOk (epChars e) = true ∧ epOf (epChars e) = e ∧ ∀ c ∈ epChars e, isRegexSpace c = false := by
  cases e with
  | none => decide
  | some t =>
    have ht := he t rfl
    have hf := fileChar_props (fileOf t) (by unfold fileOf; omega)
    have hr := rankChar_props (rankOf t) (by unfold rankOf; omega)
    refine ⟨?_, ?_, ?_⟩
    · simp [epOk, epChars, hf.1, hf.2.1, hr.1, hr.2.1]
    · simp only [epOf, epChars, hf.2.2.1, hr.2.2.1]
      congr 1; unfold mkSq rankOf fileOf; omega
    · intro c hc
      simp only [epChars, List.mem_cons, List.not_mem_nil, or_false] at hc
      rcases hc with rfl | rfl
      · exact hf.2.2.2
      · exact hr.2.2.2

theorem counter_props (n : Nat) (hn : n < 2^64) :
    (toString n).toList.isEmpty = false ∧ parseUsize (toString n).toList = some n ∧
      ∀ c ∈ (toString n).toList, isRegexSpace c = false := by
  refine ⟨?_, parseUsize_toString n hn, fun c hc => not_space_of_isDigit c (isDigit_of_mem_toString n c hc)⟩
  cases h : (toString n).toList with
  | nil => exact absurd h (toString_nat_ne_nil n)
  | cons _ _ => rfl

/-- C11 (1), on characters: reading what the writer wrote gives the position back -/
theorem parse_write (checked : Bool) (s : State) (hd : Disjoint s.pieces)
    (hep : ∀ t, s.ep = some t → t < 64) (hh : s.halfmove < 2^64) (hf : s.fullmove < 2^64) :
    parseFenChars checked (writeFen s).toList = .ok s := by
  obtain ⟨cells, hcells, hmail⟩ := parse_writeBoard checked s.pieces
  obtain ⟨t1, t2⟩ := turn_props s.turn
  obtain ⟨c1, c2, c3⟩ := castle_props s.castleW s.castleB
  obtain ⟨e1, e2, e3⟩ := ep_props s.ep hep
  obtain ⟨h1, h2, h3⟩ := counter_props s.halfmove hh
  obtain ⟨f1, f2, f3⟩ := counter_props s.fullmove hf
  rw [parseFenChars_ok checked _ _ _ _ _ _ _ cells s.turn s.castleW s.castleB s.halfmove s.fullmove
    (by rw [toList_writeFen]; exact splitFields_six _ _ _ _ _ _ (writeBoard_no_space s.pieces) t2 c3 e3 h3 f3)
    (boardFieldOk_writeBoard s.pieces) t1 c1 e1 h1 f1 hcells rfl c2 h2 f2]
  rw [e2, piecesOfCells_eq, buildMap_pieceAt hd _ hmail]


/-! ## Placements built from a mailbox are disjoint; `pieceAt` reads the mailbox back -/

def colorAt (i : Nat) : Color := if i < 6 then .white else .black
def pieceIx (i : Nat) : Piece :=
  match i % 6 with
  | 0 => .pawn | 1 => .knight | 2 => .bishop | 3 => .rook | 4 => .queen | _ => .king

theorem boards_getElem (m : PieceMap) : ∀ (i : Nat) (h : i < (boards m).length),
    (boards m)[i] = m.get (colorAt i) (pieceIx i) ∧ pieceIx i ≠ .none ∧ pidx (colorAt i) (pieceIx i) = i := by
  intro i h
  have h12 : i < 12 := h
  match i, h12 with
  | 0, _ | 1, _ | 2, _ | 3, _ | 4, _ | 5, _ | 6, _ | 7, _ | 8, _ | 9, _ | 10, _ | 11, _ =>
    exact ⟨rfl, by decide, by decide⟩

theorem disjoint_of_unique (m : PieceMap)
    (h : ∀ c p c' p' sq, p ≠ .none → p' ≠ .none → test (m.get c p) sq = true →
      test (m.get c' p') sq = true → c = c' ∧ p = p') : Disjoint m := by
  apply List.pairwise_iff_getElem.2
  intro i j hi hj hij
  obtain ⟨ei, ni, xi⟩ := boards_getElem m i hi
  obtain ⟨ej, nj, xj⟩ := boards_getElem m j hj
  rw [ei, ej]
  apply bb_ext
  intro sq _
  rw [test_and, test_zero]
  cases h1 : test (m.get (colorAt i) (pieceIx i)) sq with
  | false => rfl
  | true =>
    cases h2 : test (m.get (colorAt j) (pieceIx j)) sq with
    | false => rfl
    | true =>
      exfalso
      obtain ⟨e1, e2⟩ := h _ _ _ _ sq ni nj h1 h2
      rw [e1, e2, xj] at xi
      omega

theorem disjoint_buildMap (f : Nat → Cell) : Disjoint (buildMap f) := by
  apply disjoint_of_unique
  intro c p c' p' sq hp hp' h1 h2
  rw [test_buildMap f c p hp sq, decide_eq_true_eq] at h1
  rw [test_buildMap f c' p' hp' sq, decide_eq_true_eq] at h2
  have := h1.2.symm.trans h2.2
  simp only [Option.some.injEq, Prod.mk.injEq] at this
  exact this

theorem pieceAt_buildMap (f : Nat → Cell) (hf : ∀ sq c p, f sq = some (c, p) → p ≠ .none)
    (sq : Nat) (hsq : sq < 64) : (buildMap f).pieceAt sq = f sq := by
  cases hfs : f sq with
  | none =>
    rw [pieceAt_eq]
    apply List.find?_eq_none.2
    rintro ⟨c, p⟩ hm
    have hp := (mem_allPairs c p).1 hm
    simp only [test_buildMap f c p hp sq, hfs]
    simp
  | some cp =>
    obtain ⟨c, p⟩ := cp
    have hp := hf sq c p hfs
    apply pieceAt_of_test (disjoint_buildMap f) hp
    rw [test_buildMap f c p hp sq]
    simp [hsq, hfs]

/-! ## The independent writer `Spec.writeFen` against the engine's writer -/

def convColor : Spec.Color → Color | .white => .white | .black => .black
def convKind : Spec.Kind → Piece
  | .pawn => .pawn | .knight => .knight | .bishop => .bishop | .rook => .rook | .queen => .queen | .king => .king

def convCell (x : Option (Spec.Color × Spec.Kind)) : Cell := x.map fun ck => (convColor ck.1, convKind ck.2)

theorem concPieces_eq (p : Spec.Pos) : concPieces p = buildMap (fun sq => convCell (p.at sq)) := by
  unfold concPieces buildMap
  congr 1
  funext m sq
  cases h : p.at sq with
  | none => simp [convCell, h]
  | some ck =>
    obtain ⟨c, k⟩ := ck
    cases c <;> cases k <;> simp [convCell, convColor, convKind, h]

theorem convCell_ne_none (p : Spec.Pos) : ∀ sq c q, convCell (p.at sq) = some (c, q) → q ≠ .none := by
  intro sq c q h
  cases h' : p.at sq with
  | none => simp [convCell, h'] at h
  | some ck =>
    obtain ⟨c', k⟩ := ck
    simp only [convCell, h', Option.map_some, Option.some.injEq, Prod.mk.injEq] at h
    rw [← h.2]
    cases k <;> decide

theorem disjoint_concPieces (p : Spec.Pos) : Disjoint (concPieces p) := by
  rw [concPieces_eq]; exact disjoint_buildMap _

theorem pieceAt_concPieces (p : Spec.Pos) (sq : Nat) (hsq : sq < 64) :
    (concPieces p).pieceAt sq = convCell (p.at sq) := by
  rw [concPieces_eq]; exact pieceAt_buildMap _ (convCell_ne_none p) sq hsq

theorem cellChar_eq (c : Spec.Color) (k : Spec.Kind) :
    Spec.cellChar c k = pieceChar (convColor c) (convKind k) := by
  cases c <;> cases k <;> decide

theorem runText_eq (run : Nat) : (if run > 0 then toString run else "").toList = runText run := by
  unfold runText
  split
  · rfl
  · decide

theorem toList_rankText_go (p : Spec.Pos) (r : Nat) (fuel : Nat) : ∀ f run,
    (Spec.rankText.go p r f run fuel).toList =
      enc ((List.range' f fuel).map fun x => convCell (p.at (r * 8 + x))) run := by
  induction fuel with
  | zero =>
    intro f run
    simp only [Spec.rankText.go, List.range'_zero, List.map_nil, enc]
    exact runText_eq run
  | succ n ih =>
    intro f run
    rw [List.range'_succ, List.map_cons]
    cases h : p.at (r * 8 + f) with
    | none =>
      simp only [Spec.rankText.go, h, convCell, Option.map_none, enc]
      exact ih (f + 1) (run + 1)
    | some ck =>
      obtain ⟨c, k⟩ := ck
      simp only [Spec.rankText.go, h, convCell, Option.map_some, enc, String.toList_append,
        String.toList_singleton, runText_eq, ih (f + 1) 0, cellChar_eq]
      simp

theorem toList_rankText (p : Spec.Pos) (r : Nat) (hr : r ≤ 7) :
    (Spec.rankText p r).toList = writeRank (concPieces p) r := by
  rw [writeRank_eq, Spec.rankText, toList_rankText_go, List.range_eq_range']
  congr 1
  apply List.map_congr_left
  intro f hf
  have hf := (List.mem_range'_1.1 hf).2
  rw [pieceAt_concPieces p _ (by unfold mkSq; omega)]
  rfl


theorem rights_eq (wk wq bk bq : Bool) :
    (let rights := (if wk then "K" else "") ++ (if wq then "Q" else "") ++ (if bk then "k" else "") ++ (if bq then "q" else "")
     if rights.isEmpty then "-" else rights).toList = castleChars ⟨wk, wq⟩ ⟨bk, bq⟩ := by
  cases wk <;> cases wq <;> cases bk <;> cases bq <;> decide

theorem sqName_eq (t : Nat) : Spec.sqName t = Wee.sqName t := rfl

/-- the independent writer and the engine's writer produce the same text -/
theorem spec_writer_agrees (p : Spec.Pos) : writeFen (conc p) = Spec.writeFen p := by
  apply String.toList_injective
  rw [toList_writeFen]
  have e1 : (" " : String).toList = [' '] := by decide
  have e2 : ("w" : String).toList = ['w'] := by decide
  have e3 : ("b" : String).toList = ['b'] := by decide
  have e6 : ("-" : String).toList = ['-'] := by decide
  have e4 := rights_eq p.wk p.wq p.bk p.bq
  have e5 : ("/" : String).toList = ['/'] := by decide
  simp only [] at e4
  have hb : ("/".intercalate ([7,6,5,4,3,2,1,0].map (Spec.rankText p))).toList = writeBoard (conc p).pieces := by
    simp only [String.toList_intercalate, e5,
      List.map_cons, List.map_nil, toList_rankText p _ (by decide : (7:Nat) ≤ 7), toList_rankText p _ (by decide : (6:Nat) ≤ 7),
      toList_rankText p _ (by decide : (5:Nat) ≤ 7), toList_rankText p _ (by decide : (4:Nat) ≤ 7),
      toList_rankText p _ (by decide : (3:Nat) ≤ 7), toList_rankText p _ (by decide : (2:Nat) ≤ 7),
      toList_rankText p _ (by decide : (1:Nat) ≤ 7), toList_rankText p _ (by decide : (0:Nat) ≤ 7)]
    rw [writeBoard_eq]
    simp [conc, List.intercalate]
  simp only [Spec.writeFen, String.toList_append, hb, e4, e1]
  rcases p with ⟨cells, turn, wk, wq, bk, bq, ep, hm, fm⟩
  cases turn <;> cases ep <;>
    simp [conc, turnChars, epChars, e2, e3, e6, sqName_eq, Wee.sqName]


theorem char_le_iff (a b : Char) : a ≤ b ↔ a.toNat ≤ b.toNat := by
  rw [Char.le_def, UInt32.le_iff_toNat_le]; rfl

theorem ite_some_none {α} {c : Prop} [Decidable c] {a p : α}
    (h : (if c then some a else Option.none) = some p) : a = p := by
  split at h
  · exact Option.some.inj h
  · cases h

/-- a position accepted by the strict reader has its en-passant square on the board -/
theorem readFen_ep_lt (t : String) (p : Spec.Pos) (h : Spec.readFen t = some p) :
    ∀ e, p.ep = some e → e < 64 := by
  unfold Spec.readFen at h
  split at h
  · split at h
    · split at h
      · cases h
      · simp only [] at h
        split at h
        · rename_i hep _ _
          have h := ite_some_none h
          · subst h
            intro e he
            simp only [] at he
            subst he
            split at hep
            · cases hep
            · split at hep
              · split at hep
                · rename_i f r _ hfr
                  simp only [Option.some.injEq] at hep
                  rw [char_le_iff, char_le_iff, char_le_iff, char_le_iff] at hfr
                  have a1 : ('a' : Char).toNat = 97 := by decide
                  have a2 : ('h' : Char).toNat = 104 := by decide
                  have a3 : ('1' : Char).toNat = 49 := by decide
                  have a4 : ('8' : Char).toNat = 56 := by decide
                  rw [a1, a2, a3, a4] at hfr
                  omega
                · cases hep
              · cases hep
        · cases h
    · cases h
  · cases h


end Wee.FenL
