import Wee.Model.Book
import Wee.Proofs.HashLemmas
import Wee.Proofs.MoveGenLemmas
import Wee.Props.C01
/-!
# Lemmas about the opening-book model (`Wee.Model.Book`), used by `Wee.Props.C16`
-/
namespace Wee.Book
open Wee Std Wee.Gen

/-! ## the table -/

/-- the set stored under a hash (`[]` if there is none) -/
def movesAt (b : Table) (h : UInt64) : List Move := b.getD h []

theorem movesAt_empty (h : UInt64) : movesAt ∅ h = [] := by
  simp [movesAt]

theorem movesAt_append (b : Table) (h : UInt64) (m : Move) (h' : UInt64) :
    movesAt (append b h m) h' =
      if h = h' then (if (movesAt b h).contains m then movesAt b h else movesAt b h ++ [m])
      else movesAt b h' := by
  unfold movesAt append
  simp only [HashMap.getD_insert, beq_iff_eq]

theorem mem_movesAt_append (b : Table) (h : UInt64) (m : Move) (h' : UInt64) (x : Move) :
    x ∈ movesAt (append b h m) h' ↔ x ∈ movesAt b h' ∨ (h = h' ∧ x = m) := by
  rw [movesAt_append]
  by_cases hh : h = h'
  · subst hh
    rw [if_pos rfl]
    by_cases hc : (movesAt b h).contains m = true
    · rw [if_pos hc]
      have : m ∈ movesAt b h := by simpa using hc
      constructor
      · exact Or.inl
      · rintro (h1 | ⟨_, rfl⟩)
        · exact h1
        · exact this
    · rw [if_neg hc]
      simp
  · rw [if_neg hh]
    simp [hh]

theorem nodup_movesAt_append (b : Table) (h : UInt64) (m : Move) (h' : UInt64)
    (hb : (movesAt b h').Nodup) : (movesAt (append b h m) h').Nodup := by
  rw [movesAt_append]
  by_cases hh : h = h'
  · subst hh
    rw [if_pos rfl]
    by_cases hc : (movesAt b h).contains m = true
    · rw [if_pos hc]; exact hb
    · rw [if_neg hc]
      have : m ∉ movesAt b h := by simpa using hc
      rw [List.nodup_append]
      refine ⟨hb, by simp, ?_⟩
      intro a ha b' hb'
      rw [List.mem_singleton] at hb'
      subst hb'
      intro e; subst e; exact this ha
  · rw [if_neg hh]; exact hb

theorem mem_movesAt_addRecords (K : Keys) (l : List (State × Move)) (b : Table) (h : UInt64) (x : Move) :
    x ∈ movesAt (addRecords K b l) h ↔ x ∈ movesAt b h ∨ ∃ q, (q, x) ∈ l ∧ hash K q = h := by
  induction l generalizing b with
  | nil => simp [addRecords]
  | cons r rest ih =>
    have : addRecords K b (r :: rest) = addRecords K (append b (hash K r.1) r.2) rest := rfl
    rw [this, ih, mem_movesAt_append]
    constructor
    · rintro ((h1 | ⟨h2, rfl⟩) | ⟨q, hq, hh⟩)
      · exact Or.inl h1
      · exact Or.inr ⟨r.1, by simp, h2⟩
      · exact Or.inr ⟨q, List.mem_cons_of_mem _ hq, hh⟩
    · rintro (h1 | ⟨q, hq, hh⟩)
      · exact Or.inl (Or.inl h1)
      · rcases List.mem_cons.1 hq with e | hq
        · subst e; exact Or.inl (Or.inr ⟨hh, rfl⟩)
        · exact Or.inr ⟨q, hq, hh⟩

theorem nodup_movesAt_addRecords (K : Keys) (l : List (State × Move)) (b : Table) (h : UInt64)
    (hb : (movesAt b h).Nodup) : (movesAt (addRecords K b l) h).Nodup := by
  induction l generalizing b with
  | nil => exact hb
  | cons r rest ih =>
    have : addRecords K b (r :: rest) = addRecords K (append b (hash K r.1) r.2) rest := rfl
    rw [this]
    exact ih _ (nodup_movesAt_append _ _ _ _ hb)

/-- the fold over the games succeeds iff no game has an error, and then it holds exactly the recorded pairs -/
theorem buildFromPlayed_ok (K : Keys) (ps : List (Except BookErr (List (State × Move)))) (b t : Table)
    (ht : buildFromPlayed K b ps = .ok t) :
    (∀ p ∈ ps, ∃ l, p = .ok l) ∧
    ∀ h x, x ∈ movesAt t h ↔ x ∈ movesAt b h ∨ ∃ l, Except.ok l ∈ ps ∧ ∃ q, (q, x) ∈ l ∧ hash K q = h := by
  induction ps generalizing b with
  | nil =>
    simp only [buildFromPlayed, Except.ok.injEq] at ht
    subst ht
    simp
  | cons p rest ih =>
    cases p with
    | error e => simp [buildFromPlayed] at ht
    | ok l =>
      simp only [buildFromPlayed] at ht
      obtain ⟨h1, h2⟩ := ih _ ht
      refine ⟨?_, ?_⟩
      · intro p hp
        rcases List.mem_cons.1 hp with e | hp
        · exact ⟨l, e⟩
        · exact h1 p hp
      · intro h x
        rw [h2, mem_movesAt_addRecords]
        constructor
        · rintro ((h3 | ⟨q, hq, hh⟩) | ⟨l', hl', q, hq, hh⟩)
          · exact Or.inl h3
          · exact Or.inr ⟨l, by simp, q, hq, hh⟩
          · exact Or.inr ⟨l', List.mem_cons_of_mem _ hl', q, hq, hh⟩
        · rintro (h3 | ⟨l', hl', q, hq, hh⟩)
          · exact Or.inl (Or.inl h3)
          · rcases List.mem_cons.1 hl' with e | hl'
            · cases e; exact Or.inl (Or.inr ⟨q, hq, hh⟩)
            · exact Or.inr ⟨l', hl', q, hq, hh⟩

theorem buildFromPlayed_nodup (K : Keys) (ps : List (Except BookErr (List (State × Move)))) (b t : Table)
    (ht : buildFromPlayed K b ps = .ok t) (h : UInt64) (hb : (movesAt b h).Nodup) : (movesAt t h).Nodup := by
  induction ps generalizing b with
  | nil =>
    simp only [buildFromPlayed, Except.ok.injEq] at ht
    subst ht; exact hb
  | cons p rest ih =>
    cases p with
    | error e => simp [buildFromPlayed] at ht
    | ok l =>
      simp only [buildFromPlayed] at ht
      exact ih _ ht (nodup_movesAt_addRecords K l b h hb)

theorem buildFromPlayed_isOk (K : Keys) (ps : List (Except BookErr (List (State × Move)))) (b : Table)
    (hps : ∀ p ∈ ps, ∃ l, p = .ok l) : ∃ t, buildFromPlayed K b ps = .ok t := by
  induction ps generalizing b with
  | nil => exact ⟨b, rfl⟩
  | cons p rest ih =>
    obtain ⟨l, rfl⟩ := hps p (by simp)
    simp only [buildFromPlayed]
    exact ih _ (fun p hp => hps p (List.mem_cons_of_mem _ hp))

/-- `lookup` answers with the stored set, unless it is empty -/
theorem mem_lookup (K : Keys) (b : Table) (s : State) (x : Move) :
    (∃ ms, lookup K b s = some ms ∧ x ∈ ms) ↔ x ∈ movesAt b (hash K s) := by
  unfold lookup find movesAt
  rw [HashMap.getD_eq_getD_getElem?]
  cases hq : b[hash K s]? with
  | none => simp
  | some ms =>
    by_cases he : ms.isEmpty = true
    · have : ms = [] := by simpa using he
      subst this
      simp
    · simp [he]

theorem lookup_eq_none (K : Keys) (b : Table) (s : State) :
    lookup K b s = Option.none ↔ movesAt b (hash K s) = [] := by
  unfold lookup find movesAt
  rw [HashMap.getD_eq_getD_getElem?]
  cases hq : b[hash K s]? with
  | none => simp
  | some ms =>
    by_cases he : ms.isEmpty = true
    · have : ms = [] := by simpa using he
      subst this
      simp
    · have : ms ≠ [] := by simpa using he
      simp [he, this]

theorem lookup_eq_some (K : Keys) (b : Table) (s : State) (ms : List Move) (h : lookup K b s = some ms) :
    ms = movesAt b (hash K s) ∧ ms ≠ [] := by
  unfold lookup find at h
  unfold movesAt
  rw [HashMap.getD_eq_getD_getElem?]
  cases hq : b[hash K s]? with
  | none => simp [hq] at h
  | some ms' =>
    rw [hq] at h
    by_cases he : ms'.isEmpty = true
    · simp [he] at h
    · simp only [he] at h
      simp only [Bool.false_eq_true, ↓reduceIte, Option.some.injEq] at h
      subst h
      exact ⟨rfl, by simpa using he⟩

/-! ## the scan -/

theorem take_scanMoves (n : Nat) (s : State) (ts : List (List Char)) :
    (scanMoves s ts).take n = scanMoves s (ts.take n) := by
  induction ts generalizing s n with
  | nil => simp [scanMoves]
  | cons t ts ih =>
    cases n with
    | zero => simp [scanMoves]
    | succ n =>
      simp only [scanMoves, List.take_succ_cons]
      cases stepToken s t with
      | ok r => simp only [List.take_succ_cons, ih]
      | error e => simp only [List.take_succ_cons, ih]

/-- `playMovetext` is `parse_movetext(..).take(BOOK_DEPTH).collect()` read literally -/
theorem playMovetext_eq (movetext : String) :
    playMovetext movetext = collect ((parseMovetext movetext).take Gen.bookDepth) := by
  unfold playMovetext playTokens bookTokens parseMovetext
  rw [take_scanMoves]

theorem length_scanMoves (s : State) (ts : List (List Char)) : (scanMoves s ts).length = ts.length := by
  induction ts generalizing s with
  | nil => rfl
  | cons t ts ih =>
    simp only [scanMoves]
    cases stepToken s t <;> simp [ih]

theorem collect_ok {ε α : Type} (l : List (Except ε α)) (r : List α) (h : collect l = .ok r) :
    l = r.map Except.ok := by
  induction l generalizing r with
  | nil => simp only [collect, Except.ok.injEq] at h; subst h; rfl
  | cons a rest ih =>
    cases a with
    | error e => simp [collect] at h
    | ok a =>
      simp only [collect] at h
      cases hc : collect rest with
      | error e => rw [hc] at h; simp at h
      | ok r' =>
        rw [hc] at h
        simp only [Except.ok.injEq] at h
        subst h
        rw [ih r' hc]; rfl

theorem collect_map_ok {ε α : Type} (r : List α) : collect (r.map (Except.ok (ε := ε))) = .ok r := by
  induction r with
  | nil => rfl
  | cons a r ih => simp only [List.map_cons, collect, ih]

/-- playing move strings `ts` from `s` without an error gives the `(position, move)` pairs `l` -/
inductive Plays : State → List (List Char) → List (State × Move) → Prop
  | nil (s : State) : Plays s [] []
  | cons {s s' : State} {t : List Char} {m : Move} {ts : List (List Char)} {l : List (State × Move)} :
      stepToken s t = .ok (m, s') → Plays s' ts l → Plays s (t :: ts) ((s, m) :: l)

theorem collect_scanMoves_ok_iff (s : State) (ts : List (List Char)) (l : List (State × Move)) :
    collect (scanMoves s ts) = .ok l ↔ Plays s ts l := by
  induction ts generalizing s l with
  | nil =>
    simp only [scanMoves, collect, Except.ok.injEq]
    constructor
    · rintro rfl; exact Plays.nil s
    · intro h; cases h; rfl
  | cons t ts ih =>
    simp only [scanMoves]
    cases hst : stepToken s t with
    | error e =>
      simp only [collect]
      constructor
      · intro h; cases h
      · intro h; cases h with | cons h1 _ => rw [hst] at h1; cases h1
    | ok r =>
      simp only [collect]
      constructor
      · intro h
        cases hc : collect (scanMoves r.2 ts) with
        | error e => rw [hc] at h; cases h
        | ok l' =>
          rw [hc] at h
          simp only [Except.ok.injEq] at h
          subst h
          exact Plays.cons (s' := r.2) (by rw [hst]) ((ih r.2 l').1 hc)
      · intro h
        cases h with
        | cons h1 h2 =>
          rw [hst] at h1
          simp only [Except.ok.injEq] at h1
          subst h1
          rw [(ih _ _).2 h2]

theorem playTokens_ok_iff (ts : List (List Char)) (l : List (State × Move)) :
    playTokens ts = .ok l ↔ Plays startState ts l := collect_scanMoves_ok_iff _ _ _

/-- what one successful call of the `scan` closure means -/
theorem stepToken_ok_iff (s s' : State) (t : List Char) (m : Move) :
    stepToken s t = .ok (m, s') ↔
      ∃ q ms, parseSanChars t = some q ∧ legalMoves? s = some ms ∧
        ms.find? (fun r => q.test r.1) = some (m, s') := by
  unfold stepToken
  cases hp : parseSanChars t with
  | none => simp
  | some q =>
    cases hl : legalMoves? s with
    | none => simp
    | some ms =>
      cases hf : ms.find? (fun r => q.test r.1) with
      | none => simp [hf]
      | some r => simp [hf]

/-- a move recorded by the scan was found in the legal-move list of the position it is recorded for -/
theorem Plays.legal {s : State} {ts : List (List Char)} {l : List (State × Move)} (h : Plays s ts l)
    {q : State} {m : Move} (hm : (q, m) ∈ l) : m ∈ (legalMoves q).map (·.1) := by
  induction h with
  | nil => cases hm
  | cons h1 _ ih =>
    rcases List.mem_cons.1 hm with e | hm
    · cases e
      obtain ⟨qr, ms, _, hl, hf⟩ := (stepToken_ok_iff _ _ _ _).1 h1
      have := List.mem_of_find?_eq_some hf
      unfold legalMoves
      rw [hl]
      exact List.mem_map.2 ⟨_, this, rfl⟩
    · exact ih hm

/-- …by the SAN text of the game: the move passes the query of its token and is the FIRST such move -/
theorem Plays.first_match {s : State} {ts : List (List Char)} {l : List (State × Move)} (h : Plays s ts l)
    {q : State} {m : Move} (hm : (q, m) ∈ l) :
    ∃ t ∈ ts, ∃ qr, parseSanChars t = some qr ∧
      ((legalMoves q).find? (fun r => qr.test r.1)).map (·.1) = some m := by
  induction h with
  | nil => cases hm
  | cons h1 _ ih =>
    rcases List.mem_cons.1 hm with e | hm
    · cases e
      obtain ⟨qr, ms, hp, hl, hf⟩ := (stepToken_ok_iff _ _ _ _).1 h1
      refine ⟨_, by simp, qr, hp, ?_⟩
      unfold legalMoves
      rw [hl]
      simp [hf]
    · obtain ⟨t, ht, r⟩ := ih hm
      exact ⟨t, List.mem_cons_of_mem _ ht, r⟩

theorem Plays.length {s : State} {ts : List (List Char)} {l : List (State × Move)} (h : Plays s ts l) :
    l.length = ts.length := by
  induction h with
  | nil => rfl
  | cons _ _ ih => simp [ih]

theorem length_bookTokens (movetext : String) : (bookTokens movetext).length ≤ Gen.bookDepth := by
  unfold bookTokens
  simp [List.length_take]
  omega

/-! ## the legal moves of a position depend on its rule-relevant key only

1. the clocks (`halfmove`, `fullmove`) are never read by move generation (they are only copied into
   the successor);
2. an en-passant target on which no pawn of the side to move can capture generates no move:
   the generator's `attacks & ep_mask` is empty, exactly when the hasher's
   `compute_pawn_attacks(target, !turn) & own pawns` is;
3. so two positions with the same `key` (and en-passant targets on the rank the side to move
   implies) have the same legal moves.
-/

/-! ### 1: clocks -/

def setClocks (s : State) (h f : Nat) : State := { s with halfmove := h, fullmove := f }

/-- what `by_performing_move` does to the clocks of the successor -/
def reclock (mv : Move) (turn : Color) (h f : Nat) (n : State) : State :=
  setClocks n (if Move.isCapture mv || Move.piece mv == .pawn then 0 else clockSucc h)
    (if turn == .black then clockSucc f else f)

theorem pseudoLegalMoves_setClocks (s : State) (h f : Nat) :
    pseudoLegalMoves (setClocks s h f) = pseudoLegalMoves s := rfl

theorem performMove_setClocks (s : State) (h f : Nat) (mv : Move) :
    performMove (setClocks s h f) mv =
      (performMove s mv).map (fun e => e.map (reclock mv s.turn h f)) := by
  unfold performMove
  cases hp : Move.piece? mv with
  | none => rfl
  | some p =>
    have hpp : Move.piece mv = p := by simp [Move.piece, hp]
    simp only []
    split
    · rfl
    · simp only [setClocks]
      split <;> try rfl
      split <;> try rfl
      all_goals (subst hpp; rfl)

theorem tryAsLegal_setClocks (s : State) (h f : Nat) (mv : Move) :
    tryAsLegal (setClocks s h f) mv =
      (tryAsLegal s mv).map (Option.map fun r => (r.1, reclock mv s.turn h f r.2)) := by
  unfold tryAsLegal
  rw [performMove_setClocks]
  cases performMove s mv with
  | none => rfl
  | some e =>
    cases e with
    | error _ => rfl
    | ok next =>
      simp only [Option.map_some, Except.map]
      have h1 : (reclock mv s.turn h f next).pieces = next.pieces := rfl
      have h2 : (reclock mv s.turn h f next).turn = next.turn := rfl
      have h3 : (setClocks s h f).turn = s.turn := rfl
      rw [h1, h2, h3]
      split <;> rfl

/-- two `try_as_legal_move` functions that agree on the moves (not necessarily on the successors)
give the same list of legal moves -/
theorem mapM_fst_congr {α β γ : Type} (f g : α → Option (Option (β × γ))) (ps : List α)
    (h : ∀ a ∈ ps, (g a).map (Option.map Prod.fst) = (f a).map (Option.map Prod.fst)) :
    (ps.mapM g).map (fun rs => (rs.filterMap id).map Prod.fst) =
      (ps.mapM f).map (fun rs => (rs.filterMap id).map Prod.fst) := by
  induction ps with
  | nil => rfl
  | cons a ps ih =>
    have ha := h a (by simp)
    have ih' := ih (fun a' ha' => h a' (List.mem_cons_of_mem _ ha'))
    simp only [List.mapM_cons, Option.bind_eq_bind, Option.pure_def]
    cases hf : f a with
    | none =>
      cases hg : g a with
      | none => rfl
      | some y => rw [hf, hg] at ha; cases ha
    | some x =>
      cases hg : g a with
      | none => rw [hf, hg] at ha; cases ha
      | some y =>
        rw [hf, hg] at ha
        simp only [Option.map_some, Option.some.injEq] at ha
        simp only [Option.bind_some]
        cases hF : ps.mapM f with
        | none =>
          cases hG : ps.mapM g with
          | none => rfl
          | some ys => rw [hF, hG] at ih'; cases ih'
        | some xs =>
          cases hG : ps.mapM g with
          | none => rw [hF, hG] at ih'; cases ih'
          | some ys =>
            rw [hF, hG] at ih'
            simp only [Option.map_some, Option.some.injEq] at ih'
            simp only [Option.bind_some, Option.map_some, Option.some.injEq]
            cases x with
            | none =>
              cases y with
              | none => simpa using ih'
              | some y' => cases ha
            | some x' =>
              cases y with
              | none => cases ha
              | some y' =>
                simp only [Option.map_some, Option.some.injEq] at ha
                simp only [List.filterMap_cons, id_eq, List.map_cons, ha, ih']

theorem legalMoves?_setClocks (s : State) (h f : Nat) :
    (legalMoves? (setClocks s h f)).map (fun l => l.map Prod.fst) =
      (legalMoves? s).map (fun l => l.map Prod.fst) := by
  unfold legalMoves?
  rw [pseudoLegalMoves_setClocks]
  cases pseudoLegalMoves s with
  | none => rfl
  | some ps =>
    simp only [Option.bind_eq_bind, Option.bind_some, Option.pure_def]
    have := mapM_fst_congr (tryAsLegal s) (tryAsLegal (setClocks s h f)) ps (fun a _ => by
      rw [tryAsLegal_setClocks]
      cases tryAsLegal s a with
      | none => rfl
      | some r => cases r <;> rfl)
    cases h1 : ps.mapM (tryAsLegal s) with
    | none =>
      cases h2 : ps.mapM (tryAsLegal (setClocks s h f)) with
      | none => rfl
      | some _ => rw [h1, h2] at this; cases this
    | some xs =>
      cases h2 : ps.mapM (tryAsLegal (setClocks s h f)) with
      | none => rw [h1, h2] at this; cases this
      | some ys =>
        rw [h1, h2] at this
        simpa using this

/-- the clocks do not influence which moves are legal -/
theorem legalMoves_setClocks (s : State) (h f : Nat) :
    (legalMoves (setClocks s h f)).map (·.1) = (legalMoves s).map (·.1) := by
  have := legalMoves?_setClocks s h f
  unfold legalMoves
  cases h1 : legalMoves? s with
  | none =>
    cases h2 : legalMoves? (setClocks s h f) with
    | none => rfl
    | some _ => rw [h1, h2] at this; cases this
  | some xs =>
    cases h2 : legalMoves? (setClocks s h f) with
    | none => rw [h1, h2] at this; cases this
    | some ys =>
      rw [h1, h2] at this
      simpa using this

/-- same placement, side, rights and en-passant target: same legal moves, whatever the clocks -/
theorem legalMoves_congr_fields (q p : State) (h1 : q.pieces = p.pieces) (h2 : q.turn = p.turn)
    (h3 : q.castleW = p.castleW) (h4 : q.castleB = p.castleB) (h5 : q.ep = p.ep) :
    (legalMoves q).map (·.1) = (legalMoves p).map (·.1) := by
  have : q = setClocks p q.halfmove q.fullmove := by
    cases q; cases p
    simp only at h1 h2 h3 h4 h5
    subst h1 h2 h3 h4 h5
    rfl
  rw [this, legalMoves_setClocks]

/-! ### 2: an en-passant target nobody can capture on -/

theorem getBit_testBit (b : UInt32) (k : Nat) (hk : k < 32) : Move.getBit b k = b.toNat.testBit k := by
  rw [Move.getBit_eq b k hk, Nat.testBit_eq_decide_div_mod_eq]

theorem toUInt32_toNat' (k : Nat) (h : k < 2 ^ 32) : (k.toUInt32).toNat = k := by
  simp [Nat.toUInt32, UInt32.toNat_ofNat', Nat.mod_eq_of_lt h]

theorem one_shl_toNat' (k : Nat) (hk : k < 32) : ((1 : UInt32) <<< k.toUInt32).toNat = 2 ^ k := by
  have hp : 2 ^ k < 2 ^ 32 := Nat.pow_lt_pow_right (by decide) hk
  rw [UInt32.toNat_shiftLeft, toUInt32_toNat' k (by omega), Nat.mod_eq_of_lt hk]
  show (1 <<< k) % 2 ^ 32 = 2 ^ k
  rw [Nat.one_shiftLeft, Nat.mod_eq_of_lt hp]

/-- a `Move.store` does not touch a bit outside its mask -/
theorem getBit_store (data : UInt32) (off mask v k : Nat) (hk : k < 32) (hm : mask < 2 ^ 32)
    (hmk : mask.testBit k = false) : Move.getBit (Move.store data off mask v) k = Move.getBit data k := by
  rw [getBit_testBit _ _ hk, getBit_testBit _ _ hk]
  unfold Move.store
  rw [UInt32.toNat_or, Nat.testBit_or, UInt32.toNat_and, Nat.testBit_and, toUInt32_toNat' mask hm, hmk]
  simp

/-- `set_bit` does not touch the other bits -/
theorem getBit_setBit (data : UInt32) (j k : Nat) (v : Bool) (hj : j < 32) (hk : k < 32) (hjk : j ≠ k) :
    Move.getBit (Move.setBit data j v) k = Move.getBit data k := by
  rw [getBit_testBit _ _ hk, getBit_testBit _ _ hk]
  unfold Move.setBit
  cases v
  · simp only [Bool.false_eq_true, ↓reduceIte]
    rw [UInt32.toNat_and, Nat.testBit_and, UInt32.toNat_not, one_shl_toNat' j hj]
    have : UInt32.size - 1 - 2 ^ j = 2 ^ 32 - (2 ^ j + 1) := by simp [UInt32.size]
    rw [this, Nat.testBit_two_pow_sub_succ (Nat.pow_lt_pow_right (by decide) hj), Nat.testBit_two_pow]
    simp [hk, hjk]
  · simp only [↓reduceIte]
    rw [UInt32.toNat_or, Nat.testBit_or, one_shl_toNat' j hj, Nat.testBit_two_pow]
    simp [hjk]

theorem isEnPassant_zero : Move.isEnPassant 0 = false := by decide

theorem isEnPassant_byMoving (c : Color) (p : Piece) (o d : Nat) : Move.isEnPassant (Move.byMoving c p o d) = false := by
  unfold Move.isEnPassant Move.byMoving
  have h0 : Move.getBit
      (Move.setBit (Move.store (Move.store (Move.store 0 PIECE_OFFSET PIECE_MASK p.code) ORIGIN_OFFSET ORIGIN_MASK o) DEST_OFFSET DEST_MASK d)
        COLOR_OFFSET (c == .white)) EN_PASSANT_OFFSET = false := by
    rw [getBit_setBit _ _ _ _ (by decide) (by decide) (by decide),
      getBit_store _ _ _ _ _ (by decide) (by decide) (by decide),
      getBit_store _ _ _ _ _ (by decide) (by decide) (by decide),
      getBit_store _ _ _ _ _ (by decide) (by decide) (by decide)]
    decide
  simp only []
  split
  · rw [getBit_setBit _ _ _ _ (by decide) (by decide) (by decide)]; exact h0
  · exact h0

theorem isEnPassant_byCapturing (c : Color) (p : Piece) (o d : Nat) (cap : Piece) :
    Move.isEnPassant (Move.byCapturing c p o d cap) = false := by
  have := isEnPassant_byMoving c p o d
  unfold Move.isEnPassant at *
  unfold Move.byCapturing
  rw [getBit_store _ _ _ _ _ (by decide) (by decide) (by decide)]; exact this

theorem isEnPassant_byPromoting (c : Color) (p : Piece) (o d : Nat) (pr : Piece) :
    Move.isEnPassant (Move.byPromoting c p o d pr) = false := by
  have := isEnPassant_byMoving c p o d
  unfold Move.isEnPassant at *
  unfold Move.byPromoting
  rw [getBit_store _ _ _ _ _ (by decide) (by decide) (by decide)]; exact this

theorem isEnPassant_byCapturePromoting (c : Color) (p : Piece) (o d : Nat) (cap pr : Piece) :
    Move.isEnPassant (Move.byCapturePromoting c p o d cap pr) = false := by
  have := isEnPassant_byMoving c p o d
  unfold Move.isEnPassant at *
  unfold Move.byCapturePromoting
  rw [getBit_store _ _ _ _ _ (by decide) (by decide) (by decide),
    getBit_store _ _ _ _ _ (by decide) (by decide) (by decide)]; exact this

theorem isEnPassant_byCastling (c : Color) (s : Side) : Move.isEnPassant (Move.byCastling c s) = false := by
  have := isEnPassant_byMoving c .king (kingOrigins[c.idx]!) (castleDests[c.idx]![s.idx]!)
  unfold Move.isEnPassant at *
  unfold Move.byCastling
  simp only []
  rw [getBit_setBit _ _ _ _ (by decide) (by decide) (by decide),
    getBit_setBit _ _ _ _ (by decide) (by decide) (by decide)]; exact this


/-- no move of the list carries the en-passant flag -/
def NoEp (L : List Move) : Prop := ∀ m ∈ L, Move.isEnPassant m = false

theorem NoEp.append {a b : List Move} (ha : NoEp a) (hb : NoEp b) : NoEp (a ++ b) := by
  intro m hm
  rcases List.mem_append.1 hm with h | h
  · exact ha m h
  · exact hb m h

theorem mapM_some_mem {α β : Type} (f : α → Option β) (l : List α) (L : List β) (h : l.mapM f = some L) :
    ∀ x ∈ L, ∃ a ∈ l, f a = some x := by
  induction l generalizing L with
  | nil =>
    simp only [List.mapM_nil, Option.pure_def, Option.some.injEq] at h
    subst h; intro x hx; cases hx
  | cons a l ih =>
    simp only [List.mapM_cons, Option.bind_eq_bind, Option.pure_def] at h
    cases hfa : f a with
    | none => rw [hfa] at h; cases h
    | some b =>
      rw [hfa] at h
      cases hl : l.mapM f with
      | none => rw [hl] at h; cases h
      | some bs =>
        rw [hl] at h
        simp only [Option.bind_some, Option.some.injEq] at h
        subst h
        intro x hx
        rcases List.mem_cons.1 hx with e | hx
        · subst e; exact ⟨a, by simp, hfa⟩
        · obtain ⟨a', ha', h'⟩ := ih bs hl x hx
          exact ⟨a', List.mem_cons_of_mem _ ha', h'⟩

theorem noEp_pawnPushSeg (h : Helper) (L : List Move) (hL : pawnPushSeg h = some L) : NoEp L := by
  intro m hm
  obtain ⟨t, _, ht⟩ := mapM_some_mem _ _ _ hL m hm
  cases ho : offset t 0 h.us.backward with
  | none => simp [ho] at ht
  | some o =>
    simp only [ho, Option.bind_eq_bind, Option.bind_some, Option.pure_def, Option.some.injEq] at ht
    subst ht
    exact isEnPassant_byMoving _ _ _ _

theorem noEp_pawnPromoSeg (h : Helper) (LL : List (List Move)) (hL : pawnPromoSeg h = some LL) :
    NoEp LL.flatten := by
  intro m hm
  obtain ⟨l, hl, hml⟩ := List.mem_flatten.1 hm
  obtain ⟨t, _, ht⟩ := mapM_some_mem _ _ _ hL l hl
  cases ho : offset t 0 h.us.backward with
  | none => simp [ho] at ht
  | some o =>
    simp only [ho, Option.bind_eq_bind, Option.bind_some, Option.pure_def, Option.some.injEq] at ht
    subst ht
    obtain ⟨pr, _, rfl⟩ := List.mem_map.1 hml
    exact isEnPassant_byPromoting _ _ _ _ _

theorem noEp_pawnDoubleSeg (h : Helper) (L : List Move) (hL : pawnDoubleSeg h = some L) : NoEp L := by
  intro m hm
  obtain ⟨t, _, ht⟩ := mapM_some_mem _ _ _ hL m hm
  cases ho1 : offset t 0 h.us.backward with
  | none => simp [ho1] at ht
  | some o1 =>
    cases ho : offset o1 0 h.us.backward with
    | none => simp [ho1, ho] at ht
    | some o =>
      simp only [ho1, ho, Option.bind_eq_bind, Option.bind_some, Option.pure_def, Option.some.injEq] at ht
      subst ht
      exact isEnPassant_byMoving _ _ _ _

theorem noEp_pawnCapSeg (h : Helper) (east : Bool) (L : List Move) (hL : pawnCapSeg h east = some L) : NoEp L := by
  intro m hm
  obtain ⟨t, _, ht⟩ := mapM_some_mem _ _ _ hL m hm
  cases ho : offset t (invDf east) h.us.backward with
  | none => simp [ho] at ht
  | some o =>
    cases hc : capturedAt h.s t with
    | none => simp [ho, hc] at ht
    | some cap =>
      simp only [ho, hc, Option.bind_eq_bind, Option.bind_some, Option.pure_def, Option.some.injEq] at ht
      subst ht
      exact isEnPassant_byCapturing _ _ _ _ _

theorem noEp_pawnCapPromoSeg (h : Helper) (east : Bool) (LL : List (List Move))
    (hL : pawnCapPromoSeg h east = some LL) : NoEp LL.flatten := by
  intro m hm
  obtain ⟨l, hl, hml⟩ := List.mem_flatten.1 hm
  obtain ⟨t, _, ht⟩ := mapM_some_mem _ _ _ hL l hl
  cases ho : offset t (invDf east) h.us.backward with
  | none => simp [ho] at ht
  | some o =>
    cases hc : capturedAt h.s t with
    | none => simp [ho, hc] at ht
    | some cap =>
      simp only [ho, hc, Option.bind_eq_bind, Option.bind_some, Option.pure_def, Option.some.injEq] at ht
      subst ht
      obtain ⟨pr, _, rfl⟩ := List.mem_map.1 hml
      exact isEnPassant_byCapturePromoting _ _ _ _ _ _

theorem noEp_expandMoves (h : Helper) (o : Nat) (dests : UInt64) (p : Piece) : NoEp (expandMoves h o dests p) := by
  intro m hm
  unfold expandMoves at hm
  obtain ⟨t, _, rfl⟩ := List.mem_map.1 hm
  cases capturedAt h.s t with
  | none => exact isEnPassant_byMoving _ _ _ _
  | some cap => exact isEnPassant_byCapturing _ _ _ _ _

theorem noEp_knightMoves (h : Helper) : NoEp (knightMoves h) := by
  intro m hm
  unfold knightMoves at hm
  obtain ⟨sq, _, hm⟩ := List.mem_flatMap.1 hm
  exact noEp_expandMoves _ _ _ _ m hm

theorem noEp_sliderMoves (h : Helper) (p : Piece) (att : Nat → UInt64 → UInt64) : NoEp (sliderMoves h p att) := by
  intro m hm
  unfold sliderMoves at hm
  obtain ⟨sq, _, hm⟩ := List.mem_flatMap.1 hm
  exact noEp_expandMoves _ _ _ _ m hm

theorem noEp_kingMoves (h : Helper) : NoEp (kingMoves h) := by
  rw [kingMoves_eq]
  apply NoEp.append
  · intro m hm
    unfold kingStepList at hm
    obtain ⟨sq, _, hm⟩ := List.mem_flatMap.1 hm
    exact noEp_expandMoves _ _ _ _ m hm
  · intro m hm
    unfold castleList at hm
    obtain ⟨side, _, hm⟩ := List.mem_filterMap.1 hm
    split at hm
    · simp only [] at hm
      split at hm
      · cases hm; exact isEnPassant_byCastling _ _
      · cases hm
    · cases hm

/-- the en-passant block of one capture direction is empty when the mask is -/
theorem pawnEpSeg_of_none (h : Helper) (east : Bool) (hz : firstOne (epBB h east) = Option.none) :
    pawnEpSeg h east = some [] := by
  unfold pawnEpSeg; rw [hz]; rfl

theorem noEp_pawnSideSeg (h : Helper) (east : Bool) (hz : firstOne (epBB h east) = Option.none)
    (L : List Move) (hL : pawnSideSeg h east = some L) : NoEp L := by
  rw [pawnSideSeg_eq, pawnEpSeg_of_none h east hz] at hL
  cases hx : pawnCapSeg h east with
  | none => rw [hx] at hL; cases hL
  | some x =>
    cases hy : pawnCapPromoSeg h east with
    | none => rw [hx, hy] at hL; cases hL
    | some y =>
      rw [hx, hy] at hL
      simp only [Option.bind_eq_bind, Option.bind_some, Option.pure_def, Option.some.injEq] at hL
      subst hL
      rw [List.append_nil]
      exact (noEp_pawnCapSeg h east x hx).append (noEp_pawnCapPromoSeg h east y hy)

theorem noEp_pawnMoves (h : Helper) (hz : ∀ east, firstOne (epBB h east) = Option.none)
    (L : List Move) (hL : pawnMoves h = some L) : NoEp L := by
  rw [pawnMoves_eq] at hL
  cases ha : pawnPushSeg h with
  | none => rw [ha] at hL; cases hL
  | some a =>
  cases hb : pawnPromoSeg h with
  | none => rw [ha, hb] at hL; cases hL
  | some b =>
  cases hc : pawnDoubleSeg h with
  | none => rw [ha, hb, hc] at hL; cases hL
  | some c =>
  cases he : pawnSideSeg h true with
  | none => rw [ha, hb, hc, he] at hL; cases hL
  | some e =>
  cases hw : pawnSideSeg h false with
  | none => rw [ha, hb, hc, he, hw] at hL; cases hL
  | some w =>
    rw [ha, hb, hc, he, hw] at hL
    simp only [Option.bind_eq_bind, Option.bind_some, Option.pure_def, Option.some.injEq] at hL
    subst hL
    exact ((((noEp_pawnPushSeg h a ha).append (noEp_pawnPromoSeg h b hb)).append
      (noEp_pawnDoubleSeg h c hc)).append (noEp_pawnSideSeg h true (hz true) e he)).append
      (noEp_pawnSideSeg h false (hz false) w hw)

theorem noEp_pseudoLegalMoves (s : State) (hz : ∀ east, firstOne (epBB (Helper.of s) east) = Option.none)
    (L : List Move) (hL : pseudoLegalMoves s = some L) : NoEp L := by
  unfold pseudoLegalMoves at hL
  simp only [] at hL
  cases hp : pawnMoves (Helper.of s) with
  | none => rw [hp] at hL; cases hL
  | some pm =>
    rw [hp] at hL
    simp only [Option.bind_eq_bind, Option.bind_some, Option.pure_def, Option.some.injEq] at hL
    subst hL
    exact (((((noEp_pawnMoves _ hz pm hp).append (noEp_knightMoves _)).append (noEp_kingMoves _)).append
      (noEp_sliderMoves _ _ _)).append (noEp_sliderMoves _ _ _)).append (noEp_sliderMoves _ _ _)

set_option maxRecDepth 100000 in
theorem ep_capturer_table : ∀ w : Bool, ∀ t : Fin 64, ∀ o : Fin 64,
    ((t.val % 8 ≠ 0 ∧ Spec.step o.val 0 (absColor (if w then Color.white else Color.black)).fwd = some (t.val - 1)) ∨
     (t.val % 8 ≠ 7 ∧ Spec.step o.val 0 (absColor (if w then Color.white else Color.black)).fwd = some (t.val + 1))) →
    test (pawnAttacks (if w then Color.black else Color.white) t.val) o.val = true := by
  decide +kernel

theorem pawnAtt_of_not_capturable (s : State) (t : Nat) (ht : t < 64) (hep : s.ep = some t)
    (hc : epCapturable s = Option.none) (east : Bool) : test (pawnAtt (Helper.of s) east) t = false := by
  have hzero : pawnAttacks s.turn.opp t &&& s.pieces.get s.turn .pawn = 0 := by
    unfold epCapturable at hc
    rw [hep] at hc
    simp only [] at hc
    by_cases hb : bbAny (pawnAttacks s.turn.opp t &&& s.pieces.get s.turn .pawn) = true
    · rw [if_pos hb] at hc; cases hc
    · simpa [bbAny] using hb
  have hno : ∀ o, test (pawnAttacks s.turn.opp t) o = true → test (s.pieces.get s.turn .pawn) o = true → False := by
    intro o h1 h2
    have : test (pawnAttacks s.turn.opp t &&& s.pieces.get s.turn .pawn) o = true := by
      rw [test_and, h1, h2]; rfl
    rw [hzero, test_zero] at this
    cases this
  cases hcase : test (pawnAtt (Helper.of s) east) t with
  | false => rfl
  | true =>
    exfalso
    have hus : (Helper.of s).us = s.turn := rfl
    have hs : (Helper.of s).s = s := rfl
    unfold pawnAtt at hcase
    rw [hus, hs] at hcase
    have key : ∀ o, test (s.pieces.get s.turn .pawn) o = true →
        ((t % 8 ≠ 0 ∧ Spec.step o 0 (absColor s.turn).fwd = some (t - 1)) ∨
         (t % 8 ≠ 7 ∧ Spec.step o 0 (absColor s.turn).fwd = some (t + 1))) → False := by
      intro o ho hst
      have hol := test_lt _ _ ho
      apply hno o _ ho
      cases hturn : s.turn with
      | white =>
        rw [hturn] at hst
        exact ep_capturer_table true ⟨t, ht⟩ ⟨o, hol⟩ hst
      | black =>
        rw [hturn] at hst
        exact ep_capturer_table false ⟨t, ht⟩ ⟨o, hol⟩ hst
    cases east with
    | true =>
      simp only [↓reduceIte] at hcase
      rw [test_shiftE _ _ ht, Bool.and_eq_true, decide_eq_true_eq] at hcase
      obtain ⟨h8, hf⟩ := hcase
      obtain ⟨o, ho, hst⟩ := (test_shiftFwd s.turn _ (t - 1) (by omega)).1 hf
      exact key o ho (Or.inl ⟨h8, hst⟩)
    | false =>
      simp only [Bool.false_eq_true, ↓reduceIte] at hcase
      rw [test_shiftW _ _ ht, Bool.and_eq_true, decide_eq_true_eq] at hcase
      obtain ⟨h8, hf⟩ := hcase
      have ht1 : t + 1 < 64 := by omega
      obtain ⟨o, ho, hst⟩ := (test_shiftFwd s.turn _ (t + 1) ht1).1 hf
      exact key o ho (Or.inr ⟨h8, hst⟩)


/-- the same state without its en-passant target -/
def dropEp (s : State) : State := { s with ep := Option.none }

theorem firstOne_epBB_not_capturable (s : State) (t : Nat) (ht : t < 64) (hep : s.ep = some t)
    (hc : epCapturable s = Option.none) (east : Bool) : firstOne (epBB (Helper.of s) east) = Option.none := by
  rw [firstOne_epBB (Helper.of s) east t ht hep, pawnAtt_of_not_capturable s t ht hep hc east]
  rfl

theorem pawnMoves_dropEp (s : State) (t : Nat) (ht : t < 64) (hep : s.ep = some t)
    (hc : epCapturable s = Option.none) : pawnMoves (Helper.of s) = pawnMoves (Helper.of (dropEp s)) := by
  have hside : ∀ east, pawnSideSeg (Helper.of s) east = pawnSideSeg (Helper.of (dropEp s)) east := by
    intro east
    rw [pawnSideSeg_eq, pawnSideSeg_eq,
      pawnEpSeg_of_none _ east (firstOne_epBB_not_capturable s t ht hep hc east),
      pawnEpSeg_of_none _ east (firstOne_epBB_none (Helper.of (dropEp s)) east rfl)]
    rfl
  rw [pawnMoves_eq, pawnMoves_eq, hside true, hside false]
  rfl

theorem pseudoLegalMoves_dropEp (s : State) (t : Nat) (ht : t < 64) (hep : s.ep = some t)
    (hc : epCapturable s = Option.none) : pseudoLegalMoves s = pseudoLegalMoves (dropEp s) := by
  unfold pseudoLegalMoves
  simp only []
  rw [pawnMoves_dropEp s t ht hep hc]
  rfl

/-- make-move reads the en-passant target only for a move that carries the en-passant flag -/
theorem performMove_dropEp (s : State) (mv : Move) (h : Move.isEnPassant mv = false) :
    performMove s mv = performMove (dropEp s) mv := by
  unfold performMove
  simp only [h]
  rfl

theorem tryAsLegal_dropEp (s : State) (mv : Move) (h : Move.isEnPassant mv = false) :
    tryAsLegal s mv = tryAsLegal (dropEp s) mv := by
  unfold tryAsLegal
  rw [performMove_dropEp s mv h]
  rfl

theorem mapM_congr_mem {α β : Type} (f g : α → Option β) (l : List α) (h : ∀ a ∈ l, f a = g a) :
    l.mapM f = l.mapM g := by
  induction l with
  | nil => rfl
  | cons a l ih =>
    rw [List.mapM_cons, List.mapM_cons, h a (by simp), ih (fun a' ha' => h a' (List.mem_cons_of_mem _ ha'))]

/-- an en-passant target on which no pawn of the side to move can capture changes nothing -/
theorem legalMoves?_dropEp (s : State) (t : Nat) (ht : t < 64) (hep : s.ep = some t)
    (hc : epCapturable s = Option.none) : legalMoves? s = legalMoves? (dropEp s) := by
  unfold legalMoves?
  rw [pseudoLegalMoves_dropEp s t ht hep hc]
  cases hps : pseudoLegalMoves (dropEp s) with
  | none => rfl
  | some ps =>
    have hno := noEp_pseudoLegalMoves (dropEp s)
      (fun east => firstOne_epBB_none (Helper.of (dropEp s)) east rfl) ps hps
    simp only [Option.bind_eq_bind, Option.bind_some]
    rw [mapM_congr_mem (tryAsLegal s) (tryAsLegal (dropEp s)) ps (fun a ha => tryAsLegal_dropEp s a (hno a ha))]

/-! ### 3: the key decides the legal moves -/

/-- the en-passant target, if any, is a square of the board on the rank the side to move implies
(rank 6 when White is to move, rank 3 when Black is).  Every `LegalPos` satisfies it. -/
def EpOK (s : State) : Prop :=
  ∀ t, s.ep = some t → t < 64 ∧ rankOf t = (match s.turn with | .white => 5 | .black => 2)

/-- normal form: keep the en-passant target only if a capture is available -/
def normEp (s : State) : State := { s with ep := epCapturable s }

theorem epCapturable_cases (s : State) : epCapturable s = s.ep ∨ (epCapturable s = Option.none ∧ ∃ t, s.ep = some t) := by
  unfold epCapturable
  cases hep : s.ep with
  | none => exact Or.inl rfl
  | some t =>
    simp only []
    split
    · exact Or.inl rfl
    · exact Or.inr ⟨rfl, t, rfl⟩

theorem legalMoves?_normEp (s : State) (hok : EpOK s) : legalMoves? s = legalMoves? (normEp s) := by
  rcases epCapturable_cases s with h | ⟨h, t, hep⟩
  · have : normEp s = s := by unfold normEp; rw [h]
    rw [this]
  · have : normEp s = dropEp s := by unfold normEp dropEp; rw [h]
    rw [this]
    exact legalMoves?_dropEp s t (hok t hep).1 hep h

theorem epCapturable_eq_of_key (q p : State) (hk : key q = key p) (hq : EpOK q) (hp : EpOK p) :
    epCapturable q = epCapturable p := by
  simp only [key, Prod.mk.injEq] at hk
  obtain ⟨_, hturn, _, _, hf⟩ := hk
  unfold epFile? at hf
  have hsub : ∀ s : State, ∀ t, epCapturable s = some t → s.ep = some t := by
    intro s t h
    rcases epCapturable_cases s with h' | ⟨h', _⟩
    · rw [← h', h]
    · rw [h'] at h; cases h
  cases hcq : epCapturable q with
  | none =>
    cases hcp : epCapturable p with
    | none => rfl
    | some tp => rw [hcq, hcp] at hf; cases hf
  | some tq =>
    cases hcp : epCapturable p with
    | none => rw [hcq, hcp] at hf; cases hf
    | some tp =>
      rw [hcq, hcp] at hf
      simp only [Option.map_some, Option.some.injEq] at hf
      obtain ⟨_, hrq⟩ := hq tq (hsub q tq hcq)
      obtain ⟨_, hrp⟩ := hp tp (hsub p tp hcp)
      rw [hturn] at hrq
      have hr : rankOf tq = rankOf tp := by rw [hrq, hrp]
      unfold fileOf at hf
      unfold rankOf at hr
      have : tq = tp := by omega
      rw [this]

/-- **the legal moves are a function of the rule-relevant key**: positions with the same placement, side to move,
castling rights and available en-passant capture have the same legal moves, whatever their clocks are and
whether or not they carry an en-passant target nobody can capture on -/
theorem legalMoves_congr_key (q p : State) (hk : key q = key p) (hq : EpOK q) (hp : EpOK p) :
    (legalMoves q).map (·.1) = (legalMoves p).map (·.1) := by
  have hq' : legalMoves q = legalMoves (normEp q) := by unfold legalMoves; rw [legalMoves?_normEp q hq]
  have hp' : legalMoves p = legalMoves (normEp p) := by unfold legalMoves; rw [legalMoves?_normEp p hp]
  rw [hq', hp']
  have he := epCapturable_eq_of_key q p hk hq hp
  simp only [key, Prod.mk.injEq] at hk
  obtain ⟨h1, h2, h3, h4, _⟩ := hk
  exact legalMoves_congr_fields (normEp q) (normEp p) h1 h2 h3 h4 he

theorem EpOK_of_legalPos (s : State) (h : LegalPos s = true) : EpOK s := by
  intro e he
  unfold LegalPos Spec.LegalPos at h
  simp only [Bool.and_eq_true] at h
  have h10 := h.2
  rw [abs_ep, he] at h10
  simp only [Bool.and_eq_true, beq_iff_eq, Bool.not_eq_true'] at h10
  obtain ⟨⟨⟨h1, _⟩, _⟩, _⟩ := h10
  have hturn : (abs s).turn = absColor s.turn := rfl
  rw [hturn] at h1
  unfold rankOf
  revert h1
  cases s.turn <;> simp only [absColor, Spec.Color.opp] <;> omega

/-! ## the positions of a game are legal positions (C01 / C02) -/

open Wee.C10 (DisjointBoard) in
/-- every position a game passes through is a legal position without stacked pieces, and every recorded move
reads as a legal move of the rules of chess there -/
theorem Plays.legalPos {s : State} {ts : List (List Char)} {l : List (State × Move)} (h : Plays s ts l)
    (hl : LegalPos s = true) (hd : DisjointBoard s.pieces) {q : State} {m : Move} (hm : (q, m) ∈ l) :
    LegalPos q = true ∧ DisjointBoard q.pieces ∧
      ∃ sm, toSpecMove m = some sm ∧ sm ∈ Spec.legalMoves (abs q) := by
  induction h with
  | nil => cases hm
  | @cons s s' t mv ts l h1 _ ih =>
    obtain ⟨qr, ms, _, hms, hf⟩ := (stepToken_ok_iff _ _ _ _).1 h1
    have hmem : (mv, s') ∈ legalMoves s := by
      unfold legalMoves; rw [hms]; exact List.mem_of_find?_eq_some hf
    obtain ⟨sm, h2, h3, _, h5, h6⟩ := (C01_legal_results s hl hd).2 _ hmem
    rcases List.mem_cons.1 hm with e | hm
    · cases e
      exact ⟨hl, hd, sm, h2, h3⟩
    · exact ih h6 h5 hm

open Wee.C10 (DisjointBoard) in
/-- on legal positions the `scan` closure cannot hit the `unwrap`s of move generation -/
theorem stepToken_ne_panic (s : State) (hl : LegalPos s = true) (hd : DisjointBoard s.pieces) (t : List Char) :
    stepToken s t ≠ .error .panic := by
  obtain ⟨L, hL⟩ := (C01_legal_results s hl hd).1
  unfold stepToken
  cases parseSanChars t with
  | none => simp
  | some q =>
    rw [hL]
    simp only []
    cases L.find? (fun r => q.test r.1) <;> simp

theorem startState_legalPos : LegalPos startState = true := by decide +kernel

open Wee.C10 (DisjointBoard) in
theorem startState_disjoint : DisjointBoard startState.pieces := by decide +kernel

end Wee.Book
