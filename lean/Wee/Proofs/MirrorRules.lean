import Wee.Proofs.EvalMirror
import Wee.Proofs.MoveGenLemmas
import Wee.Proofs.ApplyClosed
/-!
# The rules of chess are colour-mirror symmetric (used by `C13_mirror_closed`)

`Spec.mirrorPos` flips the ranks of a mailbox position and swaps the colours, the side to move and the castling
rights.  Everything the specification computes is equivariant: `step`, `attacksFrom`, `attackedBy`, `inCheck`,
the pseudo-legal generators, `applyMove`, `isLegalAfter`, `legalMoves` (as a membership statement, which is what the
terminal tests of the evaluator need) and `LegalPos`.

The statements are proved for a *pair* of positions related by `Spec.Mirror P Q` (cell `flip sq` of `Q` is the
colour-swapped cell `sq` of `P`, side to move, rights and en-passant square correspond).  The relation is symmetric,
so each implication gives the converse for free.  It holds for `(P, mirrorPos P)`; its cell part `Spec.MirrorAt`
(all that `attackedBy` / `inCheck` look at) also holds — without any array reasoning — for the successors
`(applyMove P m, applyMove Q (mirrorMove m))`, which gives the equivariance of `isLegalAfter`.

Part 2 shows that the abstraction commutes with the mirrors: `abs (mirrorState s) = Spec.mirrorPos (abs s)`.
-/
namespace Wee.Spec

/-- the rank flip of a square (`a1 ↔ a8`) -/
def flip (sq : Nat) : Nat := (7 - sq / 8) * 8 + sq % 8

/-- a cell with the colour swapped -/
def mirrorCell (x : Option (Color × Kind)) : Option (Color × Kind) := x.map fun ck => (ck.1.opp, ck.2)

/-- the colour-mirrored position: cell `sq` holds the colour-swapped content of cell `flip sq`, the side to move
and the castling rights are swapped, the en-passant square is flipped, the counters are kept -/
def mirrorPos (p : Pos) : Pos :=
  { cells := (Array.range 64).map fun i => mirrorCell (p.at (flip i))
    turn := p.turn.opp
    wk := p.bk, wq := p.bq, bk := p.wk, bq := p.wq
    ep := p.ep.map flip
    halfmove := p.halfmove, fullmove := p.fullmove }

/-- the mirrored move: colour swapped, squares flipped, every other attribute kept -/
def mirrorMove (m : SMove) : SMove := { m with color := m.color.opp, src := flip m.src, dst := flip m.dst }

/-! ## squares -/

theorem flip_lt {n : Nat} (_h : n < 64) : flip n < 64 := by unfold flip; omega
theorem flip_flip {n : Nat} (h : n < 64) : flip (flip n) = n := by unfold flip; omega
theorem flip_inj {a b : Nat} (ha : a < 64) (hb : b < 64) (h : flip a = flip b) : a = b := by
  unfold flip at h; omega
theorem flip_ne {a b : Nat} (ha : a < 64) (hb : b < 64) (h : a ≠ b) : flip a ≠ flip b :=
  fun e => h (flip_inj ha hb e)
theorem flip_div {n : Nat} (_h : n < 64) : flip n / 8 = 7 - n / 8 := by unfold flip; omega
theorem flip_mod (n : Nat) : flip n % 8 = n % 8 := by unfold flip; omega

theorem opp_opp (c : Color) : c.opp.opp = c := by cases c <;> rfl
theorem fwd_opp (c : Color) : c.opp.fwd = -c.fwd := by cases c <;> rfl
theorem opp_inj {c d : Color} (h : c.opp = d.opp) : c = d := by cases c <;> cases d <;> first | rfl | cases h

theorem mirrorCell_mirrorCell (x : Option (Color × Kind)) : mirrorCell (mirrorCell x) = x := by
  cases x with
  | none => rfl
  | some ck => obtain ⟨c, k⟩ := ck; simp [mirrorCell, opp_opp]

theorem mirrorCell_none : mirrorCell none = none := rfl
theorem mirrorCell_some (c : Color) (k : Kind) : mirrorCell (some (c, k)) = some (c.opp, k) := rfl

theorem mirrorCell_eq_some {x : Option (Color × Kind)} {c : Color} {k : Kind} :
    mirrorCell x = some (c.opp, k) ↔ x = some (c, k) := by
  cases x with
  | none => simp [mirrorCell]
  | some ck =>
    obtain ⟨c', k'⟩ := ck
    simp only [mirrorCell, Option.map_some, Option.some.injEq, Prod.mk.injEq]
    constructor
    · rintro ⟨h1, h2⟩; exact ⟨opp_inj h1, h2⟩
    · rintro ⟨h1, h2⟩; exact ⟨by rw [h1], h2⟩

theorem mirrorCell_eq_none {x : Option (Color × Kind)} : mirrorCell x = none ↔ x = none := by
  cases x <;> simp [mirrorCell]

theorem mirrorCell_isSome (x : Option (Color × Kind)) : (mirrorCell x).isSome = x.isSome := by
  cases x <;> rfl

/-- **`step` is equivariant**: stepping from the flipped square with the rank direction negated lands on the
flipped square -/
theorem step_flip {sq : Nat} (h : sq < 64) (df dr : Int) : step (flip sq) df (-dr) = (step sq df dr).map flip := by
  have h1 : flip sq % 8 = sq % 8 := flip_mod sq
  have h2 : flip sq / 8 = 7 - sq / 8 := flip_div h
  unfold step
  simp only [h1, h2]
  by_cases hc : 0 ≤ ((sq % 8 : Nat) : Int) + df ∧ ((sq % 8 : Nat) : Int) + df ≤ 7 ∧
      0 ≤ ((sq / 8 : Nat) : Int) + dr ∧ ((sq / 8 : Nat) : Int) + dr ≤ 7
  · rw [if_pos hc, if_pos (by omega), Option.map_some]
    congr 1
    unfold flip
    omega
  · rw [if_neg hc, if_neg (by omega)]; rfl

theorem step_flip' {sq : Nat} (h : sq < 64) (df dr : Int) : step (flip sq) df dr = (step sq df (-dr)).map flip := by
  have := step_flip h df (-dr); rwa [Int.neg_neg] at this

theorem step_flip_some {sq t : Nat} {df dr : Int} (h : sq < 64) (hs : step sq df dr = some t) :
    step (flip sq) df (-dr) = some (flip t) := by rw [step_flip h, hs]; rfl

/-! ## attacks -/

/-- a direction list closed under negation of the rank component -/
def RankClosed (dirs : List (Int × Int)) : Prop := ∀ d ∈ dirs, (d.1, -d.2) ∈ dirs

theorem rankClosed_knight : RankClosed knightJumps := by unfold RankClosed; decide
theorem rankClosed_king : RankClosed kingSteps := by unfold RankClosed; decide
theorem rankClosed_rook : RankClosed rookDirs := by unfold RankClosed; decide
theorem rankClosed_bishop : RankClosed bishopDirs := by unfold RankClosed; decide
theorem rankClosed_queen : RankClosed (rookDirs ++ bishopDirs) := by unfold RankClosed; decide

theorem mem_filterMap_step_flip {dirs : List (Int × Int)} (hc : RankClosed dirs) {s t : Nat} (hs : s < 64)
    (h : t ∈ dirs.filterMap fun d => step s d.1 d.2) :
    flip t ∈ dirs.filterMap fun d => step (flip s) d.1 d.2 := by
  rw [List.mem_filterMap] at h ⊢
  obtain ⟨d, hd, hst⟩ := h
  exact ⟨(d.1, -d.2), hc d hd, step_flip_some hs hst⟩

theorem slideDir_flip (occP occQ : Nat → Bool) (hocc : ∀ n, n < 64 → occQ (flip n) = occP n) (df dr : Int) :
    ∀ (fuel sq : Nat), sq < 64 →
      slideDir occQ df (-dr) fuel (flip sq) = (slideDir occP df dr fuel sq).map flip := by
  intro fuel
  induction fuel with
  | zero => intro sq _; rfl
  | succ fuel ih =>
    intro sq hsq
    unfold slideDir
    rw [step_flip hsq]
    cases hst : step sq df dr with
    | none => rfl
    | some n =>
      have hn := Wee.step_lt hst
      simp only [Option.map_some]
      rw [hocc n hn]
      cases occP n
      · simp only [Bool.false_eq_true, if_false, List.map_cons]
        rw [ih n hn]
      · simp only [if_true, List.map_cons, List.map_nil]

theorem mem_slide_flip (occP occQ : Nat → Bool) (hocc : ∀ n, n < 64 → occQ (flip n) = occP n)
    {dirs : List (Int × Int)} (hc : RankClosed dirs) {s t : Nat} (hs : s < 64) (h : t ∈ slide occP dirs s) :
    flip t ∈ slide occQ dirs (flip s) := by
  unfold slide at h ⊢
  rw [List.mem_flatMap] at h ⊢
  obtain ⟨d, hd, ht⟩ := h
  refine ⟨(d.1, -d.2), hc d hd, ?_⟩
  show flip t ∈ slideDir occQ d.1 (-d.2) 8 (flip s)
  rw [slideDir_flip occP occQ hocc d.1 d.2 8 s hs]
  exact List.mem_map_of_mem ht

/-- **`attacksFrom` is equivariant** (membership form): what a piece of colour `c` attacks from `s`, the same
kind of piece of the other colour attacks, flipped, from `flip s` on the flipped occupancy -/
theorem mem_attacksFrom_flip (occP occQ : Nat → Bool) (hocc : ∀ n, n < 64 → occQ (flip n) = occP n)
    (c : Color) (k : Kind) {s t : Nat} (hs : s < 64) (h : t ∈ attacksFrom occP c k s) :
    flip t ∈ attacksFrom occQ c.opp k (flip s) := by
  cases k with
  | pawn =>
    simp only [attacksFrom, List.mem_filterMap, List.mem_cons, List.not_mem_nil, or_false] at h ⊢
    obtain ⟨d, hd, hst⟩ := h
    refine ⟨(d.1, -d.2), ?_, step_flip_some hs hst⟩
    rw [fwd_opp]
    rcases hd with rfl | rfl
    · exact Or.inl rfl
    · exact Or.inr rfl
  | knight => exact mem_filterMap_step_flip rankClosed_knight hs h
  | king => exact mem_filterMap_step_flip rankClosed_king hs h
  | rook => exact mem_slide_flip occP occQ hocc rankClosed_rook hs h
  | bishop => exact mem_slide_flip occP occQ hocc rankClosed_bishop hs h
  | queen => exact mem_slide_flip occP occQ hocc rankClosed_queen hs h


/-- `attacksFrom` equivariance as an equivalence -/
theorem mem_attacksFrom_flip_iff (occP occQ : Nat → Bool) (hocc : ∀ n, n < 64 → occQ (flip n) = occP n)
    (c : Color) (k : Kind) {s t : Nat} (hs : s < 64) (ht : t < 64) :
    flip t ∈ attacksFrom occQ c.opp k (flip s) ↔ t ∈ attacksFrom occP c k s := by
  constructor
  · intro h
    have hocc' : ∀ n, n < 64 → occP (flip n) = occQ n := by
      intro n hn
      have := hocc (flip n) (flip_lt hn)
      rw [flip_flip hn] at this
      exact this.symm
    have := mem_attacksFrom_flip occQ occP hocc' c.opp k (flip_lt hs) h
    rwa [opp_opp, flip_flip hs, flip_flip ht] at this
  · exact mem_attacksFrom_flip occP occQ hocc c k hs


/-! ## the mirror relation between two positions -/

/-- cell level: cell `flip sq` of `Q` is the colour-swapped cell `sq` of `P` -/
def MirrorAt (P Q : Pos) : Prop := ∀ sq, sq < 64 → Q.at (flip sq) = mirrorCell (P.at sq)

theorem MirrorAt.symm {P Q : Pos} (h : MirrorAt P Q) : MirrorAt Q P := by
  intro sq hsq
  have := h (flip sq) (flip_lt hsq)
  rw [flip_flip hsq] at this
  rw [this, mirrorCell_mirrorCell]

theorem MirrorAt.occupied {P Q : Pos} (h : MirrorAt P Q) {n : Nat} (hn : n < 64) :
    Q.occupied (flip n) = P.occupied n := by
  unfold Pos.occupied; rw [h n hn, mirrorCell_isSome]

theorem MirrorAt.at_some {P Q : Pos} (h : MirrorAt P Q) {n : Nat} (hn : n < 64) {c : Color} {k : Kind}
    (hat : P.at n = some (c, k)) : Q.at (flip n) = some (c.opp, k) := by rw [h n hn, hat]; rfl

theorem MirrorAt.at_none {P Q : Pos} (h : MirrorAt P Q) {n : Nat} (hn : n < 64)
    (hat : P.at n = none) : Q.at (flip n) = none := by rw [h n hn, hat]; rfl

/-- **`attackedBy` is equivariant** (one direction; the relation is symmetric) -/
theorem MirrorAt.attackedBy_imp {P Q : Pos} (h : MirrorAt P Q) (c : Color) {t : Nat}
    (ha : P.attackedBy c t = true) : Q.attackedBy c.opp (flip t) = true := by
  rw [Wee.C10.attackedBy_iff] at ha ⊢
  obtain ⟨s, hs, k, hat, hm⟩ := ha
  exact ⟨flip s, flip_lt hs, k, h.at_some hs hat,
    mem_attacksFrom_flip P.occupied Q.occupied (fun n hn => h.occupied hn) c k hs hm⟩

theorem attackedBy_lt {P : Pos} {c : Color} {t : Nat} (ha : P.attackedBy c t = true) : t < 64 := by
  rw [Wee.C10.attackedBy_iff] at ha
  obtain ⟨s, _, k, _, hm⟩ := ha
  exact Wee.attacksFrom_lt _ _ _ _ _ hm

/-- **`attackedBy` is equivariant** -/
theorem MirrorAt.attackedBy {P Q : Pos} (h : MirrorAt P Q) (c : Color) {t : Nat} (ht : t < 64) :
    Q.attackedBy c.opp (flip t) = P.attackedBy c t := by
  rw [Bool.eq_iff_iff]
  constructor
  · intro ha
    have := h.symm.attackedBy_imp c.opp ha
    rwa [opp_opp, flip_flip ht] at this
  · exact h.attackedBy_imp c

theorem MirrorAt.inCheck_imp {P Q : Pos} (h : MirrorAt P Q) (c : Color) (hc : P.inCheck c = true) :
    Q.inCheck c.opp = true := by
  rw [Wee.C10.inCheck_iff] at hc ⊢
  obtain ⟨s, hs, hat, ha⟩ := hc
  exact ⟨flip s, flip_lt hs, h.at_some hs hat, h.attackedBy_imp c.opp ha⟩

/-- **`inCheck` is equivariant** -/
theorem MirrorAt.inCheck {P Q : Pos} (h : MirrorAt P Q) (c : Color) : Q.inCheck c.opp = P.inCheck c := by
  rw [Bool.eq_iff_iff]
  constructor
  · intro hc
    have := h.symm.inCheck_imp c.opp hc
    rwa [opp_opp] at this
  · exact h.inCheck_imp c

/-- the full relation: cells, side to move, castling rights, en-passant square (and both boards have 64 cells) -/
structure Mirror (P Q : Pos) : Prop where
  cell : MirrorAt P Q
  szP : P.cells.size = 64
  szQ : Q.cells.size = 64
  turn : Q.turn = P.turn.opp
  wk : Q.wk = P.bk
  wq : Q.wq = P.bq
  bk : Q.bk = P.wk
  bq : Q.bq = P.wq
  ep : Q.ep = P.ep.map flip
  epLt : ∀ e, P.ep = some e → e < 64

theorem Mirror.symm {P Q : Pos} (h : Mirror P Q) : Mirror Q P where
  cell := h.cell.symm
  szP := h.szQ
  szQ := h.szP
  turn := by rw [h.turn, opp_opp]
  wk := h.bk.symm
  wq := h.bq.symm
  bk := h.wk.symm
  bq := h.wq.symm
  ep := by
    rw [h.ep]
    cases he : P.ep with
    | none => rfl
    | some e => simp [flip_flip (h.epLt e he)]
  epLt := by
    intro e he
    rw [h.ep] at he
    cases he' : P.ep with
    | none => rw [he'] at he; cases he
    | some e' =>
      rw [he'] at he
      simp only [Option.map_some, Option.some.injEq] at he
      rw [← he]; exact flip_lt (h.epLt e' he')

theorem mirrorPos_at (p : Pos) {sq : Nat} (h : sq < 64) : (mirrorPos p).at sq = mirrorCell (p.at (flip sq)) := by
  show (if sq < 64 then (mirrorPos p).cells.getD sq none else none) = _
  rw [if_pos h]
  simp [mirrorPos, h]

/-- a position and its mirror are related -/
theorem mirror_mirrorPos (p : Pos) (hsz : p.cells.size = 64) (hep : ∀ e, p.ep = some e → e < 64) :
    Mirror p (mirrorPos p) where
  cell := by
    intro sq hsq
    rw [mirrorPos_at p (flip_lt hsq), flip_flip hsq]
  szP := hsz
  szQ := by simp [mirrorPos]
  turn := rfl
  wk := rfl
  wq := rfl
  bk := rfl
  bq := rfl
  ep := rfl
  epLt := hep

/-! ## pseudo-legal moves -/

theorem mirrorMove_mirrorMove (m : SMove) (hs : m.src < 64) (hd : m.dst < 64) : mirrorMove (mirrorMove m) = m := by
  cases m
  simp only [mirrorMove, opp_opp] at hs hd ⊢
  rw [flip_flip hs, flip_flip hd]

theorem lastRank_flip (c : Color) {t : Nat} (ht : t < 64) : flip t / 8 = lastRank c.opp ↔ t / 8 = lastRank c := by
  rw [flip_div ht]; cases c <;> simp only [lastRank, Color.opp] <;> omega

theorem homeRank_flip (c : Color) {t : Nat} (ht : t < 64) : flip t / 8 = homeRank c.opp ↔ t / 8 = homeRank c := by
  rw [flip_div ht]; cases c <;> simp only [homeRank, Color.opp] <;> omega

theorem withPromo_mirror {c : Color} {m sm : SMove} (hd : m.dst < 64) (h : sm ∈ Wee.withPromo c m) :
    mirrorMove sm ∈ Wee.withPromo c.opp (mirrorMove m) := by
  rw [Wee.mem_withPromo] at h ⊢
  have hl : (mirrorMove m).dst / 8 = lastRank c.opp ↔ m.dst / 8 = lastRank c := lastRank_flip c hd
  rcases h with ⟨h1, k, hk, rfl⟩ | ⟨h1, rfl⟩
  · exact Or.inl ⟨hl.2 h1, k, hk, rfl⟩
  · exact Or.inr ⟨fun e => h1 (hl.1 e), rfl⟩

theorem sPush1_mirror {P Q : Pos} (h : MirrorAt P Q) {c : Color} {s : Nat} {sm : SMove} (hs : s < 64)
    (hm : sm ∈ Wee.sPush1 P c s) : mirrorMove sm ∈ Wee.sPush1 Q c.opp (flip s) := by
  rw [Wee.mem_sPush1] at hm ⊢
  obtain ⟨t, hst, hocc, hw⟩ := hm
  have ht := Wee.step_lt hst
  refine ⟨flip t, ?_, ?_, withPromo_mirror (m := Wee.pawnBase c s t none) ht hw⟩
  · rw [fwd_opp]; exact step_flip_some hs hst
  · rw [h.occupied ht]; exact hocc

theorem sPush2_mirror {P Q : Pos} (h : MirrorAt P Q) {c : Color} {s : Nat} {sm : SMove} (hs : s < 64)
    (hm : sm ∈ Wee.sPush2 P c s) : mirrorMove sm ∈ Wee.sPush2 Q c.opp (flip s) := by
  rw [Wee.mem_sPush2] at hm ⊢
  obtain ⟨hr, t1, t2, h1, h2, ho1, ho2, rfl⟩ := hm
  have ht1 := Wee.step_lt h1
  have ht2 := Wee.step_lt h2
  refine ⟨(homeRank_flip c hs).2 hr, flip t1, flip t2, ?_, ?_, ?_, ?_, rfl⟩
  · rw [fwd_opp]; exact step_flip_some hs h1
  · rw [fwd_opp]; exact step_flip_some ht1 h2
  · rw [h.occupied ht1]; exact ho1
  · rw [h.occupied ht2]; exact ho2

theorem sCapAt_mirror {P Q : Pos} (h : Mirror P Q) {c : Color} {s t : Nat} {sm : SMove} (ht : t < 64)
    (hm : sm ∈ Wee.sCapAt P c s t) : mirrorMove sm ∈ Wee.sCapAt Q c.opp (flip s) (flip t) := by
  rw [Wee.mem_sCapAt] at hm ⊢
  rcases hm with ⟨k, hat, hw⟩ | ⟨hat, hep, rfl⟩
  · exact Or.inl ⟨k, h.cell.at_some ht hat, withPromo_mirror (m := Wee.pawnBase c s t (some k)) ht hw⟩
  · refine Or.inr ⟨h.cell.at_none ht hat, ?_, rfl⟩
    rw [h.ep, hep]; rfl

theorem sCaps_mirror {P Q : Pos} (h : Mirror P Q) {c : Color} {s : Nat} {sm : SMove} (hs : s < 64)
    (hm : sm ∈ Wee.sCaps P c s) : mirrorMove sm ∈ Wee.sCaps Q c.opp (flip s) := by
  rw [Wee.mem_sCaps] at hm ⊢
  obtain ⟨east, t, hst, hc⟩ := hm
  refine ⟨east, flip t, ?_, sCapAt_mirror h (Wee.step_lt hst) hc⟩
  rw [fwd_opp]; exact step_flip_some hs hst

/-- **the pawn generator is equivariant** -/
theorem pawnMovesFrom_mirror {P Q : Pos} (h : Mirror P Q) {c : Color} {s : Nat} {sm : SMove} (hs : s < 64)
    (hm : sm ∈ pawnMovesFrom P c s) : mirrorMove sm ∈ pawnMovesFrom Q c.opp (flip s) := by
  rw [Wee.pawnMovesFrom_eq] at hm ⊢
  simp only [List.mem_append] at hm ⊢
  rcases hm with (hm | hm) | hm
  · exact Or.inl (Or.inl (sPush1_mirror h.cell hs hm))
  · exact Or.inl (Or.inr (sPush2_mirror h.cell hs hm))
  · exact Or.inr (sCaps_mirror h hs hm)

theorem specStep_mirror {P Q : Pos} (h : MirrorAt P Q) (c : Color) (k : Kind) (s : Nat) {t : Nat} (ht : t < 64) :
    mirrorMove (Wee.specStep P c k s t) = Wee.specStep Q c.opp k (flip s) (flip t) := by
  unfold Wee.specStep
  rw [h t ht]
  cases P.at t with
  | none => rfl
  | some ck => rfl

/-- **the piece generator is equivariant** -/
theorem pieceMovesFrom_mirror {P Q : Pos} (h : MirrorAt P Q) {c : Color} {k : Kind} {s : Nat} {sm : SMove}
    (hs : s < 64) (hm : sm ∈ pieceMovesFrom P c k s) : mirrorMove sm ∈ pieceMovesFrom Q c.opp k (flip s) := by
  rw [Wee.mem_pieceMovesFrom] at hm ⊢
  obtain ⟨t, hatt, hown, rfl⟩ := hm
  have ht := Wee.attacksFrom_lt _ _ _ _ _ hatt
  refine ⟨flip t, mem_attacksFrom_flip P.occupied Q.occupied (fun n hn => h.occupied hn) c k hs hatt, ?_,
    specStep_mirror h c k s ht⟩
  intro k' e
  rw [h t ht] at e
  exact hown k' (mirrorCell_eq_some.1 e)


/-- the king-side condition of `castleMoves` -/
def ksCond (P : Pos) (c : Color) : Bool :=
  (match c with | .white => P.wk | .black => P.bk) &&
    !P.occupied (kingHome c + 1) && !P.occupied (kingHome c + 2) &&
    !P.attackedBy c.opp (kingHome c) && !P.attackedBy c.opp (kingHome c + 1) && !P.attackedBy c.opp (kingHome c + 2)

/-- the queen-side condition of `castleMoves` -/
def qsCond (P : Pos) (c : Color) : Bool :=
  (match c with | .white => P.wq | .black => P.bq) &&
    !P.occupied (kingHome c - 1) && !P.occupied (kingHome c - 2) && !P.occupied (kingHome c - 3) &&
    !P.attackedBy c.opp (kingHome c) && !P.attackedBy c.opp (kingHome c - 1) && !P.attackedBy c.opp (kingHome c - 2)

def castleListOf (ks qs : Bool) (c : Color) : List SMove :=
  (if ks then [{ color := c, kind := .king, src := kingHome c, dst := kingHome c + 2, castle := some true }] else []) ++
  (if qs then [{ color := c, kind := .king, src := kingHome c, dst := kingHome c - 2, castle := some false }] else [])

theorem castleMoves_eq (P : Pos) (c : Color) : castleMoves P c = castleListOf (ksCond P c) (qsCond P c) c := rfl

theorem castleListOf_mirror (ks qs : Bool) (c : Color) :
    castleListOf ks qs c.opp = (castleListOf ks qs c).map mirrorMove := by
  cases c <;> cases ks <;> cases qs <;> rfl

theorem ksCond_mirror {P Q : Pos} (h : Mirror P Q) (c : Color) : ksCond Q c.opp = ksCond P c := by
  have ho : ∀ n, n < 64 → Q.occupied (flip n) = P.occupied n := fun n hn => h.cell.occupied hn
  have ha : ∀ n, n < 64 → Q.attackedBy c.opp.opp (flip n) = P.attackedBy c.opp n :=
    fun n hn => h.cell.attackedBy c.opp hn
  cases c with
  | white =>
    have o5 : Q.occupied 61 = P.occupied 5 := ho 5 (by omega)
    have o6 : Q.occupied 62 = P.occupied 6 := ho 6 (by omega)
    have a4 : Q.attackedBy .white 60 = P.attackedBy .black 4 := ha 4 (by omega)
    have a5 : Q.attackedBy .white 61 = P.attackedBy .black 5 := ha 5 (by omega)
    have a6 : Q.attackedBy .white 62 = P.attackedBy .black 6 := ha 6 (by omega)
    show (Q.bk && !Q.occupied 61 && !Q.occupied 62 && !Q.attackedBy .white 60 && !Q.attackedBy .white 61 &&
      !Q.attackedBy .white 62) = (P.wk && !P.occupied 5 && !P.occupied 6 && !P.attackedBy .black 4 &&
      !P.attackedBy .black 5 && !P.attackedBy .black 6)
    rw [o5, o6, a4, a5, a6, h.bk]
  | black =>
    have o5 : Q.occupied 5 = P.occupied 61 := ho 61 (by omega)
    have o6 : Q.occupied 6 = P.occupied 62 := ho 62 (by omega)
    have a4 : Q.attackedBy .black 4 = P.attackedBy .white 60 := ha 60 (by omega)
    have a5 : Q.attackedBy .black 5 = P.attackedBy .white 61 := ha 61 (by omega)
    have a6 : Q.attackedBy .black 6 = P.attackedBy .white 62 := ha 62 (by omega)
    show (Q.wk && !Q.occupied 5 && !Q.occupied 6 && !Q.attackedBy .black 4 && !Q.attackedBy .black 5 &&
      !Q.attackedBy .black 6) = (P.bk && !P.occupied 61 && !P.occupied 62 && !P.attackedBy .white 60 &&
      !P.attackedBy .white 61 && !P.attackedBy .white 62)
    rw [o5, o6, a4, a5, a6, h.wk]

theorem qsCond_mirror {P Q : Pos} (h : Mirror P Q) (c : Color) : qsCond Q c.opp = qsCond P c := by
  have ho : ∀ n, n < 64 → Q.occupied (flip n) = P.occupied n := fun n hn => h.cell.occupied hn
  have ha : ∀ n, n < 64 → Q.attackedBy c.opp.opp (flip n) = P.attackedBy c.opp n :=
    fun n hn => h.cell.attackedBy c.opp hn
  cases c with
  | white =>
    have o3 : Q.occupied 59 = P.occupied 3 := ho 3 (by omega)
    have o2 : Q.occupied 58 = P.occupied 2 := ho 2 (by omega)
    have o1 : Q.occupied 57 = P.occupied 1 := ho 1 (by omega)
    have a4 : Q.attackedBy .white 60 = P.attackedBy .black 4 := ha 4 (by omega)
    have a3 : Q.attackedBy .white 59 = P.attackedBy .black 3 := ha 3 (by omega)
    have a2 : Q.attackedBy .white 58 = P.attackedBy .black 2 := ha 2 (by omega)
    show (Q.bq && !Q.occupied 59 && !Q.occupied 58 && !Q.occupied 57 && !Q.attackedBy .white 60 &&
      !Q.attackedBy .white 59 && !Q.attackedBy .white 58) = (P.wq && !P.occupied 3 && !P.occupied 2 &&
      !P.occupied 1 && !P.attackedBy .black 4 && !P.attackedBy .black 3 && !P.attackedBy .black 2)
    rw [o3, o2, o1, a4, a3, a2, h.bq]
  | black =>
    have o3 : Q.occupied 3 = P.occupied 59 := ho 59 (by omega)
    have o2 : Q.occupied 2 = P.occupied 58 := ho 58 (by omega)
    have o1 : Q.occupied 1 = P.occupied 57 := ho 57 (by omega)
    have a4 : Q.attackedBy .black 4 = P.attackedBy .white 60 := ha 60 (by omega)
    have a3 : Q.attackedBy .black 3 = P.attackedBy .white 59 := ha 59 (by omega)
    have a2 : Q.attackedBy .black 2 = P.attackedBy .white 58 := ha 58 (by omega)
    show (Q.wq && !Q.occupied 3 && !Q.occupied 2 && !Q.occupied 1 && !Q.attackedBy .black 4 &&
      !Q.attackedBy .black 3 && !Q.attackedBy .black 2) = (P.bq && !P.occupied 59 && !P.occupied 58 &&
      !P.occupied 57 && !P.attackedBy .white 60 && !P.attackedBy .white 59 && !P.attackedBy .white 58)
    rw [o3, o2, o1, a4, a3, a2, h.wq]

/-- **castling is equivariant** (as lists, in order) -/
theorem castleMoves_mirror {P Q : Pos} (h : Mirror P Q) (c : Color) :
    castleMoves Q c.opp = (castleMoves P c).map mirrorMove := by
  rw [castleMoves_eq, castleMoves_eq, ksCond_mirror h, qsCond_mirror h, castleListOf_mirror]

/-- **the pseudo-legal generator is equivariant** -/
theorem pseudoMoves_mirror {P Q : Pos} (h : Mirror P Q) {sm : SMove} (hm : sm ∈ pseudoMoves P) :
    mirrorMove sm ∈ pseudoMoves Q := by
  rw [Wee.mem_pseudoMoves] at hm ⊢
  rcases hm with ⟨o, k, hat, hm⟩ | hm
  · have ho := Wee.at_lt hat
    refine Or.inl ⟨flip o, k, ?_, ?_⟩
    · rw [h.turn]; exact h.cell.at_some ho hat
    · rw [h.turn]
      by_cases hk : k = Kind.pawn
      · rw [if_pos hk] at hm ⊢; exact pawnMovesFrom_mirror h ho hm
      · rw [if_neg hk] at hm ⊢; exact pieceMovesFrom_mirror h.cell ho hm
  · refine Or.inr ?_
    rw [h.turn, castleMoves_mirror h]
    exact List.mem_map_of_mem hm

/-- shape facts of a rule-level pseudo-legal move: squares on the board, castling starts on the e-file -/
theorem pseudo_wf {P : Pos} {m : SMove} (h : m ∈ pseudoMoves P) :
    m.src < 64 ∧ m.dst < 64 ∧ (m.castle ≠ none → m.src % 8 = 4) := by
  rcases (Wee.mem_pseudoMoves P m).1 h with ⟨o, k, hat, hm⟩ | hm
  · have ho := Wee.at_lt hat
    by_cases hk : k = Kind.pawn
    · rw [if_pos hk] at hm
      obtain ⟨_, hc, hsrc, _⟩ := Wee.attrs_pawnMovesFrom hm
      refine ⟨by rw [hsrc]; exact ho, ?_, fun hne => absurd hc hne⟩
      rw [Wee.pawnMovesFrom_eq] at hm
      simp only [List.mem_append] at hm
      rcases hm with (hm | hm) | hm
      · obtain ⟨t, hst, _, hw⟩ := (Wee.mem_sPush1 _ _ _ _).1 hm
        rw [(Wee.kind_withPromo hw).2.2.2.1]; exact Wee.step_lt hst
      · obtain ⟨_, t1, t2, _, h2, _, _, rfl⟩ := (Wee.mem_sPush2 _ _ _ _).1 hm
        exact Wee.step_lt h2
      · obtain ⟨east, t, hst, hm⟩ := (Wee.mem_sCaps _ _ _ _).1 hm
        have ht := Wee.step_lt hst
        rcases (Wee.mem_sCapAt _ _ _ _ _).1 hm with ⟨kc, _, hw⟩ | ⟨_, _, rfl⟩
        · rw [(Wee.kind_withPromo hw).2.2.2.1]; exact ht
        · exact ht
    · rw [if_neg hk] at hm
      obtain ⟨t, hatt, _, rfl⟩ := (Wee.mem_pieceMovesFrom _ _ _ _ _).1 hm
      obtain ⟨_, hc, hsrc, hdst, _⟩ := Wee.attrs_specStep P P.turn k o t
      exact ⟨by rw [hsrc]; exact ho, by rw [hdst]; exact Wee.attacksFrom_lt _ _ _ _ _ hatt,
        fun hne => absurd hc hne⟩
  · unfold castleMoves at hm
    dsimp only at hm
    rcases Wee.C02.kingHome_cases P.turn with hk | hk <;> rw [hk] at hm <;>
      rcases List.mem_append.1 hm with hm | hm <;> obtain ⟨_, rfl⟩ := Wee.C02.mem_ite_single' hm <;>
      exact ⟨by simp, by simp, fun _ => by simp⟩

/-! ## make-move and legality -/

/-- mirror relation between two mailbox functions -/
def RelFn (g g' : Nat → Option (Color × Kind)) : Prop := ∀ sq, sq < 64 → g' (flip sq) = mirrorCell (g sq)

theorem relFn_upd {g g' : Nat → Option (Color × Kind)} (h : RelFn g g') {a : Nat} (ha : a < 64)
    (v : Option (Color × Kind)) : RelFn (Wee.C02.upd g a v) (Wee.C02.upd g' (flip a) (mirrorCell v)) := by
  intro sq hsq
  unfold Wee.C02.upd
  by_cases e : sq = a
  · subst e; simp
  · rw [if_neg e, if_neg (flip_ne hsq ha e)]; exact h sq hsq

theorem specFn_mirror {P Q : Pos} (h : RelFn (Wee.C02.cellsFn P.cells) (Wee.C02.cellsFn Q.cells)) (m : SMove)
    (hs : m.src < 64) (hd : m.dst < 64) (hc : m.castle ≠ none → m.src % 8 = 4) :
    RelFn (Wee.C02.specFn P m) (Wee.C02.specFn Q (mirrorMove m)) := by
  have e1 : flip m.src / 8 * 8 + flip m.dst % 8 = flip (m.src / 8 * 8 + m.dst % 8) := by unfold flip; omega
  have g1 := relFn_upd h hs none
  have g2 : RelFn
      (if m.ep = true then Wee.C02.upd (Wee.C02.upd (Wee.C02.cellsFn P.cells) m.src none) (m.src / 8 * 8 + m.dst % 8) none
        else Wee.C02.upd (Wee.C02.cellsFn P.cells) m.src none)
      (if m.ep = true then Wee.C02.upd (Wee.C02.upd (Wee.C02.cellsFn Q.cells) (flip m.src) none)
          (flip m.src / 8 * 8 + flip m.dst % 8) none
        else Wee.C02.upd (Wee.C02.cellsFn Q.cells) (flip m.src) none) := by
    split
    · rw [e1]; exact relFn_upd g1 (by omega) none
    · exact g1
  have g3 := relFn_upd g2 hd (some (m.color, m.promo.getD m.kind))
  unfold Wee.C02.specFn
  show RelFn _ (match m.castle with
    | some true => _
    | some false => _
    | none => _)
  cases hcs : m.castle with
  | none => exact g3
  | some b =>
    have h4 := hc (by rw [hcs]; simp)
    cases b with
    | true =>
      have e3 : flip m.src + 3 = flip (m.src + 3) := by unfold flip; omega
      have e4 : flip m.src + 1 = flip (m.src + 1) := by unfold flip; omega
      show RelFn _ (Wee.C02.upd (Wee.C02.upd _ (flip m.src + 3) none) (flip m.src + 1) (some (m.color.opp, Kind.rook)))
      rw [e3, e4]
      exact relFn_upd (relFn_upd g3 (by omega) none) (by omega) (some (m.color, Kind.rook))
    | false =>
      have e3 : flip m.src - 4 = flip (m.src - 4) := by unfold flip; omega
      have e4 : flip m.src - 1 = flip (m.src - 1) := by unfold flip; omega
      show RelFn _ (Wee.C02.upd (Wee.C02.upd _ (flip m.src - 4) none) (flip m.src - 1) (some (m.color.opp, Kind.rook)))
      rw [e3, e4]
      exact relFn_upd (relFn_upd g3 (by omega) none) (by omega) (some (m.color, Kind.rook))

/-- **make-move is equivariant** (cells): the successors by a move and by the mirrored move are mirrors -/
theorem applyMove_mirrorAt {P Q : Pos} (h : MirrorAt P Q) (hP : P.cells.size = 64) (hQ : Q.cells.size = 64)
    (m : SMove) (hs : m.src < 64) (hd : m.dst < 64) (hc : m.castle ≠ none → m.src % 8 = 4) :
    MirrorAt (applyMove P m) (applyMove Q (mirrorMove m)) := by
  have h0 : RelFn (Wee.C02.cellsFn P.cells) (Wee.C02.cellsFn Q.cells) := by
    intro sq hsq
    rw [← Wee.C02.at_eq_cellsFn Q hQ, ← Wee.C02.at_eq_cellsFn P hP]; exact h sq hsq
  have hQ' : (applyMove Q (mirrorMove m)).cells.size = 64 := by rw [Wee.C02.applyMove_cells_size]; exact hQ
  have hP' : (applyMove P m).cells.size = 64 := by rw [Wee.C02.applyMove_cells_size]; exact hP
  intro sq hsq
  rw [Wee.C02.at_eq_cellsFn _ hQ', Wee.C02.at_eq_cellsFn _ hP',
    Wee.C02.applyMove_cellsFn P hP m hs hd (fun hne => by have := hc hne; omega),
    Wee.C02.applyMove_cellsFn Q hQ (mirrorMove m) (flip_lt hs) (flip_lt hd) (fun hne => by
      have := hc hne
      show flip m.src + 3 < 64
      unfold flip; omega)]
  exact specFn_mirror h0 m hs hd hc sq hsq

/-- **legality of a move is equivariant** -/
theorem isLegalAfter_mirror {P Q : Pos} (h : Mirror P Q) (m : SMove) (hs : m.src < 64) (hd : m.dst < 64)
    (hc : m.castle ≠ none → m.src % 8 = 4) : isLegalAfter Q (mirrorMove m) = isLegalAfter P m := by
  unfold isLegalAfter
  rw [h.turn, (applyMove_mirrorAt h.cell h.szP h.szQ m hs hd hc).inCheck]

/-- **the legal moves are equivariant** (membership) -/
theorem legalMoves_mirror {P Q : Pos} (h : Mirror P Q) {m : SMove} (hm : m ∈ legalMoves P) :
    mirrorMove m ∈ legalMoves Q := by
  unfold legalMoves at hm ⊢
  rw [List.mem_filter] at hm ⊢
  obtain ⟨hp, hl⟩ := hm
  obtain ⟨hs, hd, hc⟩ := pseudo_wf hp
  exact ⟨pseudoMoves_mirror h hp, by rw [isLegalAfter_mirror h m hs hd hc]; exact hl⟩

theorem mem_legalMoves_mirror_iff {P Q : Pos} (h : Mirror P Q) (m' : SMove) :
    m' ∈ legalMoves Q ↔ ∃ m ∈ legalMoves P, mirrorMove m = m' := by
  constructor
  · intro hm
    have hp := (List.mem_filter.1 hm).1
    obtain ⟨hs, hd, _⟩ := pseudo_wf hp
    exact ⟨mirrorMove m', legalMoves_mirror h.symm hm, mirrorMove_mirrorMove m' hs hd⟩
  · rintro ⟨m, hm, rfl⟩; exact legalMoves_mirror h hm

/-- **mate/stalemate detection is equivariant**: the mirror has a legal move iff the position has one -/
theorem legalMoves_isEmpty_mirror {P Q : Pos} (h : Mirror P Q) :
    (legalMoves Q).isEmpty = (legalMoves P).isEmpty := by
  rw [Bool.eq_iff_iff, List.isEmpty_iff, List.isEmpty_iff]
  constructor
  · intro hq
    apply List.eq_nil_iff_forall_not_mem.2
    intro m hm
    have := legalMoves_mirror h hm
    rw [hq] at this; cases this
  · intro hp
    apply List.eq_nil_iff_forall_not_mem.2
    intro m hm
    have := legalMoves_mirror h.symm hm
    rw [hp] at this; cases this


/-- **full equivariance of the legal-move list**: the legal moves of the mirror are, up to order, the mirrored
legal moves -/
theorem legalMoves_perm_mirror {P Q : Pos} (h : Mirror P Q) :
    (legalMoves Q).Perm ((legalMoves P).map mirrorMove) := by
  have nQ : (legalMoves Q).Nodup := (Wee.pseudoMoves_nodup Q).sublist List.filter_sublist
  have nP0 : (legalMoves P).Nodup := (Wee.pseudoMoves_nodup P).sublist List.filter_sublist
  have nP : ((legalMoves P).map mirrorMove).Nodup := by
    unfold List.Nodup
    rw [List.pairwise_map]
    apply List.Pairwise.imp_of_mem _ nP0
    intro x y hx hy hne e
    apply hne
    obtain ⟨xs, xd, _⟩ := pseudo_wf (List.mem_filter.1 hx).1
    obtain ⟨ys, yd, _⟩ := pseudo_wf (List.mem_filter.1 hy).1
    have := congrArg mirrorMove e
    rwa [mirrorMove_mirrorMove x xs xd, mirrorMove_mirrorMove y ys yd] at this
  refine (List.perm_ext_iff_of_nodup nQ nP).2 (fun m' => ?_)
  rw [mem_legalMoves_mirror_iff h, List.mem_map]

theorem legalMoves_length_mirror {P Q : Pos} (h : Mirror P Q) : (legalMoves Q).length = (legalMoves P).length := by
  rw [(legalMoves_perm_mirror h).length_eq, List.length_map]

/-! ## legal positions -/

theorem count_one_mirror {P Q : Pos} (h : MirrorAt P Q) (c : Color) (k : Kind) (hc : count P c k = 1) :
    count Q c.opp k = 1 := by
  rw [Wee.C02.count_eq_one_iff] at hc ⊢
  obtain ⟨q, hq, hat, hu⟩ := hc
  refine ⟨flip q, flip_lt hq, h.at_some hq hat, fun n hn hn' => ?_⟩
  have := h.symm.at_some hn hn'
  rw [opp_opp] at this
  have := hu (flip n) (flip_lt hn) this
  rw [← this, flip_flip hn]

theorem rights_mirror {P Q : Pos} (h : MirrorAt P Q) (b : Bool) (c : Color) {k r : Nat} (hk : k < 64) (hr : r < 64)
    (hp : (!b || (P.at k == some (c, Kind.king) && P.at r == some (c, Kind.rook))) = true) :
    (!b || (Q.at (flip k) == some (c.opp, Kind.king) && Q.at (flip r) == some (c.opp, Kind.rook))) = true := by
  cases b with
  | false => rfl
  | true =>
    simp only [Bool.not_true, Bool.false_or, Bool.and_eq_true, beq_iff_eq] at hp ⊢
    exact ⟨h.at_some hk hp.1, h.at_some hr hp.2⟩

theorem epClause_mirror {P Q : Pos} (h : Mirror P Q) (hp : Wee.C02.epClause P = true) : Wee.C02.epClause Q = true := by
  unfold Wee.C02.epClause at hp ⊢
  rw [h.ep, h.turn]
  cases hep : P.ep with
  | none => rfl
  | some t =>
    have ht := h.epLt t hep
    rw [hep] at hp
    simp only [Option.map_some]
    simp only [Bool.and_eq_true, beq_iff_eq] at hp ⊢
    obtain ⟨⟨⟨h1, h2⟩, h3⟩, h4⟩ := hp
    rw [opp_opp]
    rw [fwd_opp] at h3 h4
    rw [Int.neg_neg] at h4
    refine ⟨⟨⟨?_, ?_⟩, ?_⟩, ?_⟩
    · rw [flip_div ht]
      revert h1
      cases P.turn <;> simp only [Color.opp] <;> omega
    · rw [h.cell.occupied ht]; exact h2
    · cases hs : step t 0 (-P.turn.fwd) with
      | none => rw [hs] at h3; cases h3
      | some s =>
        rw [hs] at h3
        simp only [beq_iff_eq] at h3
        have := step_flip_some ht hs
        rw [Int.neg_neg] at this
        rw [this]
        simp only [beq_iff_eq]
        have := h.cell.at_some (Wee.step_lt hs) h3
        rwa [opp_opp] at this
    · cases hs : step t 0 P.turn.fwd with
      | none => rw [hs] at h4; cases h4
      | some s =>
        rw [hs] at h4
        rw [step_flip_some ht hs]
        show (!Q.occupied (flip s)) = true
        rw [h.cell.occupied (Wee.step_lt hs)]; exact h4

/-- **`LegalPos` is equivariant** (one direction; the relation is symmetric) -/
theorem legalPos_mirror {P Q : Pos} (h : Mirror P Q) (hl : LegalPos P = true) : LegalPos Q = true := by
  unfold LegalPos at hl
  simp only [Bool.and_eq_true] at hl
  obtain ⟨⟨⟨⟨⟨⟨⟨⟨⟨_, c2⟩, c3⟩, c4⟩, c5⟩, c6⟩, c7⟩, c8⟩, c9⟩, c10⟩ := hl
  rw [beq_iff_eq] at c2 c3
  have hep : Wee.C02.epClause Q = true := epClause_mirror h c10
  unfold LegalPos
  simp only [Bool.and_eq_true]
  refine ⟨⟨⟨⟨⟨⟨⟨⟨⟨?_, ?_⟩, ?_⟩, ?_⟩, ?_⟩, ?_⟩, ?_⟩, ?_⟩, ?_⟩, hep⟩
  · rw [h.szQ]; rfl
  · rw [beq_iff_eq]; exact count_one_mirror h.cell .black .king c3
  · rw [beq_iff_eq]; exact count_one_mirror h.cell .white .king c2
  · rw [h.turn, h.cell.inCheck]; exact c4
  · have c5 := (Wee.C02.backrank_iff P).1 c5
    refine (Wee.C02.backrank_iff Q).2 ?_
    intro n hn hr col hat
    have := h.cell.symm.at_some hn hat
    exact c5 (flip n) (flip_lt hn) (by rw [flip_div hn]; omega) col.opp this
  · rw [h.wk]; exact rights_mirror h.cell P.bk .black (k := 60) (r := 63) (by omega) (by omega) c8
  · rw [h.wq]; exact rights_mirror h.cell P.bq .black (k := 60) (r := 56) (by omega) (by omega) c9
  · rw [h.bk]; exact rights_mirror h.cell P.wk .white (k := 4) (r := 7) (by omega) (by omega) c6
  · rw [h.bq]; exact rights_mirror h.cell P.wq .white (k := 4) (r := 0) (by omega) (by omega) c7

theorem legalPos_ep_lt {P : Pos} (hl : LegalPos P = true) : ∀ e, P.ep = some e → e < 64 := by
  intro e he
  unfold LegalPos at hl
  simp only [Bool.and_eq_true] at hl
  have h10 := hl.2
  rw [he] at h10
  simp only [Bool.and_eq_true, beq_iff_eq] at h10
  obtain ⟨⟨⟨h1, _⟩, _⟩, _⟩ := h10
  revert h1
  cases P.turn.opp <;> simp only [] <;> omega

theorem legalPos_size {P : Pos} (hl : LegalPos P = true) : P.cells.size = 64 := by
  unfold LegalPos at hl
  simp only [Bool.and_eq_true, beq_iff_eq] at hl
  exact hl.1.1.1.1.1.1.1.1.1

/-- a legal position and its mirror are related -/
theorem mirror_of_legal {P : Pos} (hl : LegalPos P = true) : Mirror P (mirrorPos P) :=
  mirror_mirrorPos P (legalPos_size hl) (legalPos_ep_lt hl)

/-- **`LegalPos (mirrorPos p) = LegalPos p`** for every 64-cell board (`mirrorPos` always builds 64 cells, so a
board of another size — never legal — could have a legal mirror; hence the hypothesis) -/
theorem legalPos_mirrorPos (p : Pos) (hsz : p.cells.size = 64) : LegalPos (mirrorPos p) = LegalPos p := by
  rw [Bool.eq_iff_iff]
  constructor
  · intro hl
    have hep : ∀ e, p.ep = some e → e < 64 := by
      intro e he
      have := legalPos_ep_lt hl (flip e) (by show p.ep.map flip = _; rw [he]; rfl)
      have h2 : (mirrorPos p).ep = some (flip e) := by show p.ep.map flip = _; rw [he]; rfl
      unfold LegalPos at hl
      simp only [Bool.and_eq_true] at hl
      have h10 := hl.2
      rw [h2] at h10
      simp only [Bool.and_eq_true, beq_iff_eq] at h10
      obtain ⟨⟨⟨h1, _⟩, _⟩, _⟩ := h10
      revert h1
      unfold flip
      cases (mirrorPos p).turn.opp <;> simp only [] <;> omega
    exact legalPos_mirror (mirror_mirrorPos p hsz hep).symm hl
  · intro hl
    exact legalPos_mirror (mirror_of_legal hl) hl

/-- the statements for `mirrorPos` itself -/
theorem inCheck_mirrorPos (p : Pos) (c : Color) : (mirrorPos p).inCheck c.opp = p.inCheck c := by
  have h : MirrorAt p (mirrorPos p) := by
    intro sq hsq; rw [mirrorPos_at p (flip_lt hsq), flip_flip hsq]
  exact h.inCheck c

theorem attackedBy_mirrorPos (p : Pos) (c : Color) {t : Nat} (ht : t < 64) :
    (mirrorPos p).attackedBy c.opp (flip t) = p.attackedBy c t := by
  have h : MirrorAt p (mirrorPos p) := by
    intro sq hsq; rw [mirrorPos_at p (flip_lt hsq), flip_flip hsq]
  exact h.attackedBy c ht

theorem legalMoves_isEmpty_mirrorPos {p : Pos} (hl : LegalPos p = true) :
    (legalMoves (mirrorPos p)).isEmpty = (legalMoves p).isEmpty :=
  legalMoves_isEmpty_mirror (mirror_of_legal hl)

end Wee.Spec

/-! # Part 2: the abstraction commutes with the mirrors -/
namespace Wee
open Gen
open Wee.C10 (DisjointBoard)

/-- the model's `flip_rank` is the specification-level flip -/
theorem flipRank_eq_flip (n : Nat) : flipRank n = Spec.flip n := rfl

theorem mirrorPieces_mirrorPieces (m : PieceMap) : mirrorPieces (mirrorPieces m) = m := by
  cases m; simp only [mirrorPieces, bswap_bswap]

theorem disjointBoard_mirror_of {m : PieceMap} (hd : DisjointBoard m) : DisjointBoard (mirrorPieces m) := by
  intro x hx y hy hne
  obtain ⟨c1, p1⟩ := x
  obtain ⟨c2, p2⟩ := y
  have h1 : (c1.opp, p1) ∈ C10.allCP := (C10.mem_allCP _ _).2 ((C10.mem_allCP _ _).1 hx)
  have h2 : (c2.opp, p2) ∈ C10.allCP := (C10.mem_allCP _ _).2 ((C10.mem_allCP _ _).1 hy)
  have hne' : (c1.opp, p1) ≠ (c2.opp, p2) := by
    intro e
    apply hne
    have e1 := congrArg Prod.fst e
    have e2 := congrArg Prod.snd e
    simp only at e1 e2
    have : c1 = c2 := by cases c1 <;> cases c2 <;> first | rfl | cases e1
    rw [this, e2]
  have := hd _ h1 _ h2 hne'
  simp only at this ⊢
  rw [mirrorPieces_get', mirrorPieces_get', ← bswap_and, this, bswap_zero]

/-- **no stacked pieces on the mirror iff none on the board** -/
theorem disjointBoard_mirror (m : PieceMap) : DisjointBoard (mirrorPieces m) ↔ DisjointBoard m :=
  ⟨fun h => by have := disjointBoard_mirror_of h; rwa [mirrorPieces_mirrorPieces] at this, disjointBoard_mirror_of⟩

theorem test_mirrorPieces (m : PieceMap) (c : Color) (p : Piece) {n : Nat} (hn : n < 64) :
    test ((mirrorPieces m).get c.opp p) n = test (m.get c p) (Spec.flip n) := by
  rw [mirrorPieces_get, test_bswap _ _ hn]; rfl

/-- the mailbox cell of the mirrored placement -/
theorem absCell_mirror {m : PieceMap} (hd : DisjointBoard m) {n : Nat} (hn : n < 64) :
    absCell (mirrorPieces m) n = Spec.mirrorCell (absCell m (Spec.flip n)) := by
  have hd' := disjointBoard_mirror_of hd
  cases hc : absCell m (Spec.flip n) with
  | none =>
    rw [C02.absCell_eq_none_iff, C10.pieceAt_none] at hc
    show _ = Option.none
    rw [C02.absCell_eq_none_iff, C10.pieceAt_none]
    intro c p
    have := test_mirrorPieces m c.opp p hn
    rw [opp_opp] at this
    rw [this]; exact hc c.opp p
  | some ck =>
    obtain ⟨c', k⟩ := ck
    have hcol : ∃ c, c' = absColor c := by
      cases c'
      · exact ⟨.white, rfl⟩
      · exact ⟨.black, rfl⟩
    obtain ⟨c, rfl⟩ := hcol
    obtain ⟨p, hk, ht⟩ := (C10.absCell_iff hd _ c k).1 hc
    show _ = some ((absColor c).opp, k)
    rw [← C10.absColor_opp, C10.absCell_iff hd']
    exact ⟨p, hk, by rw [test_mirrorPieces m c p hn]; exact ht⟩

/-- **`abs (mirrorState s) = Spec.mirrorPos (abs s)`**: the mailbox reading of the byte-swapped, colour-swapped
bitboards is the mirrored mailbox (for a placement without stacked pieces: `piece_at` scans White first, so on a
square holding a white and a black piece the two sides would differ) -/
theorem abs_mirrorState (s : State) (hd : DisjointBoard s.pieces) :
    abs (mirrorState s) = Spec.mirrorPos (abs s) := by
  have hcells : (Array.range 64).map (absCell (mirrorState s).pieces) =
      (Array.range 64).map fun i => Spec.mirrorCell ((abs s).at (Spec.flip i)) := by
    apply Array.ext
    · simp
    · intro i h1 h2
      have hi : i < 64 := by simpa using h1
      simp only [Array.getElem_map, Array.getElem_range]
      show absCell (mirrorPieces s.pieces) i = _
      rw [absCell_mirror hd hi, C10.abs_at]
  show Spec.Pos.mk _ _ _ _ _ _ _ _ _ = Spec.Pos.mk _ _ _ _ _ _ _ _ _
  rw [hcells]
  congr 1
  exact C10.absColor_opp s.turn

theorem disjointBoard_mirrorState (s : State) : DisjointBoard (mirrorState s).pieces ↔ DisjointBoard s.pieces :=
  disjointBoard_mirror s.pieces

/-- cell-level relation between `abs s` and `abs (mirrorState s)` (no legality needed) -/
theorem mirrorAt_abs (s : State) (hd : DisjointBoard s.pieces) : Spec.MirrorAt (abs s) (abs (mirrorState s)) := by
  intro sq hsq
  rw [abs_mirrorState s hd, Spec.mirrorPos_at _ (Spec.flip_lt hsq), Spec.flip_flip hsq]

/-- full relation for a legal position -/
theorem mirror_abs (s : State) (hl : LegalPos s = true) (hd : DisjointBoard s.pieces) :
    Spec.Mirror (abs s) (abs (mirrorState s)) := by
  rw [abs_mirrorState s hd]; exact Spec.mirror_of_legal hl

/-- **the mirror of a legal position is legal** -/
theorem legalPos_mirrorState (s : State) (hl : LegalPos s = true) (hd : DisjointBoard s.pieces) :
    LegalPos (mirrorState s) = true := by
  unfold LegalPos
  exact Spec.legalPos_mirror (mirror_abs s hl hd) hl

/-! ## the model's attack map, check test and `king_has_move` shortcut on the mirror -/

theorem bswap_not (b : UInt64) : bswap (~~~b) = ~~~bswap b := by
  apply ext; intro n hn
  rw [test_bswap _ _ hn, test_not _ _ (flipRank_lt hn), test_not _ _ hn, test_bswap _ _ hn]

theorem bbAny_bswap (b : UInt64) : bbAny (bswap b) = bbAny b := by
  have := bbNone_bswap b
  rw [bbNone_eq_not_bbAny, bbNone_eq_not_bbAny] at this
  cases h1 : bbAny (bswap b) <;> cases h2 : bbAny b <;> simp [h1, h2] at this ⊢

theorem kingAttacks_flip : ∀ k : Fin 64, kingAttacks (flipRank k.val) = bswap (kingAttacks k.val) := by
  decide +kernel

/-- **`colored_attacks` of the mirror is the byte-swapped `colored_attacks`** (through C10: both are the rule-level
attacked squares minus own pieces, and those are equivariant) -/
theorem coloredAttacks_mirror (s : State) (hd : DisjointBoard s.pieces) (c : Color) :
    coloredAttacks (mirrorState s).pieces c.opp = bswap (coloredAttacks s.pieces c) := by
  have hd' := (disjointBoard_mirrorState s).2 hd
  have M := mirrorAt_abs s hd
  apply ext; intro n hn
  have hf := Spec.flip_lt hn
  rw [test_bswap _ _ hn, Bool.eq_iff_iff, C10.C10_attacks_closed _ hd' c.opp n hn, flipRank_eq_flip,
    C10.C10_attacks_closed s hd c (Spec.flip n) hf, C10.absColor_opp]
  have h1 := M.attackedBy (absColor c) hf
  rw [Spec.flip_flip hn] at h1
  rw [h1]
  apply and_congr_right; intro _
  apply not_congr
  apply exists_congr; intro k
  have := M (Spec.flip n) hf
  rw [Spec.flip_flip hn] at this
  rw [this]
  exact Spec.mirrorCell_eq_some

theorem occ_mirrorState (s : State) : (mirrorState s).pieces.occ = bswap s.pieces.occ := mirrorPieces_occ s.pieces

/-- **`State::is_check` agrees on a position and its mirror** -/
theorem isCheck_mirrorState (s : State) (hd : DisjointBoard s.pieces) : (mirrorState s).isCheck = s.isCheck := by
  have hd' := (disjointBoard_mirrorState s).2 hd
  rw [C10.C10_state_check_closed _ hd', C10.C10_state_check_closed s hd]
  have : (abs (mirrorState s)).turn = (abs s).turn.opp := C10.absColor_opp s.turn
  rw [this]
  exact (mirrorAt_abs s hd).inCheck _

/-- **the `king_has_move` shortcut agrees on a position and its mirror** (at most one king per side) -/
theorem kingHasMove_mirrorState (s : State) (hd : DisjointBoard s.pieces) (hk : OneKing s) :
    kingHasMove (mirrorState s) = kingHasMove s := by
  unfold kingHasMove
  have h1 : (mirrorState s).pieces.get (mirrorState s).turn .king = bswap (s.pieces.get s.turn .king) :=
    mirrorPieces_get s.pieces s.turn .king
  have h2 : coloredAttacks (mirrorState s).pieces (mirrorState s).turn.opp =
      bswap (coloredAttacks s.pieces s.turn.opp) := coloredAttacks_mirror s hd s.turn.opp
  rw [h1, firstOne_bswap _ (hk s.turn), h2, occ_mirrorState]
  cases hf : firstOne (s.pieces.get s.turn .king) with
  | none => rfl
  | some k =>
    have hk64 := firstOne_lt _ _ hf
    simp only [Option.map_some]
    have := kingAttacks_flip ⟨k, hk64⟩
    simp only at this
    rw [this, ← bswap_not, ← bswap_not, ← bswap_and, ← bswap_and, bbAny_bswap]

/-- a legal position has at most (in fact exactly) one king per side on its bitboards -/
theorem oneKing_of_legal (s : State) (hl : LegalPos s = true) (hd : DisjointBoard s.pieces) : OneKing s := by
  intro c
  have hc : Spec.count (abs s) (absColor c) .king = 1 := by
    unfold LegalPos Spec.LegalPos at hl
    simp only [Bool.and_eq_true, beq_iff_eq] at hl
    cases c
    · exact hl.1.1.1.1.1.1.1.1.2
    · exact hl.1.1.1.1.1.1.1.2
  obtain ⟨q, _, _, hu⟩ := (C02.count_eq_one_iff _ _ _).1 hc
  have hsub : ∀ n ∈ bitsOf (s.pieces.get c .king), n = q := fun n hn => by
    obtain ⟨h1, h2⟩ := (mem_bitsOf _ _).1 hn
    exact hu n h1 (at_of_test hd n c .king .king rfl h2)
  have hnd := bitsOf_nodup (s.pieces.get c .king)
  unfold popcount
  match hb : bitsOf (s.pieces.get c .king) with
  | [] => simp
  | [a] => simp
  | a :: b :: t =>
    rw [hb] at hsub hnd
    have ha := hsub a (by simp)
    have hb' := hsub b (by simp)
    subst ha; subst hb'
    simp at hnd

end Wee
