import Wee.Model.Search
/-!
# The read of the cancellation flag at an iteration boundary (`boundaryPoll`, since the repair of F11)

`boundaryPoll` touches `polls` and `finished` only; these are the facts every invariant proof of the deepening loop
needs about it.
-/
namespace Wee.Search
open Wee

/-- the answer of the flag to a poll that `p` polls preceded -/
def flagSays (ctx : Ctx) (p : Nat) : Bool :=
  match ctx.cancelAt with | some k => decide (p ≥ k) | Option.none => false

theorem boundaryPoll_zero (ctx : Ctx) (st : IterSt) : boundaryPoll ctx 0 st = st := rfl

theorem boundaryPoll_pos (ctx : Ctx) {depth : Nat} (h : 0 < depth) (st : IterSt) :
    boundaryPoll ctx depth st = { st with polls := st.polls + 1, finished := flagSays ctx st.polls } := by
  unfold boundaryPoll flagSays; rw [if_pos h]; rfl

@[simp] theorem boundaryPoll_tt (ctx : Ctx) (depth : Nat) (st : IterSt) : (boundaryPoll ctx depth st).tt = st.tt := by
  unfold boundaryPoll; split <;> rfl
@[simp] theorem boundaryPoll_rng (ctx : Ctx) (depth : Nat) (st : IterSt) : (boundaryPoll ctx depth st).rng = st.rng := by
  unfold boundaryPoll; split <;> rfl
@[simp] theorem boundaryPoll_events (ctx : Ctx) (depth : Nat) (st : IterSt) :
    (boundaryPoll ctx depth st).events = st.events := by
  unfold boundaryPoll; split <;> rfl
@[simp] theorem boundaryPoll_nodes (ctx : Ctx) (depth : Nat) (st : IterSt) :
    (boundaryPoll ctx depth st).nodes = st.nodes := by
  unfold boundaryPoll; split <;> rfl
@[simp] theorem boundaryPoll_bestEval (ctx : Ctx) (depth : Nat) (st : IterSt) :
    (boundaryPoll ctx depth st).bestEval = st.bestEval := by
  unfold boundaryPoll; split <;> rfl
@[simp] theorem boundaryPoll_bestMv (ctx : Ctx) (depth : Nat) (st : IterSt) :
    (boundaryPoll ctx depth st).bestMv = st.bestMv := by
  unfold boundaryPoll; split <;> rfl
@[simp] theorem boundaryPoll_panic (ctx : Ctx) (depth : Nat) (st : IterSt) :
    (boundaryPoll ctx depth st).panic = st.panic := by
  unfold boundaryPoll; split <;> rfl

/-- the poll is counted iff it happens (`depth > 0`) -/
theorem boundaryPoll_polls (ctx : Ctx) (depth : Nat) (st : IterSt) :
    (boundaryPoll ctx depth st).polls = if depth > 0 then st.polls + 1 else st.polls := by
  unfold boundaryPoll; split <;> rfl

theorem boundaryPoll_polls_le (ctx : Ctx) (depth : Nat) (st : IterSt) : st.polls ≤ (boundaryPoll ctx depth st).polls := by
  rw [boundaryPoll_polls]; split <;> omega

/-- on an unfinished state: the loop ends here iff `depth > 0` and the flag says "cancelled" -/
theorem boundaryPoll_finished (ctx : Ctx) (depth : Nat) (st : IterSt) (hf : st.finished = false) :
    (boundaryPoll ctx depth st).finished = (decide (depth > 0) && flagSays ctx st.polls) := by
  unfold boundaryPoll flagSays
  split
  · rename_i h; simp only [h, decide_true, Bool.true_and]; rfl
  · rename_i h; simp [h, hf]

/-- without a Stop request the boundary read never ends the loop -/
theorem boundaryPoll_finished_of_none (ctx : Ctx) (hc : ctx.cancelAt = Option.none) (depth : Nat) (st : IterSt) :
    (boundaryPoll ctx depth st).finished = if depth > 0 then false else st.finished := by
  unfold boundaryPoll; rw [hc]; split <;> rfl

/-- `boundaryPoll` as a record update (for invariants stated on the other fields) -/
theorem boundaryPoll_eq (ctx : Ctx) (depth : Nat) (st : IterSt) :
    boundaryPoll ctx depth st =
      { st with polls := (boundaryPoll ctx depth st).polls, finished := (boundaryPoll ctx depth st).finished } := by
  unfold boundaryPoll; split <;> rfl

/-- the loop, one unfolding (the shape every induction over it uses) -/
theorem iterLoop_succ (ctx : Ctx) (root : State) (rootHash : UInt64) (workersOf : Nat → Nat) (n depth : Nat) (st : IterSt) :
    iterLoop ctx root rootHash workersOf (n + 1) depth st =
      if st.finished then st
      else if (boundaryPoll ctx depth st).finished then boundaryPoll ctx depth st
      else iterLoop ctx root rootHash workersOf n (depth + 1)
        (iterStep ctx root rootHash (workersOf depth) depth (boundaryPoll ctx depth st)) := by
  rw [iterLoop]

end Wee.Search
