import Wee.Proofs.ApplyRights
/-!
# C02: the scalar fields of the successor (side, clocks, en-passant target, rights) and the assembly
-/
namespace Wee.C02
open Wee.C10 (DisjointBoard pieceAt_iff absColor_opp absKind_inj)

/-- if `by_performing_move` returns `Ok(next)`, the move's codes were valid and `next` was
assembled by `finish` from some placement -/
theorem performMove_ok_inv {s : State} {mv : Move} {next : State} (h : performMove s mv = some (.ok next)) :
    ∃ p map, Move.piece? mv = some p ∧ CodesOk mv ∧ next = finish s mv p map := by
  cases hp : Move.piece? mv with
  | none => unfold performMove at h; rw [hp] at h; cases h
  | some p =>
    by_cases hc : CodesOk mv
    · rw [performMove_eq s mv p hp hc] at h
      cases hcs : capStep s mv (baseMap s mv p) with
      | error e => rw [hcs] at h; cases h
      | ok map =>
        rw [hcs] at h
        simp only [Option.some.injEq, Except.ok.injEq] at h
        exact ⟨p, _, rfl, hc, h.symm⟩
    · exfalso
      unfold performMove at h
      rw [hp] at h
      simp only [] at h
      rw [if_pos] at h
      · cases h
      · unfold CodesOk at hc
        by_cases h1 : Move.captureCode mv = 0
        · by_cases h2 : Move.promotionCode mv = 0
          · exact absurd ⟨Or.inl h1, Or.inl h2⟩ hc
          · right
            refine ⟨h2, ?_⟩
            cases hx : Piece.ofCode? (Move.promotionCode mv) with
            | none => rfl
            | some x => exact absurd ⟨Or.inl h1, Or.inr (by rw [hx]; rfl)⟩ hc
        · cases hx : Piece.ofCode? (Move.captureCode mv) with
          | none => left; exact ⟨h1, by simp⟩
          | some x =>
            right
            by_cases h2 : Move.promotionCode mv = 0
            · exact absurd ⟨Or.inr (by rw [hx]; rfl), Or.inl h2⟩ hc
            · refine ⟨h2, ?_⟩
              cases hy : Piece.ofCode? (Move.promotionCode mv) with
              | none => rfl
              | some y => exact absurd ⟨Or.inr (by rw [hx]; rfl), Or.inr (by rw [hy]; rfl)⟩ hc

theorem absColor_eq_black (c : Color) : (absColor c == Spec.Color.black) = (c == Color.black) := by
  cases c <;> rfl
theorem absColor_eq_white (c : Color) : (absColor c == Spec.Color.white) = (c == Color.white) := by
  cases c <;> rfl

theorem absKind_beq_pawn {p : Piece} {k : Spec.Kind} (h : absKind p = some k) :
    (k == Spec.Kind.pawn) = (p == Piece.pawn) := by
  cases p <;> simp only [absKind, Option.some.injEq, reduceCtorEq] at h <;> subst h <;> rfl
theorem absKind_beq_king {p : Piece} {k : Spec.Kind} (h : absKind p = some k) :
    (k == Spec.Kind.king) = (p == Piece.king) := by
  cases p <;> simp only [absKind, Option.some.injEq, reduceCtorEq] at h <;> subst h <;> rfl

/-- side to move -/
theorem turn_agree {s : State} {mv : Move} {sm : Spec.SMove} (hcol : sm.color = absColor s.turn)
    (p : Piece) (map : PieceMap) :
    (abs (finish s mv p map)).turn = (Spec.applyMove (abs s) sm).turn := by
  show absColor s.turn.opp = sm.color.opp
  rw [hcol, absColor_opp]

/-- fullmove number -/
theorem fullmove_agree {s : State} {mv : Move} {sm : Spec.SMove} (hcol : sm.color = absColor s.turn)
    (p : Piece) (map : PieceMap) :
    (abs (finish s mv p map)).fullmove = (Spec.applyMove (abs s) sm).fullmove := by
  show (if s.turn == Color.black then clockSucc s.fullmove else s.fullmove) =
    (if sm.color == Spec.Color.black then Spec.clockSucc s.fullmove else s.fullmove)
  rw [hcol, absColor_eq_black]
  rfl

/-- halfmove clock -/
theorem halfmove_agree {s : State} {mv : Move} {sm : Spec.SMove} (hspec : toSpecMove mv = some sm)
    (hc : CodesOk mv) (p : Piece) (hp : Move.piece? mv = some p) (map : PieceMap) :
    (abs (finish s mv p map)).halfmove = (Spec.applyMove (abs s) sm).halfmove := by
  obtain ⟨p', hp', hk, _, _, _, hcap, _⟩ := toSpecMove_some hspec
  rw [hp] at hp'; cases hp'
  show (if (Move.isCapture mv || p == Piece.pawn) then 0 else clockSucc s.halfmove) =
    (if (sm.kind == Spec.Kind.pawn || sm.capture.isSome) then 0 else Spec.clockSucc s.halfmove)
  have h1 : sm.capture.isSome = Move.isCapture mv := by
    rw [isCapture_eq hc, hcap]
    cases hq : Move.capture mv with
    | none => rfl
    | some q =>
      obtain ⟨k, hk⟩ := Wee.C10.absKind_some q (capture_ne_none hq)
      simp [hk]
  rw [h1, absKind_beq_pawn hk, Bool.or_comm]
  rfl

/-- en-passant target -/
theorem ep_agree {s : State} {mv : Move} {sm : Spec.SMove} (hspec : toSpecMove mv = some sm)
    (hcol : sm.color = absColor s.turn) (hs : sm.src < 64) (hd : sm.dst < 64)
    (hdbl : sm.dbl = true → (sm.dst : Int) = (sm.src : Int) + 16 * sm.color.fwd)
    (p : Piece) (map : PieceMap) :
    (abs (finish s mv p map)).ep = (Spec.applyMove (abs s) sm).ep := by
  obtain ⟨_, _, _, _, hsrc, hdst, _, _, _, _, hd'⟩ := toSpecMove_some hspec
  show (if Move.isDoublePawn mv then offset (Move.dest mv) 0 s.turn.backward else Option.none) =
    (if sm.dbl then some ((sm.src + sm.dst) / 2) else Option.none)
  rw [← hd', ← hdst]
  cases hb : sm.dbl with
  | false => rfl
  | true =>
    have := hdbl hb
    rw [hcol] at this
    simp only [if_true]
    cases hc : s.turn <;> simp only [hc, absColor, Spec.Color.fwd, Color.backward] at this ⊢
    · rw [offset_down _ (by omega) hd]; congr 1; omega
    · rw [offset_up _ (by omega)]; congr 1; omega

theorem right_agree {s : State} {mv : Move} {p : Piece} (h : MFits s mv p) {map : PieceMap}
    (hr : Repr map (expectedF s mv p)) (col : Color) (sq : Nat) (hlt : sq < 64) (held : Bool)
    (hsound : held = true → test (s.pieces.get col Piece.rook) sq = true) (cr : CastleRights) (f : CastleRights → Bool)
    (hf : f CastleRights.noRights = false) (hheld : f cr = held) :
    (f (if p == Piece.king ∧ s.turn == col then CastleRights.noRights else cr) && test (map.get col Piece.rook) sq) =
      (held && !(p == Piece.king && s.turn == col) && !(Move.origin mv == sq || Move.dest mv == sq)) := by
  by_cases hk : p = Piece.king ∧ s.turn = col
  · obtain ⟨rfl, rfl⟩ := hk
    simp [hf]
  · have hk' : ¬ ((p == Piece.king) = true ∧ (s.turn == col) = true) := by simpa using hk
    rw [if_neg hk', hheld]
    cases held with
    | false => simp
    | true =>
      have hsq := (pieceAt_iff h.disjoint sq col Piece.rook).2 (hsound rfl)
      rw [corner_rook h hr sq hlt col hsq hk]
      have : (p == Piece.king && s.turn == col) = false := by
        cases hb : (p == Piece.king && s.turn == col) with
        | false => rfl
        | true => simp at hb; exact absurd hb hk
      rw [this]; simp

/-- castling rights: the four flags recomputed by the engine are the four flags of the rules -/
theorem rights_agree {s : State} {mv : Move} {sm : Spec.SMove} {p : Piece} (h : MoveFits s mv sm)
    (hm : MFits s mv p) (hk : absKind p = some sm.kind) (hrs : RightsSound s) {map : PieceMap}
    (hr : Repr map (expectedF s mv p)) :
    (abs (finish s mv p map)).wk = (Spec.applyMove (abs s) sm).wk ∧
    (abs (finish s mv p map)).wq = (Spec.applyMove (abs s) sm).wq ∧
    (abs (finish s mv p map)).bk = (Spec.applyMove (abs s) sm).bk ∧
    (abs (finish s mv p map)).bq = (Spec.applyMove (abs s) sm).bq := by
  obtain ⟨_, _, _, _, hsrc, hdst, _⟩ := toSpecMove_some h.spec
  have hcol := h.color
  have hkk := absKind_beq_king hk
  refine ⟨?_, ?_, ?_, ?_⟩
  · show ((if p == Piece.king ∧ s.turn == Color.white then CastleRights.noRights else s.castleW).kingside &&
        test (map.get Color.white Piece.rook) 7) =
      (s.castleW.kingside && !(sm.kind == Spec.Kind.king && sm.color == Spec.Color.white) &&
        !(sm.src == 7 || sm.dst == 7))
    rw [hkk, hcol, absColor_eq_white, hsrc, hdst]
    exact right_agree hm hr Color.white 7 (by decide) _ (fun e => (hrs.wk e).2) s.castleW
      CastleRights.kingside rfl rfl
  · show ((if p == Piece.king ∧ s.turn == Color.white then CastleRights.noRights else s.castleW).queenside &&
        test (map.get Color.white Piece.rook) 0) =
      (s.castleW.queenside && !(sm.kind == Spec.Kind.king && sm.color == Spec.Color.white) &&
        !(sm.src == 0 || sm.dst == 0))
    rw [hkk, hcol, absColor_eq_white, hsrc, hdst]
    exact right_agree hm hr Color.white 0 (by decide) _ (fun e => (hrs.wq e).2) s.castleW
      CastleRights.queenside rfl rfl
  · show ((if p == Piece.king ∧ s.turn == Color.black then CastleRights.noRights else s.castleB).kingside &&
        test (map.get Color.black Piece.rook) 63) =
      (s.castleB.kingside && !(sm.kind == Spec.Kind.king && sm.color == Spec.Color.black) &&
        !(sm.src == 63 || sm.dst == 63))
    rw [hkk, hcol, absColor_eq_black, hsrc, hdst]
    exact right_agree hm hr Color.black 63 (by decide) _ (fun e => (hrs.bk e).2) s.castleB
      CastleRights.kingside rfl rfl
  · show ((if p == Piece.king ∧ s.turn == Color.black then CastleRights.noRights else s.castleB).queenside &&
        test (map.get Color.black Piece.rook) 56) =
      (s.castleB.queenside && !(sm.kind == Spec.Kind.king && sm.color == Spec.Color.black) &&
        !(sm.src == 56 || sm.dst == 56))
    rw [hkk, hcol, absColor_eq_black, hsrc, hdst]
    exact right_agree hm hr Color.black 56 (by decide) _ (fun e => (hrs.bq e).2) s.castleB
      CastleRights.queenside rfl rfl

/-- `RightsSound` is carried to the successor -/
theorem rightsSound_finish {s : State} {mv : Move} {p : Piece} (hm : MFits s mv p) (hrs : RightsSound s)
    {map : PieceMap} (hr : Repr map (expectedF s mv p)) : RightsSound (finish s mv p map) := by
  have key : ∀ (col : Color) (sq ksq : Nat) (f : CastleRights → Bool) (cr : CastleRights),
      f CastleRights.noRights = false → ksq < 64 →
      (f cr = true → test (s.pieces.get col Piece.king) ksq = true) →
      (f (if p == Piece.king ∧ s.turn == col then CastleRights.noRights else cr) &&
        test (map.get col Piece.rook) sq) = true →
      test (map.get col Piece.king) ksq = true ∧ test (map.get col Piece.rook) sq = true := by
    intro col sq ksq f cr hf hlt hsound hb
    rw [Bool.and_eq_true] at hb
    obtain ⟨h1, h2⟩ := hb
    refine ⟨?_, h2⟩
    by_cases hk : p = Piece.king ∧ s.turn = col
    · obtain ⟨rfl, rfl⟩ := hk
      simp [hf] at h1
    · have hk' : ¬ ((p == Piece.king) = true ∧ (s.turn == col) = true) := by simpa using hk
      rw [if_neg hk'] at h1
      exact king_stays hm hr ksq hlt col ((pieceAt_iff hm.disjoint ksq col Piece.king).2 (hsound h1)) hk
  exact
    { wk := key Color.white 7 4 CastleRights.kingside s.castleW rfl (by decide) (fun e => (hrs.wk e).1)
      wq := key Color.white 0 4 CastleRights.queenside s.castleW rfl (by decide) (fun e => (hrs.wq e).1)
      bk := key Color.black 63 60 CastleRights.kingside s.castleB rfl (by decide) (fun e => (hrs.bk e).1)
      bq := key Color.black 56 60 CastleRights.queenside s.castleB rfl (by decide) (fun e => (hrs.bq e).1) }

theorem pos_ext (a b : Spec.Pos) (h1 : a.cells = b.cells) (h2 : a.turn = b.turn) (h3 : a.wk = b.wk)
    (h4 : a.wq = b.wq) (h5 : a.bk = b.bk) (h6 : a.bq = b.bq) (h7 : a.ep = b.ep)
    (h8 : a.halfmove = b.halfmove) (h9 : a.fullmove = b.fullmove) : a = b := by
  cases a; cases b; simp only [Spec.Pos.mk.injEq]; exact ⟨h1, h2, h3, h4, h5, h6, h7, h8, h9⟩

/-- placement as arrays -/
theorem cells_agree {s : State} {mv : Move} {sm : Spec.SMove} {p : Piece} (h : MoveFits s mv sm)
    (hm : MFits s mv p) (hk : absKind p = some sm.kind) {map : PieceMap}
    (hr : Repr map (expectedF s mv p)) :
    (abs (finish s mv p map)).cells = (Spec.applyMove (abs s) sm).cells := by
  have hsz : (abs (finish s mv p map)).cells.size = 64 := by simp [abs]
  apply array_ext_cellsFn
  · rw [applyMove_cells_size, hsz]; simp [abs]
  · intro n hn
    rw [hsz] at hn
    rw [spec_cells h hm hk, cellsFn_abs]
    show cellAbs (map.pieceAt n) = _
    rw [pieceAt_of_cellIs (hr n hn)]

/-- **all fields**: the abstraction of the engine's successor is the rule-level successor -/
theorem abs_finish {s : State} {mv : Move} {sm : Spec.SMove} {p : Piece} (h : MoveFits s mv sm)
    (hm : MFits s mv p) (hk : absKind p = some sm.kind) (hrs : RightsSound s) {map : PieceMap}
    (hr : Repr map (expectedF s mv p)) :
    abs (finish s mv p map) = Spec.applyMove (abs s) sm := by
  obtain ⟨r1, r2, r3, r4⟩ := rights_agree h hm hk hrs hr
  exact pos_ext _ _ (cells_agree h hm hk hr) (turn_agree h.color p map) r1 r2 r3 r4
    (ep_agree h.spec h.color h.src_lt h.dst_lt (fun e => (h.dbl.1 e).2) p map)
    (halfmove_agree h.spec h.codes p hm.piece map) (fullmove_agree h.color p map)

end Wee.C02
