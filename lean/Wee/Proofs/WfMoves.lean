import Wee.Props.C01
import Wee.Props.C02Closed
import Wee.Props.C12
/-!
# Legal move lists are well-formed (`SanP.WFMoves`) — helper lemmas for C12 / C07

Part 1 works on the rules only (`Wee/Spec/Chess.lean`): every move of `Spec.pseudoMoves P` has its
attributes determined by (kind, origin, destination, promotion) (`PFacts`), for positions `P` that
satisfy three consequences of `Spec.LegalPos` (`PosOK`: one king of the side to move, castling moves
only with the king at home, en-passant target behind an opposing pawn and not on the last rank).

Part 2 transports these facts through `C01_moves` / `C01_legal_results` to the packed moves that
`compute_legal_moves` returns.
-/
namespace Wee.WfM
open Wee
open Wee.C10 (DisjointBoard)

/-! ## part 1: the specification's pseudo-legal moves -/

/-- captured kind as a function of (kind, origin, destination) -/
def capOf (P : Spec.Pos) (k : Spec.Kind) (src dst : Nat) : Option Spec.Kind :=
  if k = .pawn then
    (if dst % 8 = src % 8 then Option.none else
      match P.at dst with
      | some x => some x.2
      | Option.none => some Spec.Kind.pawn)
  else (P.at dst).map (·.2)

def epOf (P : Spec.Pos) (k : Spec.Kind) (src dst : Nat) : Bool :=
  decide (k = .pawn) && decide (dst % 8 ≠ src % 8) && (P.at dst).isNone

def castleOf (k : Spec.Kind) (src dst : Nat) : Option Bool :=
  if k = .king then
    (if dst = src + 2 then some true else if dst + 2 = src then some false else Option.none)
  else Option.none

def dblOf (k : Spec.Kind) (src dst : Nat) : Bool :=
  decide (k = .pawn) && (decide (dst = src + 16) || decide (src = dst + 16))

/-- what is true of every pseudo-legal move of the rules in a sane position -/
structure PFacts (P : Spec.Pos) (sm : Spec.SMove) : Prop where
  color : sm.color = P.turn
  capture : sm.capture = capOf P sm.kind sm.src sm.dst
  ep : sm.ep = epOf P sm.kind sm.src sm.dst
  castle : sm.castle = castleOf sm.kind sm.src sm.dst
  dbl : sm.dbl = dblOf sm.kind sm.src sm.dst
  /-- the moving piece stands on the origin -/
  mover : P.at sm.src = some (P.turn, sm.kind)
  /-- capture-ness is a function of kind and destination -/
  capSome : sm.capture.isSome =
    (P.occupied sm.dst || (decide (sm.kind = .pawn) && (P.ep == some sm.dst)))
  /-- promotion-ness is a function of kind and destination -/
  promoSome : sm.promo.isSome = (decide (sm.kind = .pawn) && decide (sm.dst / 8 = Spec.lastRank P.turn))
  promoKind : ∀ k, sm.promo = some k → k ∈ Spec.promoKinds
  castleKing : sm.castle ≠ Option.none → sm.kind = .king ∧ sm.src = Spec.kingHome P.turn
  src_lt : sm.src < 64
  dst_lt : sm.dst < 64

/-- the consequences of `Spec.LegalPos` that the facts need -/
structure PosOK (P : Spec.Pos) : Prop where
  oneKing : ∀ o o', P.at o = some (P.turn, Spec.Kind.king) → P.at o' = some (P.turn, Spec.Kind.king) → o = o'
  kingHome : ∀ sm ∈ Spec.castleMoves P P.turn, P.at (Spec.kingHome P.turn) = some (P.turn, Spec.Kind.king)
  ep : ∀ t, P.ep = some t → t / 8 ≠ Spec.lastRank P.turn ∧
    ∃ v, Spec.step t 0 (-P.turn.fwd) = some v ∧ P.at v = some (P.turn.opp, Spec.Kind.pawn)

theorem opp_ne (c : Spec.Color) : c.opp ≠ c := by cases c <;> decide

theorem fwd_cases (c : Spec.Color) : c.fwd = 1 ∨ c.fwd = -1 := by cases c <;> simp [Spec.Color.fwd]

/-- a king step never moves two files on its rank (so it is never mistaken for castling) -/
theorem king_no2 (occ : Nat → Bool) (c : Spec.Color) (o t : Nat)
    (h : t ∈ Spec.attacksFrom occ c .king o) : ¬ t = o + 2 ∧ ¬ t + 2 = o := by
  simp only [Spec.attacksFrom, Spec.kingSteps, List.mem_filterMap, List.mem_cons, List.not_mem_nil,
    or_false] at h
  obtain ⟨d, hd, hs⟩ := h
  rw [step_eq_some] at hs
  rcases hd with rfl | rfl | rfl | rfl | rfl | rfl | rfl | rfl <;> dsimp only at hs <;> omega

theorem geo_push1 {o t : Nat} {f : Int} (hf : f = 1 ∨ f = -1) (h : Spec.step o 0 f = some t) :
    t % 8 = o % 8 ∧ ¬ t = o + 16 ∧ ¬ o = t + 16 := by
  rw [step_eq_some] at h
  rcases hf with rfl | rfl <;> omega

theorem geo_push2 {o t1 t2 : Nat} {f : Int} (hf : f = 1 ∨ f = -1) (h1 : Spec.step o 0 f = some t1)
    (h2 : Spec.step t1 0 f = some t2) : t2 % 8 = o % 8 ∧ (t2 = o + 16 ∨ o = t2 + 16) := by
  rw [step_eq_some] at h1 h2
  rcases hf with rfl | rfl <;> omega

theorem geo_diag {o t : Nat} {f df : Int} (hf : f = 1 ∨ f = -1) (hdf : df = 1 ∨ df = -1)
    (h : Spec.step o df f = some t) : ¬ t % 8 = o % 8 ∧ ¬ t = o + 16 ∧ ¬ o = t + 16 := by
  rw [step_eq_some] at h
  rcases hf with rfl | rfl <;> rcases hdf with rfl | rfl <;> omega

theorem home_not_last {o t1 t2 : Nat} (c : Spec.Color) (hr : o / 8 = Spec.homeRank c)
    (h1 : Spec.step o 0 c.fwd = some t1) (h2 : Spec.step t1 0 c.fwd = some t2) :
    ¬ t2 / 8 = Spec.lastRank c := by
  rw [step_eq_some] at h1 h2
  cases c <;> simp only [Spec.homeRank, Spec.lastRank, Spec.Color.fwd] at * <;> omega

/-- non-pawn piece moves -/
theorem facts_piece (P : Spec.Pos) (o t : Nat) (k : Spec.Kind) (hat : P.at o = some (P.turn, k))
    (hk : k ≠ .pawn) (ht : t ∈ Spec.attacksFrom P.occupied P.turn k o) :
    PFacts P (specStep P P.turn k o t) := by
  have ht64 := attacksFrom_lt _ _ _ _ _ ht
  have ho64 := at_lt hat
  have hking : k = .king → ¬ t = o + 2 ∧ ¬ t + 2 = o := fun e => king_no2 _ _ _ _ (e ▸ ht)
  have hcas : castleOf k o t = Option.none := by
    unfold castleOf
    by_cases e : k = .king
    · rw [if_pos e, if_neg (hking e).1, if_neg (hking e).2]
    · rw [if_neg e]
  unfold specStep
  cases hpt : P.at t with
  | none =>
    exact { color := rfl, capture := by simp [capOf, hk, hpt], ep := by simp [epOf, hk],
            castle := hcas.symm, dbl := by simp [dblOf, hk], mover := hat,
            capSome := by simp [Spec.Pos.occupied, hpt, hk],
            promoSome := by simp [hk], promoKind := (fun k h => by cases h),
            castleKing := fun h => absurd rfl h, src_lt := ho64, dst_lt := ht64 }
  | some x =>
    exact { color := rfl, capture := by simp [capOf, hk, hpt], ep := by simp [epOf, hk],
            castle := hcas.symm, dbl := by simp [dblOf, hk], mover := hat,
            capSome := by simp [Spec.Pos.occupied, hpt, hk],
            promoSome := by simp [hk], promoKind := (fun k h => by cases h),
            castleKing := fun h => absurd rfl h, src_lt := ho64, dst_lt := ht64 }

/-- pawn pushes and ordinary pawn captures, with or without promotion -/
theorem facts_pawn_simple (P : Spec.Pos) (o t : Nat) (cap pr : Option Spec.Kind)
    (hat : P.at o = some (P.turn, Spec.Kind.pawn)) (ht : t < 64)
    (hpr : (pr = Option.none ∧ ¬ t / 8 = Spec.lastRank P.turn) ∨
      (∃ k ∈ Spec.promoKinds, pr = some k ∧ t / 8 = Spec.lastRank P.turn))
    (hcap : cap = capOf P .pawn o t) (hep : epOf P .pawn o t = false) (hdbl : dblOf .pawn o t = false)
    (hcs : cap.isSome = (P.occupied t || (P.ep == some t))) :
    PFacts P { color := P.turn, kind := .pawn, src := o, dst := t, capture := cap, promo := pr } :=
  { color := rfl, capture := hcap, ep := hep.symm, castle := by simp [castleOf], dbl := hdbl.symm,
    mover := hat, capSome := by simpa using hcs,
    promoSome := by
      rcases hpr with ⟨rfl, h⟩ | ⟨k, _, rfl, h⟩ <;> simp [h]
    promoKind := fun k h => by
      rcases hpr with ⟨rfl, _⟩ | ⟨k', hk', rfl, _⟩
      · cases h
      · cases h; exact hk'
    castleKing := fun h => absurd rfl h, src_lt := at_lt hat, dst_lt := ht }

theorem withPromo_cases {c : Spec.Color} {o t : Nat} {cap : Option Spec.Kind} {sm : Spec.SMove}
    (h : sm ∈ withPromo c (pawnBase c o t cap)) :
    ∃ pr, sm = { color := c, kind := .pawn, src := o, dst := t, capture := cap, promo := pr } ∧
      ((pr = Option.none ∧ ¬ t / 8 = Spec.lastRank c) ∨
       (∃ k ∈ Spec.promoKinds, pr = some k ∧ t / 8 = Spec.lastRank c)) := by
  rcases (mem_withPromo _ _ _).1 h with ⟨h1, k, hk, rfl⟩ | ⟨h1, rfl⟩
  · exact ⟨some k, rfl, Or.inr ⟨k, hk, rfl, h1⟩⟩
  · exact ⟨Option.none, rfl, Or.inl ⟨rfl, h1⟩⟩

/-- all moves of `Spec.pawnMovesFrom` -/
theorem facts_pawn (P : Spec.Pos) (hok : PosOK P) (o : Nat) (hat : P.at o = some (P.turn, Spec.Kind.pawn))
    (sm : Spec.SMove) (hm : sm ∈ Spec.pawnMovesFrom P P.turn o) : PFacts P sm := by
  have hf := fwd_cases P.turn
  have ho := at_lt hat
  rw [pawnMovesFrom_eq] at hm
  simp only [List.mem_append] at hm
  rcases hm with (hm | hm) | hm
  · -- single push
    obtain ⟨t, hst, hocc, hw⟩ := (mem_sPush1 _ _ _ _).1 hm
    obtain ⟨pr, rfl, hpr⟩ := withPromo_cases hw
    obtain ⟨g1, g2, g3⟩ := geo_push1 hf hst
    have hnep : ¬ P.ep = some t := by
      intro he
      obtain ⟨_, v, hv, hpv⟩ := hok.ep t he
      have : v = o := by
        have := step_rev ho hst
        simp only [Int.neg_zero] at this
        rw [this] at hv; exact (Option.some.inj hv).symm
      rw [this, hat] at hpv
      exact opp_ne _ (congrArg Prod.fst (Option.some.inj hpv)).symm
    exact facts_pawn_simple P o t _ pr hat (step_lt hst) hpr (by simp [capOf, g1]) (by simp [epOf, g1])
      (by simp [dblOf, g2, g3]) (by simp [hocc, hnep])
  · -- double push
    obtain ⟨hr, t1, t2, h1, h2, ho1, ho2, rfl⟩ := (mem_sPush2 _ _ _ _).1 hm
    obtain ⟨g1, g2⟩ := geo_push2 hf h1 h2
    have hnep : ¬ P.ep = some t2 := by
      intro he
      obtain ⟨_, v, hv, hpv⟩ := hok.ep t2 he
      have : v = t1 := by
        have := step_rev (step_lt h1) h2
        simp only [Int.neg_zero] at this
        rw [this] at hv; exact (Option.some.inj hv).symm
      rw [this] at hpv
      rw [(occupied_false_iff _ _).1 ho1] at hpv; cases hpv
    have hnl := home_not_last P.turn hr h1 h2
    exact { color := rfl, capture := by simp [pawnBase, capOf, g1], ep := by simp [pawnBase, epOf, g1]
            castle := by simp [pawnBase, castleOf]
            dbl := by
              rcases g2 with g2 | g2 <;> simp [pawnBase, dblOf, g2]
            mover := hat
            capSome := by simp [pawnBase, ho2, hnep]
            promoSome := by simp [pawnBase, hnl]
            promoKind := fun k h => by cases h
            castleKing := fun h => absurd rfl h
            src_lt := ho, dst_lt := step_lt h2 }
  · -- captures
    obtain ⟨east, t, hst, hm⟩ := (mem_sCaps _ _ _ _).1 hm
    have hdf : capDf east = 1 ∨ capDf east = -1 := by cases east <;> simp [capDf]
    obtain ⟨g1, g2, g3⟩ := geo_diag hf hdf hst
    rcases (mem_sCapAt _ _ _ _ _).1 hm with ⟨k, hpt, hw⟩ | ⟨hpt, hep, rfl⟩
    · obtain ⟨pr, rfl, hpr⟩ := withPromo_cases hw
      exact facts_pawn_simple P o t _ pr hat (step_lt hst) hpr (by simp [capOf, g1, hpt])
        (by simp [epOf, hpt]) (by simp [dblOf, g2, g3]) (by simp [Spec.Pos.occupied, hpt])
    · have hnl := (hok.ep t hep).1
      exact { color := rfl, capture := by simp [pawnBase, capOf, g1, hpt]
              ep := by simp [pawnBase, epOf, g1, hpt]
              castle := by simp [pawnBase, castleOf]
              dbl := by simp [pawnBase, dblOf, g2, g3]
              mover := hat
              capSome := by simp [pawnBase, hep]
              promoSome := by simp [pawnBase, hnl]
              promoKind := fun k h => by cases h
              castleKing := fun h => absurd rfl h
              src_lt := ho, dst_lt := step_lt hst }

/-- castling moves -/
theorem facts_castle (P : Spec.Pos) (hok : PosOK P) (sm : Spec.SMove)
    (hm : sm ∈ Spec.castleMoves P P.turn) : PFacts P sm := by
  have hhome := hok.kingHome sm hm
  obtain ⟨k, hk, hk'⟩ : ∃ k, Spec.kingHome P.turn = k ∧ (k = 4 ∨ k = 60) := by
    cases P.turn
    · exact ⟨4, rfl, Or.inl rfl⟩
    · exact ⟨60, rfl, Or.inr rfl⟩
  unfold Spec.castleMoves at hm
  dsimp only at hm
  rw [hk] at hm hhome
  rcases List.mem_append.1 hm with h | h
  · obtain ⟨hc, rfl⟩ := Wee.C02.mem_ite_single' h
    simp only [Bool.and_eq_true, Bool.not_eq_true'] at hc
    have hocc : P.occupied (k + 2) = false := hc.1.1.1.2
    have hnone := (occupied_false_iff _ _).1 hocc
    exact { color := rfl, capture := by simp [capOf, hnone], ep := by simp [epOf]
            castle := by simp [castleOf], dbl := by simp [dblOf], mover := hhome
            capSome := by simp [hocc], promoSome := by simp
            promoKind := fun k h => by cases h
            castleKing := fun _ => ⟨rfl, hk.symm⟩
            src_lt := by rcases hk' with rfl | rfl <;> simp
            dst_lt := by rcases hk' with rfl | rfl <;> simp }
  · obtain ⟨hc, rfl⟩ := Wee.C02.mem_ite_single' h
    simp only [Bool.and_eq_true, Bool.not_eq_true'] at hc
    have hocc : P.occupied (k - 2) = false := hc.1.1.1.1.2
    have hnone := (occupied_false_iff _ _).1 hocc
    have h1 : ¬ k - 2 = k + 2 := by omega
    have h2 : k - 2 + 2 = k := by omega
    exact { color := rfl, capture := by simp [capOf, hnone], ep := by simp [epOf]
            castle := by simp [castleOf, h1, h2], dbl := by simp [dblOf], mover := hhome
            capSome := by simp [hocc], promoSome := by simp
            promoKind := fun k h => by cases h
            castleKing := fun _ => ⟨rfl, hk.symm⟩
            src_lt := by rcases hk' with rfl | rfl <;> simp
            dst_lt := by rcases hk' with rfl | rfl <;> simp }

/-- **every pseudo-legal move of the rules has the listed attributes** -/
theorem facts_of_pseudo (P : Spec.Pos) (hok : PosOK P) (sm : Spec.SMove)
    (hm : sm ∈ Spec.pseudoMoves P) : PFacts P sm := by
  rcases (mem_pseudoMoves P sm).1 hm with ⟨o, k, hat, hm⟩ | hm
  · by_cases hk : k = Spec.Kind.pawn
    · subst hk
      rw [if_pos rfl] at hm
      exact facts_pawn P hok o hat sm hm
    · rw [if_neg hk] at hm
      obtain ⟨t, ht, _, rfl⟩ := (mem_pieceMovesFrom _ _ _ _ _).1 hm
      exact facts_piece P o t k hat hk ht
  · exact facts_castle P hok sm hm

/-- a pseudo-legal move is determined by kind, origin, destination and promotion -/
theorem pseudo_inj {P : Spec.Pos} {a b : Spec.SMove} (ha : PFacts P a) (hb : PFacts P b)
    (hk : a.kind = b.kind) (hs : a.src = b.src) (hd : a.dst = b.dst) (hp : a.promo = b.promo) : a = b := by
  obtain ⟨c1, k1, s1, d1, cap1, p1, e1, cs1, db1⟩ := a
  obtain ⟨c2, k2, s2, d2, cap2, p2, e2, cs2, db2⟩ := b
  have h1 := ha.color; have h2 := ha.capture; have h3 := ha.ep; have h4 := ha.castle; have h5 := ha.dbl
  have g1 := hb.color; have g2 := hb.capture; have g3 := hb.ep; have g4 := hb.castle; have g5 := hb.dbl
  simp only at hk hs hd hp h1 h2 h3 h4 h5 g1 g2 g3 g4 g5
  subst hk hs hd hp
  rw [h1, h2, h3, h4, h5, g1, g2, g3, g4, g5]

/-! ### `Spec.LegalPos` gives `PosOK` -/

theorem castle_right (P : Spec.Pos) (c : Spec.Color) (sm : Spec.SMove) (hm : sm ∈ Spec.castleMoves P c) :
    (c = .white → P.wk = true ∨ P.wq = true) ∧ (c = .black → P.bk = true ∨ P.bq = true) := by
  unfold Spec.castleMoves at hm
  dsimp only at hm
  rcases List.mem_append.1 hm with h | h
  · obtain ⟨hc, _⟩ := Wee.C02.mem_ite_single' h
    simp only [Bool.and_eq_true] at hc
    have := hc.1.1.1.1.1
    constructor <;> (intro e; subst e; exact Or.inl this)
  · obtain ⟨hc, _⟩ := Wee.C02.mem_ite_single' h
    simp only [Bool.and_eq_true] at hc
    have := hc.1.1.1.1.1.1
    constructor <;> (intro e; subst e; exact Or.inr this)

theorem posOK_of_legal (P : Spec.Pos) (hl : Spec.LegalPos P = true) : PosOK P := by
  unfold Spec.LegalPos at hl
  simp only [Bool.and_eq_true] at hl
  obtain ⟨⟨⟨⟨⟨⟨⟨⟨⟨_, hcw⟩, hcb⟩, _⟩, _⟩, hwk⟩, hwq⟩, hbk⟩, hbq⟩, hep⟩ := hl
  have key : ∀ (b : Bool) (x y : Bool), (!b || (x && y)) = true → b = true → x = true := by
    intro b x y h hb; subst hb; simp at h; exact h.1
  refine ⟨?_, ?_, ?_⟩
  · -- one king
    have hcount : Spec.count P P.turn .king = 1 := by
      cases P.turn
      · simpa using hcw
      · simpa using hcb
    intro o o' h1 h2
    unfold Spec.count at hcount
    obtain ⟨a, ha⟩ := List.length_eq_one_iff.1 hcount
    have m1 : o ∈ (List.range 64).filter fun s => P.at s == some (P.turn, Spec.Kind.king) := by
      rw [List.mem_filter]; exact ⟨List.mem_range.2 (at_lt h1), by simp [h1]⟩
    have m2 : o' ∈ (List.range 64).filter fun s => P.at s == some (P.turn, Spec.Kind.king) := by
      rw [List.mem_filter]; exact ⟨List.mem_range.2 (at_lt h2), by simp [h2]⟩
    rw [ha, List.mem_singleton] at m1 m2
    rw [m1, m2]
  · -- castling only with the king at home
    intro sm hm
    have hr := castle_right P P.turn sm hm
    cases hc : P.turn
    · rcases hr.1 hc with hr | hr
      · have := key _ _ _ hwk hr; simpa [Spec.kingHome] using this
      · have := key _ _ _ hwq hr; simpa [Spec.kingHome] using this
    · rcases hr.2 hc with hr | hr
      · have := key _ _ _ hbk hr; simpa [Spec.kingHome] using this
      · have := key _ _ _ hbq hr; simpa [Spec.kingHome] using this
  · -- en-passant target
    intro t he
    rw [he] at hep
    simp only [Bool.and_eq_true] at hep
    obtain ⟨⟨⟨h1, _⟩, h3⟩, _⟩ := hep
    constructor
    · cases hc : P.turn <;> rw [hc] at h1 <;> simp [Spec.Color.opp] at h1 <;> simp [Spec.lastRank, h1]
    · rw [← Wee.C02.opp_fwd]
      cases hs : Spec.step t 0 P.turn.opp.fwd with
      | none => rw [hs] at h3; cases h3
      | some v =>
        rw [hs] at h3
        exact ⟨v, rfl, by simpa using h3⟩

theorem posOK_abs (s : State) (hl : LegalPos s = true) : PosOK (abs s) := posOK_of_legal _ hl

/-! ## part 2: the packed moves of `compute_legal_moves` -/

open Wee.SanP

theorem inj_of_nodup_map {α β : Type} (f : α → β) : ∀ (l : List α), (l.map f).Nodup →
    ∀ x ∈ l, ∀ y ∈ l, f x = f y → x = y := by
  intro l
  induction l with
  | nil => intro _ x hx; cases hx
  | cons a l ih =>
    intro hnd x hx y hy e
    rw [List.map_cons, List.nodup_cons] at hnd
    rcases List.mem_cons.1 hx with h1 | h1 <;> rcases List.mem_cons.1 hy with h2 | h2
    · rw [h1, h2]
    · subst h1; exact absurd (e ▸ List.mem_map_of_mem h2) hnd.1
    · subst h2; exact absurd (e ▸ List.mem_map_of_mem h1) hnd.1
    · exact ih hnd.2 x h1 y h2 e

theorem ofCode_lt (n : Nat) (h : (Piece.ofCode? n).isSome = true) : n < 7 := by
  by_cases hn : n < 7
  · exact hn
  · obtain ⟨k, rfl⟩ : ∃ k, n = k + 7 := ⟨n - 7, by omega⟩
    simp [Piece.ofCode?] at h

theorem promo_codes : ∀ n, n < 7 →
    (((if n = 0 then Option.none else Piece.ofCode? n).bind absKind = Option.none ∨
      (if n = 0 then Option.none else Piece.ofCode? n).bind absKind ∈
        [some Spec.Kind.queen, some Spec.Kind.rook, some Spec.Kind.bishop, some Spec.Kind.knight]) →
    (if n = 0 then Option.none else Piece.ofCode? n) ∈ lanPromos) := by decide

/-- accessor consistency of a packed move with valid codes that reads as a pseudo-legal rule move -/
theorem accOK_of_facts {P : Spec.Pos} {m : Move} {sm : Spec.SMove} (hsm : toSpecMove m = some sm)
    (hc : Wee.C02.CodesOk m) (hf : PFacts P sm) : AccOK m := by
  obtain ⟨hpiece, hsmeq⟩ := (toSpecMove_eq_some m sm).1 hsm
  have hpromo : sm.promo = (Move.promotion m).bind absKind := congrArg Spec.SMove.promo hsmeq
  have hcast : sm.castle = (Move.castleSide m).map (fun s => s == .king) := congrArg Spec.SMove.castle hsmeq
  have hcap : Move.captureCode m < 7 := by
    rcases hc.1 with h | h
    · omega
    · exact ofCode_lt _ h
  have hpc : Move.promotionCode m < 7 := by
    rcases hc.2 with h | h
    · omega
    · exact ofCode_lt _ h
  have hpr : Move.promotion m ∈ lanPromos := by
    apply promo_codes _ hpc
    show (Move.promotion m).bind absKind = Option.none ∨ (Move.promotion m).bind absKind ∈ _
    rw [← hpromo]
    cases hp : sm.promo with
    | none => exact Or.inl rfl
    | some k =>
      right
      have := hf.promoKind k hp
      simp only [Spec.promoKinds, List.mem_cons, List.not_mem_nil, or_false] at this
      rcases this with rfl | rfl | rfl | rfl <;> simp
  refine ⟨by rw [hpiece, absKind_kindPiece]; rfl, hcap, hpr, fun hne => ?_, fun hne => ?_⟩
  · -- only pawns promote
    have hs : sm.promo.isSome = true := by
      rw [hpromo]
      simp only [lanPromos, List.mem_cons, List.not_mem_nil, or_false] at hpr
      rcases hpr with h | h | h | h | h
      · exact absurd h hne
      all_goals rw [h]; rfl
    rw [hf.promoSome] at hs
    simp only [Bool.and_eq_true, decide_eq_true_eq] at hs
    rw [hpiece, hs.1]; rfl
  · -- castling moves are king moves
    have : sm.castle ≠ Option.none := by
      rw [hcast]
      cases h : Move.castleSide m with
      | none => exact absurd h hne
      | some sd => simp
    rw [hpiece, (hf.castleKing this).1]; rfl

/-- what is known about every move of the legal-move list of a legal position -/
theorem mem_data (s : State) (hl : LegalPos s = true) (hd : DisjointBoard s.pieces) (m : Move)
    (hm : m ∈ (legalMoves s).map (·.1)) :
    ∃ sm, toSpecMove m = some sm ∧ sm ∈ Spec.legalMoves (abs s) ∧ PFacts (abs s) sm ∧ AccOK m := by
  obtain ⟨r, hr, rfl⟩ := List.mem_map.1 hm
  obtain ⟨⟨L0, hL0⟩, hres⟩ := C01_legal_results s hl hd
  obtain ⟨sm, hsm, hleg, _⟩ := hres r hr
  have hLe : legalMoves s = L0 := by unfold legalMoves; rw [hL0]; rfl
  rw [hLe] at hr
  obtain ⟨_, ps, hps, hmem⟩ := Wee.C02.mem_legalMoves? hL0 hr
  have hcodes := Wee.C02.codesOk_of_generated s ps hps r.1 hmem
  have hpseudo : sm ∈ Spec.pseudoMoves (abs s) := (List.mem_filter.1 hleg).1
  have hf := facts_of_pseudo (abs s) (posOK_abs s hl) sm hpseudo
  exact ⟨sm, hsm, hleg, hf, accOK_of_facts hsm hcodes hf⟩

/-- reading a packed move through its accessors is injective on the legal-move list -/
theorem toSpec_inj (s : State) (hl : LegalPos s = true) (hd : DisjointBoard s.pieces) :
    ∀ m ∈ (legalMoves s).map (·.1), ∀ m' ∈ (legalMoves s).map (·.1),
      toSpecMove m = toSpecMove m' → m = m' := by
  apply inj_of_nodup_map
  rw [List.map_map]
  exact (C01_moves s hl hd).2

theorem spec_fields {m : Move} {sm : Spec.SMove} (hsm : toSpecMove m = some sm) :
    Move.piece m = kindPiece sm.kind ∧ sm.src = Move.origin m ∧ sm.dst = Move.dest m ∧
    sm.promo = (Move.promotion m).bind absKind ∧ sm.capture = (Move.capture m).bind absKind ∧
    sm.castle = (Move.castleSide m).map (fun s => s == .king) := by
  obtain ⟨hpiece, hsmeq⟩ := (toSpecMove_eq_some m sm).1 hsm
  exact ⟨hpiece, congrArg Spec.SMove.src hsmeq, congrArg Spec.SMove.dst hsmeq,
    congrArg Spec.SMove.promo hsmeq, congrArg Spec.SMove.capture hsmeq, congrArg Spec.SMove.castle hsmeq⟩

theorem promo_isSome {m : Move} (h : AccOK m) :
    ((Move.promotion m).bind absKind).isSome = (Move.promotion m).isSome := by
  rcases h.promotion' with h | ⟨k, _, h⟩ <;> simp [h, absKind_kindPiece]

theorem kindPiece_king {k : Spec.Kind} (h : kindPiece k = Piece.king) : k = .king :=
  kindPiece_inj (a := k) (b := .king) h

theorem castleOf_dst {k : Spec.Kind} {src d d' : Nat} (h : castleOf k src d ≠ Option.none)
    (e : castleOf k src d = castleOf k src d') : d = d' := by
  unfold castleOf at h e
  by_cases hk : k = .king
  · simp only [if_pos hk] at h e
    by_cases a1 : d = src + 2 <;> by_cases a2 : d + 2 = src <;> by_cases b1 : d' = src + 2 <;>
      by_cases b2 : d' + 2 = src <;> simp [a1, a2, b1, b2] at h e <;> omega
  · simp only [if_neg hk] at h; exact absurd rfl h

/-- the seven fields of `WFMoves` for the legal-move list of a legal position -/
theorem wf_acc (s : State) (hl : LegalPos s = true) (hd : DisjointBoard s.pieces) :
    ∀ m ∈ (legalMoves s).map (·.1), AccOK m := fun m hm => by
  obtain ⟨_, _, _, _, h⟩ := mem_data s hl hd m hm; exact h

theorem wf_inj (s : State) (hl : LegalPos s = true) (hd : DisjointBoard s.pieces) :
    ∀ m ∈ (legalMoves s).map (·.1), ∀ m' ∈ (legalMoves s).map (·.1),
      Move.piece m = Move.piece m' → Move.origin m = Move.origin m' →
      Move.dest m = Move.dest m' → Move.promotion m = Move.promotion m' → m = m' := by
  intro m hm m' hm' hp ho hde hpr
  obtain ⟨sm, hsm, _, hf, _⟩ := mem_data s hl hd m hm
  obtain ⟨sm', hsm', _, hf', _⟩ := mem_data s hl hd m' hm'
  obtain ⟨a1, a2, a3, a4, _, _⟩ := spec_fields hsm
  obtain ⟨b1, b2, b3, b4, _, _⟩ := spec_fields hsm'
  have : sm = sm' := pseudo_inj hf hf' (kindPiece_inj (by rw [← a1, ← b1, hp])) (by rw [a2, b2, ho])
    (by rw [a3, b3, hde]) (by rw [a4, b4, hpr])
  exact toSpec_inj s hl hd m hm m' hm' (by rw [hsm, hsm', this])

theorem wf_capFn (s : State) (hl : LegalPos s = true) (hd : DisjointBoard s.pieces) :
    ∀ m ∈ (legalMoves s).map (·.1), ∀ m' ∈ (legalMoves s).map (·.1),
      Move.piece m = Move.piece m' → Move.dest m = Move.dest m' →
      Move.isCapture m = Move.isCapture m' := by
  intro m hm m' hm' hp hde
  obtain ⟨sm, hsm, _, hf, hacc⟩ := mem_data s hl hd m hm
  obtain ⟨sm', hsm', _, hf', hacc'⟩ := mem_data s hl hd m' hm'
  obtain ⟨a1, _, a3, _, a5, _⟩ := spec_fields hsm
  obtain ⟨b1, _, b3, _, b5, _⟩ := spec_fields hsm'
  have hk : sm.kind = sm'.kind := kindPiece_inj (by rw [← a1, ← b1, hp])
  have hdd : sm.dst = sm'.dst := by rw [a3, b3, hde]
  rw [← capture_isSome m hacc.capture, ← capture_isSome m' hacc'.capture, ← a5, ← b5,
    hf.capSome, hf'.capSome, hk, hdd]

theorem wf_promoFn (s : State) (hl : LegalPos s = true) (hd : DisjointBoard s.pieces) :
    ∀ m ∈ (legalMoves s).map (·.1), ∀ m' ∈ (legalMoves s).map (·.1),
      Move.piece m = Move.piece m' → Move.dest m = Move.dest m' →
      (Move.promotion m).isSome = (Move.promotion m').isSome := by
  intro m hm m' hm' hp hde
  obtain ⟨sm, hsm, _, hf, hacc⟩ := mem_data s hl hd m hm
  obtain ⟨sm', hsm', _, hf', hacc'⟩ := mem_data s hl hd m' hm'
  obtain ⟨a1, _, a3, a4, _, _⟩ := spec_fields hsm
  obtain ⟨b1, _, b3, b4, _, _⟩ := spec_fields hsm'
  have hk : sm.kind = sm'.kind := kindPiece_inj (by rw [← a1, ← b1, hp])
  have hdd : sm.dst = sm'.dst := by rw [a3, b3, hde]
  rw [← promo_isSome hacc, ← promo_isSome hacc', ← a4, ← b4, hf.promoSome, hf'.promoSome, hk, hdd]

theorem wf_pieceFn (s : State) (hl : LegalPos s = true) (hd : DisjointBoard s.pieces) :
    ∀ m ∈ (legalMoves s).map (·.1), ∀ m' ∈ (legalMoves s).map (·.1),
      Move.origin m = Move.origin m' → Move.piece m = Move.piece m' := by
  intro m hm m' hm' ho
  obtain ⟨sm, hsm, _, hf, _⟩ := mem_data s hl hd m hm
  obtain ⟨sm', hsm', _, hf', _⟩ := mem_data s hl hd m' hm'
  obtain ⟨a1, a2, _⟩ := spec_fields hsm
  obtain ⟨b1, b2, _⟩ := spec_fields hsm'
  have h1 := hf.mover
  have h2 := hf'.mover
  rw [a2, ho, ← b2, h2] at h1
  have : sm'.kind = sm.kind := congrArg Prod.snd (Option.some.inj h1)
  rw [a1, b1, this]

theorem wf_oneKing (s : State) (hl : LegalPos s = true) (hd : DisjointBoard s.pieces) :
    ∀ m ∈ (legalMoves s).map (·.1), ∀ m' ∈ (legalMoves s).map (·.1),
      Move.piece m = .king → Move.piece m' = .king → Move.origin m = Move.origin m' := by
  intro m hm m' hm' hk hk'
  obtain ⟨sm, hsm, _, hf, _⟩ := mem_data s hl hd m hm
  obtain ⟨sm', hsm', _, hf', _⟩ := mem_data s hl hd m' hm'
  obtain ⟨a1, a2, _⟩ := spec_fields hsm
  obtain ⟨b1, b2, _⟩ := spec_fields hsm'
  have h1 := hf.mover
  have h2 := hf'.mover
  rw [kindPiece_king (a1.symm.trans hk)] at h1
  rw [kindPiece_king (b1.symm.trans hk')] at h2
  rw [← a2, ← b2]
  exact (posOK_abs s hl).oneKing _ _ h1 h2

/-- at most one castling move per side among the pseudo-legal moves -/
theorem pseudo_castle_inj {P : Spec.Pos} {a b : Spec.SMove} (ha : PFacts P a) (hb : PFacts P b)
    (hc : a.castle ≠ Option.none) (hcc : a.castle = b.castle) : a = b := by
  have hc' : b.castle ≠ Option.none := hcc ▸ hc
  obtain ⟨k1, s1⟩ := ha.castleKing hc
  obtain ⟨k2, s2⟩ := hb.castleKing hc'
  have hk : a.kind = b.kind := k1.trans k2.symm
  have hs : a.src = b.src := s1.trans s2.symm
  have hdd : a.dst = b.dst := by
    have e1 := ha.castle
    have e2 := hb.castle
    rw [← hk, ← hs] at e2
    exact castleOf_dst (e1 ▸ hc) (by rw [← e1, ← e2, hcc])
  have hpp : a.promo = b.promo := by
    have p1 := ha.promoSome
    have p2 := hb.promoSome
    rw [k1] at p1; rw [k2] at p2
    simp at p1 p2
    rw [p1, p2]
  exact pseudo_inj ha hb hk hs hdd hpp

theorem wf_castle (s : State) (hl : LegalPos s = true) (hd : DisjointBoard s.pieces) :
    ∀ m ∈ (legalMoves s).map (·.1), ∀ m' ∈ (legalMoves s).map (·.1),
      Move.castleSide m ≠ Option.none → Move.castleSide m = Move.castleSide m' → m = m' := by
  intro m hm m' hm' hne he
  obtain ⟨sm, hsm, _, hf, _⟩ := mem_data s hl hd m hm
  obtain ⟨sm', hsm', _, hf', _⟩ := mem_data s hl hd m' hm'
  obtain ⟨_, _, _, _, _, a6⟩ := spec_fields hsm
  obtain ⟨_, _, _, _, _, b6⟩ := spec_fields hsm'
  have hc : sm.castle ≠ Option.none := by
    rw [a6]
    cases h : Move.castleSide m with
    | none => exact absurd h hne
    | some sd => simp
  have hcc : sm.castle = sm'.castle := by rw [a6, b6, he]
  have : sm = sm' := pseudo_castle_inj hf hf' hc hcc
  exact toSpec_inj s hl hd m hm m' hm' (by rw [hsm, hsm', this])

/-- **legal move lists of legal positions are well-formed** -/
theorem wfMoves_legal (s : State) (hl : LegalPos s = true) (hd : DisjointBoard s.pieces) :
    WFMoves ((legalMoves s).map (·.1)) :=
  ⟨wf_acc s hl hd, wf_inj s hl hd, wf_capFn s hl hd, wf_promoFn s hl hd, wf_pieceFn s hl hd,
   wf_oneKing s hl hd, wf_castle s hl hd⟩

/-! ## part 3: the legal-move list against the rules' list (for the SAN writer) -/

/-- the generated list, read through the accessors, is a permutation of the rules' legal moves -/
theorem filterMap_perm (s : State) (hl : LegalPos s = true) (hd : DisjointBoard s.pieces) :
    (((legalMoves s).map (·.1)).filterMap toSpecMove).Perm (Spec.legalMoves (abs s)) := by
  have h := ((C01_moves s hl hd).1).filterMap id
  rw [List.filterMap_map, List.filterMap_map] at h
  have e1 : (legalMoves s).filterMap (id ∘ (toSpecMove ∘ (·.1))) =
      ((legalMoves s).map (·.1)).filterMap toSpecMove := by
    rw [List.filterMap_map]; rfl
  have e2 : (Spec.legalMoves (abs s)).filterMap (id ∘ some) = Spec.legalMoves (abs s) := by
    show (Spec.legalMoves (abs s)).filterMap some = _
    exact List.filterMap_some
  rw [e1, e2] at h
  exact h

theorem nodup_legal (s : State) (hl : LegalPos s = true) (hd : DisjointBoard s.pieces) :
    ((legalMoves s).map (·.1)).Nodup := by
  have h := (C01_moves s hl hd).2
  rw [← List.map_map] at h
  exact List.Pairwise.of_map toSpecMove (fun a b hab e => hab (e ▸ rfl)) h

/-- what the SAN rules denote does not depend on the order of the move list -/
theorem denotes_perm {L1 L2 : List Spec.SMove} (h : L1.Perm L2) (parts : Spec.SanParts) (m : Spec.SMove) :
    (Spec.denotes L1 parts == [m]) = (Spec.denotes L2 parts == [m]) := by
  rw [Bool.eq_iff_iff, beq_iff_eq, beq_iff_eq, denotes_eq, denotes_eq]
  have hp := h.filter (matchesParts parts)
  constructor
  · intro e; rw [e] at hp; exact (List.perm_singleton.1 hp.symm)
  · intro e; rw [e] at hp; exact (List.perm_singleton.1 hp)

theorem spellingsIn_perm {L1 L2 : List Spec.SMove} (h : L1.Perm L2) (mark : String) (m : Spec.SMove) :
    spellingsIn L1 mark m = spellingsIn L2 mark m := by
  unfold spellingsIn
  have : (fun s => Spec.denotes L1 s == [m]) = (fun s => Spec.denotes L2 s == [m]) :=
    funext fun s => denotes_perm h s m
  rw [this]

/-- every legal move of the rules is the reading of a generated move -/
theorem exists_packed (s : State) (hl : LegalPos s = true) (hd : DisjointBoard s.pieces)
    (sm : Spec.SMove) (hsm : sm ∈ Spec.legalMoves (abs s)) :
    ∃ m ∈ (legalMoves s).map (·.1), toSpecMove m = some sm := by
  have := ((filterMap_perm s hl hd).mem_iff (a := sm)).2 hsm
  obtain ⟨m, hm, e⟩ := List.mem_filterMap.1 this
  exact ⟨m, hm, e⟩

/-- `NegOK` for a pseudo-legal, non-castling move of the rules -/
theorem negOK_pseudo (s : State) (hl : LegalPos s = true) (hd : DisjointBoard s.pieces)
    (sm : Spec.SMove) (hps : sm ∈ Spec.pseudoMoves (abs s)) (hnc : sm.castle = Option.none) :
    NegOK ((legalMoves s).map (·.1)) sm := by
  have hf := facts_of_pseudo (abs s) (posOK_abs s hl) sm hps
  refine ⟨hnc, hf.src_lt, hf.dst_lt, fun k hk => ⟨hf.promoKind k hk, ?_⟩, ?_, ?_⟩
  · have := hf.promoSome
    rw [hk] at this
    simp only [Option.isSome_some, Bool.true_eq, Bool.and_eq_true, decide_eq_true_eq] at this
    exact this.1
  · intro m' hm' sm' hsm' hk hs hdd hp
    obtain ⟨sm2, hsm2, _, hf', _⟩ := mem_data s hl hd m' hm'
    rw [hsm'] at hsm2; cases hsm2
    exact pseudo_inj hf' hf hk hs hdd hp
  · intro hp m' hm' hpc hde
    obtain ⟨sm', hsm', _, hf', hacc'⟩ := mem_data s hl hd m' hm'
    obtain ⟨b1, _, b3, b4, _, _⟩ := spec_fields hsm'
    have hk : sm'.kind = sm.kind := kindPiece_inj (by rw [← b1, hpc])
    have h1 := hf'.promoSome
    have h2 := hf.promoSome
    rw [hk, b3, hde, ← h2, hp] at h1
    have : sm'.promo = Option.none := by
      cases h : sm'.promo with
      | none => rfl
      | some k => rw [h] at h1; cases h1
    rw [b4] at this
    exact (promo_bind_none m' hacc').1 this

/-- an illegal pseudo-legal move is not the reading of any generated legal move -/
theorem illegal_not_listed (s : State) (hl : LegalPos s = true) (hd : DisjointBoard s.pieces)
    (sm : Spec.SMove) (hill : sm ∈ Spec.illegalPseudo (abs s)) :
    ∀ m' ∈ (legalMoves s).map (·.1), toSpecMove m' ≠ some sm := by
  intro m' hm' e
  obtain ⟨sm', hsm', hleg, _⟩ := mem_data s hl hd m' hm'
  rw [e] at hsm'; cases hsm'
  have h1 := (List.mem_filter.1 hleg).2
  have h2 := (List.mem_filter.1 hill).2
  rw [h1] at h2; cases h2

end Wee.WfM
