import Wee.Gen.IterateFns
import Wee.Proofs.SearchIterBridge
import Wee.Proofs.GenMovesBridge
import Wee.Proofs.CoreFnsBridge
import Wee.Proofs.TTFnsBridge
/-!
# Stage 6: the frame of `Searcher::analyze_iterative` (generated `Wee/Gen/IterateFns.lean`) refines the model's `iterate`

Set-up (`previous_artifact` or a fresh artifact, root hash, history increment, the F2 limit rule), the loop (stage 4e's
`Searcher.analyze_iterative.loop_refines_init`) and the tail (saturation warning, returned artifact).

Hypotheses that stay hypotheses, by name:
* `hstep` / `hwalk` (`Inv`, `WalkOK`): stage 4e's invariant of the model's loop states (stored moves lead to representable states);
* `hsat : Iter5SatAgree tt` for the table the loop leaves: the code compares the f32 quotient `entries as f32 / max_entries as f32`
  with `0.5`, the model compares `entries * 2 > maxEntries` exactly.  The two agree when both counts are below 2^24 (not proved here) and can
  disagree above (entries = 2^24 + 1, maxEntries = 2^25); the real table has 128 * 26214 * 8 > 2^24 slots, so the agreement is carried.
* the fresh case names the drawn key table `kr` (`hkr : KeyTable.ofRng rng0 = kr`) and carries its two sizes (see `…_refines_fresh`).
Not covered: `max_depth = None` (stage 4e's loop theorem needs `max_depth + 90 < 2^31`).
-/
namespace Wee
namespace GenFns
open Wee.Search Wee.SearchCtl

/-! ## run equations of `Iter5M` -/

theorem iter5_bind {α β : Type} (x : Iter5M α) (f : α → Iter5M β) (c : Iter5Cells) :
    (x >>= f) c = match x c with | (.ok a, c') => f a c' | (.error e, c') => (.error e, c') := rfl
theorem iter5_pure_bind {α β : Type} (a : α) (f : α → Iter5M β) (c : Iter5Cells) : ((pure a : Iter5M α) >>= f) c = f a c := rfl
theorem iter5_pure {α : Type} (a : α) (c : Iter5Cells) : (pure a : Iter5M α) c = (.ok a, c) := rfl
theorem iter5_liftP_some_bind {α β : Type} (a : α) (f : α → Iter5M β) (c : Iter5Cells) :
    (Iter5M.liftP (some a) >>= f) c = f a c := rfl
theorem iter5_liftP_none_bind {α β : Type} (f : α → Iter5M β) (c : Iter5Cells) :
    (Iter5M.liftP (none : Panics α) >>= f) c = (.error .panic, c) := rfl
theorem iter5_liftP_some {α : Type} (a : α) (c : Iter5Cells) : (Iter5M.liftP (some a)) c = (.ok a, c) := rfl

/-! ## representation -/

/-- a call of the callback, read as the model's event (the text of the warning is not modelled) -/
def iter5EventOf : Iter5Event → Event
  | .Status e => eventOf e
  | .Warning _ _ _ => .warning

/-- the returned `SearchArtifact` represents the model's `Artifact` -/
structure Iter5ArtRep (a : Iter5SearchArtifact) (m : Artifact) : Prop where
  hasher : a.f_hasher = zobristOf m.keys
  tt : accessOf a.f_transpositions = m.tt
  wf : AccessWF a.f_transpositions
  history : HistRep a.f_state_history m.history

/-- the code's f32 comparison `saturation() > 0.5` agrees with the model's exact `entries * 2 > maxEntries` on this table -/
def Iter5SatAgree (tt : TT.Access) : Prop :=
  (Wee.F32.div (Wee.F32.ofInt (tt.entries : Int)) (Wee.F32.ofInt (tt.maxEntries : Int)) > (1 : Rat) / 2) ↔ tt.entries * 2 > tt.maxEntries

/-- the final loop state of the model's `iterate` for a depth limit -/
def iter5Final (root : Wee.State) (rng0 : Rng.ChaCha8) (lim : Nat) (art : Artifact) (workersOf : Nat → Nat) (cancelAt : Option Nat) : IterSt :=
  iterLoop { keys := art.keys.keys, history := Wee.hash art.keys.keys root :: art.history, cancelAt := cancelAt } root (Wee.hash art.keys.keys root) workersOf
    (if (legalMoves root).isEmpty then 0 else lim) 0
    { tt := art.tt, rng := rng0, events := [], nodes := 0, bestEval := Ev.negInf, bestMv := Option.none, polls := 0 }

theorem iter5_iterate_some (root : Wee.State) (rng0 : Rng.ChaCha8) (d : Nat) (art : Artifact) (workersOf : Nat → Nat) (cancelAt : Option Nat) (fuel : Nat) :
    iterate root rng0 (some d) art workersOf cancelAt fuel =
      { events := if (iter5Final root rng0 d art workersOf cancelAt).panic.isNone &&
            decide ((iter5Final root rng0 d art workersOf cancelAt).tt.entries * 2 > (iter5Final root rng0 d art workersOf cancelAt).tt.maxEntries)
          then (iter5Final root rng0 d art workersOf cancelAt).events ++ [.warning] else (iter5Final root rng0 d art workersOf cancelAt).events
        artifact := { keys := art.keys, tt := (iter5Final root rng0 d art workersOf cancelAt).tt, history := Wee.hash art.keys.keys root :: art.history }
        panic := (iter5Final root rng0 d art workersOf cancelAt).panic } := rfl

/-- with no depth limit the model runs `fuel` iterations -/
theorem iter5_iterate_none (root : Wee.State) (rng0 : Rng.ChaCha8) (art : Artifact) (workersOf : Nat → Nat) (cancelAt : Option Nat) (fuel : Nat) :
    iterate root rng0 none art workersOf cancelAt fuel = iterate root rng0 (some fuel) art workersOf cancelAt fuel := rfl

/-! ## set-up: the fresh artifact -/

theorem iter5_range_mapM_const {β : Type} (t : β) : ∀ (n : Nat) (lo : UInt64),
    SPrim.range_mapM (m := Panics) (fun _ => some t) n lo = some (List.replicate n t)
  | 0, _ => rfl
  | n + 1, lo => by
    show (do let b ← some t; let bs ← SPrim.range_mapM (m := Panics) (fun _ => some t) n (lo + 1); pure (b :: bs)) = _
    rw [iter5_range_mapM_const t n (lo + 1)]; rfl

theorem iter5_range_map_collect_const {β : Type} (t : β) (lo hi : UInt64) :
    SPrim.range_map_collect (m := Panics) lo hi (fun _ => some t) = some (Array.replicate (hi.toNat - lo.toNat) t) := by
  unfold SPrim.range_map_collect
  rw [iter5_range_mapM_const]
  simp [bind, pure]

/-- bucket count of one fresh table: `1024 * 1024 * 1024 / 128 / 320` -/
def iter5FreshBuckets : UInt64 := 26214
/-- number of fresh tables (`TABLE_COUNT`) -/
def iter5FreshTables : Nat := 128

def iter5FreshAccess : TranspositionTableAccess :=
  ⟨Array.replicate iter5FreshTables (TranspositionTable.with_bucket_count iter5FreshBuckets)⟩

theorem iter5FreshAccess_rep : accessOf iter5FreshAccess = TT.Access.new 128 26214 :=
  accessOf_replicate _ _

theorem iter5FreshAccess_wf : AccessWF iter5FreshAccess where
  pos := by simp [iter5FreshAccess, iter5FreshTables]
  lt := by simp [iter5FreshAccess, iter5FreshTables]
  tables := by
    intro t ht
    simp only [iter5FreshAccess, Array.toList_replicate, List.mem_replicate] at ht
    rw [ht.2]
    exact TranspositionTable.with_bucket_count_wf _ (by decide) (by decide)

theorem drawN_foldl_size (xs : List Nat) : ∀ (acc : Array UInt64) (r : Rng.ChaCha8),
    (xs.foldl (fun (st : Array UInt64 × Rng.ChaCha8) _ => let (v, r') := Rng.nextU64 st.2; (st.1.push v, r')) (acc, r)).1.size = acc.size + xs.length := by
  induction xs with
  | nil => intro acc r; simp
  | cons x xs ih =>
    intro acc r
    rw [List.foldl_cons]
    have := ih (acc.push (Rng.nextU64 r).1) (Rng.nextU64 r).2
    simp only [Array.size_push] at this
    simp only [List.length_cons]
    omega

theorem drawN_size (r : Rng.ChaCha8) (n : Nat) : (drawN r n).1.size = n := by
  unfold drawN
  rw [drawN_foldl_size]; simp

/-- the TRUSTED PRIMITIVE `Iter5Prim.zobrist_with` is `zobristOf` of the model's `KeyTable.ofRng` -/
theorem Iter5Prim.zobrist_with_run (c : Iter5Cells) :
    Iter5Prim.zobrist_with c = (.ok (zobristOf (KeyTable.ofRng c.rng).1), { c with rng := (KeyTable.ofRng c.rng).2 }) := rfl

/-- **set-up, no previous artifact**: a fresh hasher from the generator, 128 empty tables of 26214 buckets, an empty history -/
theorem Searcher.analyze_iterative.fresh_artifact_run (c : Iter5Cells) :
    Searcher.analyze_iterative.fresh_artifact c =
      (.ok (zobristOf (KeyTable.ofRng c.rng).1, iter5FreshAccess, StateHistory.new), { c with rng := (KeyTable.ofRng c.rng).2 }) := by
  have hcl : (fun (_ : UInt64) => (do
      let tmp1 : UInt64 ← UInt64.checked_mul (1024 : UInt64) (1024 : UInt64)
      let tmp2 : UInt64 ← UInt64.checked_mul tmp1 (1024 : UInt64)
      let tmp3 : UInt64 ← TTPrim.checked_div tmp2 (128 : UInt64)
      TranspositionTable.with_memory tmp3 : Panics TranspositionTable)) = fun _ => some (TranspositionTable.with_bucket_count iter5FreshBuckets) := by
    funext _
    have h1 : UInt64.checked_mul (1024 : UInt64) (1024 : UInt64) = some 1048576 := by decide
    have h2 : UInt64.checked_mul (1048576 : UInt64) (1024 : UInt64) = some 1073741824 := by decide
    have h3 : TTPrim.checked_div (1073741824 : UInt64) (128 : UInt64) = some 8388608 := by decide
    simp only [h1, h2, h3, Option.bind_eq_bind, Option.bind_some, (TranspositionTable.with_memory_eq 8388608).1]
    rfl
  unfold Searcher.analyze_iterative.fresh_artifact
  rw [hcl, iter5_range_map_collect_const]
  have hw : TranspositionTableAccess.with_tables (Array.replicate ((128 : UInt64).toNat - (0 : UInt64).toNat)
      (TranspositionTable.with_bucket_count iter5FreshBuckets)) = some iter5FreshAccess :=
    TranspositionTableAccess.with_tables_eq _ (by simp) (by simp)
  simp only [iter5_bind, Iter5Prim.zobrist_with_run, iter5_liftP_some, hw, iter5_pure]

/-- the set-up of the model side: the artifact a search without a previous one starts from -/
def iter5FreshArtifact (k : KeyTable) : Artifact := { keys := k, tt := TT.Access.new 128 26214, history := [] }

/-! ## tail: the saturation value -/

theorem iter5_usize_sum_toNat {xs : List UInt64} {r : UInt64} (h : TTPrim.usize_sum xs = some r) : r.toNat = (xs.map UInt64.toNat).sum :=
  usize_sum_some h

/-- when `saturation` returns, its value is the f32 quotient of the model's counts -/
theorem TranspositionTableAccess.saturation_inv (a : TranspositionTableAccess) (w : AccessWF a) (v : Rat)
    (h : TranspositionTableAccess.saturation a = some v) :
    v = Wee.F32.div (Wee.F32.ofInt ((accessOf a).entries : Int)) (Wee.F32.ofInt ((accessOf a).maxEntries : Int)) := by
  unfold TranspositionTableAccess.saturation at h
  cases h1 : TranspositionTableAccess.entries a with
  | none => rw [h1] at h; cases h
  | some r1 =>
    cases h2 : TranspositionTableAccess.max_entries a with
    | none => rw [h1, h2] at h; cases h
    | some r2 =>
      have e1 : r1.toNat = (accessOf a).entries := by
        unfold TranspositionTableAccess.entries at h1
        cases hs : TTPrim.usize_sum (List.map (fun (t : TranspositionTable) => TranspositionTable.entries t) (Array.toList a.f_tables)) with
        | none => rw [hs] at h1; cases h1
        | some r =>
          rw [hs] at h1
          have : r = r1 := by simpa [bind, pure] using h1
          subst this
          rw [usize_sum_some hs]
          simp [TT.Access.entries, accessOf, List.map_map, Function.comp_def, TranspositionTable.entries, TT.Table.entries, tableOf]
      have e2 : r2.toNat = (accessOf a).maxEntries := by
        obtain ⟨rs, hrs, hrs'⟩ := mapM_max_entries a.f_tables.toList w.tables
        have hfun : (fun t => do let tmp1 ← TranspositionTable.max_entries t; pure tmp1) = fun t => TranspositionTable.max_entries t := by
          funext t; cases TranspositionTable.max_entries t <;> rfl
        unfold TranspositionTableAccess.max_entries at h2
        rw [hfun, hrs] at h2
        cases hs : TTPrim.usize_sum rs with
        | none => simp [hs, bind] at h2
        | some r =>
          have : r = r2 := by simpa [hs, bind, pure] using h2
          subst this
          rw [usize_sum_some hs, hrs']
          simp [TT.Access.maxEntries, accessOf, List.map_map, Function.comp_def]
      rw [h1, h2] at h
      simp only [Option.bind_eq_bind, Option.bind_some, TTPrim.f32_checked_div, e1, e2] at h
      by_cases hz : Wee.F32.ofInt (Int.ofNat (accessOf a).maxEntries) = 0
      · rw [if_pos hz] at h; cases h
      · rw [if_neg hz] at h
        simpa [pure] using h.symm

/-! ## set-up: the F2 limit rule, the reduction of the fresh case -/

/-- `MoveGenerator::compute_legal_moves(&game_state).is_empty()` is the model's `(legalMoves root).isEmpty` -/
theorem iter5_limit_rule (root : Wee.State) (ok : StateOK root) (ms : MoveSet)
    (h : MoveGenerator.compute_legal_moves (stateOf root) = some ms) : Array.isEmpty ms = (legalMoves root).isEmpty := by
  rw [MoveGenerator.compute_legal_moves_model root ok] at h
  unfold legalMoves
  cases hl : legalMoves? root with
  | none => rw [hl] at h; cases h
  | some L =>
    rw [hl] at h
    simp only [Option.map_some, Option.some.injEq] at h
    subst h
    cases L <;> simp

/-- without a previous artifact the function continues as with the fresh one, the generator advanced by the key draws -/
theorem Searcher.analyze_iterative.body_none (gs : State) (ev : Evaluator) (md : Option UInt64) (tok : CancellationToken)
    (mtc : Option UInt64) (mnt : UInt64) (c : Iter5Cells) :
    Searcher.analyze_iterative.body gs ev md tok none mtc mnt c =
      Searcher.analyze_iterative.body gs ev md tok (some ⟨zobristOf (KeyTable.ofRng c.rng).1, iter5FreshAccess, StateHistory.new⟩) mtc mnt
        { c with rng := (KeyTable.ofRng c.rng).2 } := by
  unfold Searcher.analyze_iterative.body
  simp only [iter5_bind, Searcher.analyze_iterative.fresh_artifact_run, iter5_pure]

/-! ## the whole function -/

/-- **`Searcher::analyze_iterative` with a previous artifact and a depth limit refines `iterate`** ("when it returns") -/
theorem Searcher.analyze_iterative_refines_prev (k : KeyTable) (ht : k.turn.size = 2) (he : k.epFile.size = 8)
    (a : TranspositionTableAccess) (wf : AccessWF a) (hist : StateHistory) (l : List UInt64) (hh : HistRep hist l) (hlen : l.length + 1 < 2 ^ 64)
    (root : Wee.State) (ok : StateOK root) (rng0 : Rng.ChaCha8) (d : UInt64) (hd : d.toNat + 90 < 2 ^ 31)
    (cancel : Option Nat) (mtc : Option UInt64) (mnt : UInt64)
    (Inv : Nat → IterSt → Prop)
    (hstep : ∀ n st, Inv n st → st.finished = false → st.panic = none →
      Inv (n + 1) (iterBody { keys := k.keys, history := Wee.hash k.keys root :: l, cancelAt := cancel } root (Wee.hash k.keys root) (workersOfGen mtc mnt n.toUInt64) n st))
    (hwalk : ∀ n st, Inv n st → st.finished = false → st.panic = none →
      WalkOK k.keys (workersOut { keys := k.keys, history := Wee.hash k.keys root :: l, cancelAt := cancel } root (workersOfGen mtc mnt n.toUInt64) n
        (boundaryPoll { keys := k.keys, history := Wee.hash k.keys root :: l, cancelAt := cancel } n st)).tt (n + 1) root)
    (hinv : Inv 0 (SearchCtl.iterInit rng0 { keys := k, tt := accessOf a, history := [] }))
    (hsat : Iter5SatAgree (iter5Final root rng0 d.toNat { keys := k, tt := accessOf a, history := l } (fun n => workersOfGen mtc mnt n.toUInt64) cancel).tt)
    (art' : Iter5SearchArtifact) (evs : List Iter5Event)
    (hret : Searcher.analyze_iterative (stateOf root) ⟨eval.EVALUATORS⟩ rng0 (some d) ⟨cancel⟩ (some ⟨zobristOf k, a, hist⟩) mtc mnt = .ok (art', evs))
    (fuel : Nat) :
    (iterate root rng0 (some d.toNat) { keys := k, tt := accessOf a, history := l } (fun n => workersOfGen mtc mnt n.toUInt64) cancel fuel).panic = none ∧
    evs.map iter5EventOf =
      (iterate root rng0 (some d.toNat) { keys := k, tt := accessOf a, history := l } (fun n => workersOfGen mtc mnt n.toUInt64) cancel fuel).events ∧
    Iter5ArtRep art'
      (iterate root rng0 (some d.toNat) { keys := k, tt := accessOf a, history := l } (fun n => workersOfGen mtc mnt n.toUInt64) cancel fuel).artifact := by
  obtain ⟨hist', hinc, hh'⟩ := StateHistory.increment_rep hh (Wee.hash k.keys root) hlen
  have hhash := ZobristHasher.hash_keyTable k ht he root ok.ep
  unfold Searcher.analyze_iterative at hret
  unfold Searcher.analyze_iterative.body at hret
  simp only [Option.getD_some, iter5_pure_bind, hhash, iter5_liftP_some_bind, hinc] at hret
  cases hlm : MoveGenerator.compute_legal_moves (stateOf root) with
  | none => rw [hlm] at hret; simp only [iter5_liftP_none_bind] at hret; cases hret
  | some ms =>
    rw [hlm] at hret
    simp only [iter5_liftP_some_bind, iter5_limit_rule root ok ms hlm] at hret
    generalize hmax : (if (legalMoves root).isEmpty = true then (0 : UInt64) else d) = maxD at hret
    have hmd : maxD.toNat + 90 < 2 ^ 31 := by
      subst hmax; split
      · simp
      · exact hd
    have hfin : iter5Final root rng0 d.toNat { keys := k, tt := accessOf a, history := l } (fun n => workersOfGen mtc mnt n.toUInt64) cancel =
        iterLoop { keys := k.keys, history := Wee.hash k.keys root :: l, cancelAt := cancel } root (Wee.hash k.keys root)
          (fun n => workersOfGen mtc mnt n.toUInt64) maxD.toNat 0 (SearchCtl.iterInit rng0 { keys := k, tt := accessOf a, history := [] }) := by
      subst hmax
      unfold iter5Final SearchCtl.iterInit
      by_cases hE : (legalMoves root).isEmpty = true <;> simp [hE]
    have hL := Searcher.analyze_iterative.loop_refines_init k ht he hist' (Wee.hash k.keys root :: l) hh' cancel root ok mtc mnt Inv hstep hwalk
      maxD hmd rng0 a wf hinv
    rw [← hfin] at hL
    rw [iter5_iterate_some]
    generalize iter5Final root rng0 d.toNat { keys := k, tt := accessOf a, history := l } (fun n => workersOfGen mtc mnt n.toUInt64) cancel = stF at hL hsat ⊢
    rw [iter5_bind] at hret
    unfold Iter5Prim.run_loop at hret
    generalize Searcher.analyze_iterative.loop _ _ _ _ _ _ _ _ _ _ _ = out at hL hret
    obtain ⟨res, ic'⟩ := out
    cases res with
    | error e => cases hret
    | ok ls' =>
      obtain ⟨hpanic, hrep⟩ := hL
      simp only [] at hret
      have hev : (ic'.events.map Iter5Event.Status).map iter5EventOf = stF.events := by
        rw [List.map_map, ← hrep.events]; rfl
      cases hs : TranspositionTableAccess.saturation ic'.transpositions with
      | none => rw [hs] at hret; cases hret
      | some v =>
        have hv := TranspositionTableAccess.saturation_inv _ hrep.wf v hs
        rw [hrep.tt] at hv
        have hcmp : Iter5Prim.f32_gt v ((1 : Rat) / 2) = decide (stF.tt.entries * 2 > stF.tt.maxEntries) := by
          unfold Iter5Prim.f32_gt
          rw [hv]
          exact decide_eq_decide.2 hsat
        rw [hs] at hret
        simp only [iter5_liftP_some_bind, hcmp] at hret
        by_cases hc : stF.tt.entries * 2 > stF.tt.maxEntries
        · simp only [hc, decide_true, if_true, iter5_bind, iter5_liftP_some, Iter5M.emit, iter5_pure, List.nil_append,
            Except.ok.injEq, Prod.mk.injEq] at hret
          obtain ⟨ha, he'⟩ := hret
          subst ha; subst he'
          simp only [hpanic, Option.isNone_none, Bool.true_and, hc, decide_true, if_true]
          refine ⟨trivial, ?_, ⟨rfl, hrep.tt, hrep.wf, hh'⟩⟩
          rw [List.map_append, hev]; rfl
        · simp only [hc, decide_false, iter5_bind, iter5_pure, List.nil_append, Bool.false_eq_true, if_false,
            Except.ok.injEq, Prod.mk.injEq] at hret
          obtain ⟨ha, he'⟩ := hret
          subst ha; subst he'
          simp only [hpanic, Option.isNone_none, Bool.true_and, hc, decide_false]
          exact ⟨trivial, hev, ⟨rfl, hrep.tt, hrep.wf, hh'⟩⟩

/-- **`Searcher::analyze_iterative` without a previous artifact** (`ZobristHasher::with(&mut rng)` = `KeyTable.ofRng`, 128 empty tables of 26214 buckets,
empty history): the model's `iterate` from `iter5FreshArtifact kr.1` with the generator after the key draws.  `hkt` / `hke`: the drawn key table has
2 turn keys and 8 en-passant keys (true by construction -- `drawN_size` -- but every proof that projects out of `KeyTable.ofRng rng0` made the kernel unfold the draws
of the generator and exhaust its recursion depth; so the table is named `kr` with `hkr : KeyTable.ofRng rng0 = kr` -- instantiate `kr := KeyTable.ofRng rng0`,
`hkr := rfl` -- and the two sizes are carried). -/
theorem Searcher.analyze_iterative_refines_fresh (root : Wee.State) (ok : StateOK root) (rng0 : Rng.ChaCha8)
    (kr : KeyTable × Rng.ChaCha8) (hkr : KeyTable.ofRng rng0 = kr)
    (hkt : kr.1.turn.size = 2) (hke : kr.1.epFile.size = 8)
    (d : UInt64) (hd : d.toNat + 90 < 2 ^ 31) (cancel : Option Nat) (mtc : Option UInt64) (mnt : UInt64)
    (Inv : Nat → IterSt → Prop)
    (hstep : ∀ n st, Inv n st → st.finished = false → st.panic = none →
      Inv (n + 1) (iterBody { keys := kr.1.keys, history := [Wee.hash kr.1.keys root], cancelAt := cancel } root
        (Wee.hash kr.1.keys root) (workersOfGen mtc mnt n.toUInt64) n st))
    (hwalk : ∀ n st, Inv n st → st.finished = false → st.panic = none →
      WalkOK kr.1.keys (workersOut { keys := kr.1.keys, history := [Wee.hash kr.1.keys root], cancelAt := cancel } root
        (workersOfGen mtc mnt n.toUInt64) n
        (boundaryPoll { keys := kr.1.keys, history := [Wee.hash kr.1.keys root], cancelAt := cancel } n st)).tt (n + 1) root)
    (hinv : Inv 0 (SearchCtl.iterInit kr.2 { keys := kr.1, tt := TT.Access.new 128 26214, history := [] }))
    (hsat : Iter5SatAgree (iter5Final root kr.2 d.toNat (iter5FreshArtifact kr.1) (fun n => workersOfGen mtc mnt n.toUInt64) cancel).tt)
    (art' : Iter5SearchArtifact) (evs : List Iter5Event)
    (hret : Searcher.analyze_iterative (stateOf root) ⟨eval.EVALUATORS⟩ rng0 (some d) ⟨cancel⟩ none mtc mnt = .ok (art', evs))
    (fuel : Nat) :
    (iterate root kr.2 (some d.toNat) (iter5FreshArtifact kr.1) (fun n => workersOfGen mtc mnt n.toUInt64) cancel fuel).panic = none ∧
    evs.map iter5EventOf =
      (iterate root kr.2 (some d.toNat) (iter5FreshArtifact kr.1) (fun n => workersOfGen mtc mnt n.toUInt64) cancel fuel).events ∧
    Iter5ArtRep art'
      (iterate root kr.2 (some d.toNat) (iter5FreshArtifact kr.1) (fun n => workersOfGen mtc mnt n.toUInt64) cancel fuel).artifact := by
  unfold iter5FreshArtifact at hsat ⊢
  rw [← iter5FreshAccess_rep] at hinv hsat ⊢
  refine Searcher.analyze_iterative_refines_prev kr.1 hkt hke iter5FreshAccess iter5FreshAccess_wf StateHistory.new []
    StateHistory.new_rep (by simp) root ok kr.2 d hd cancel mtc mnt Inv hstep hwalk hinv hsat art' evs ?_ fuel
  unfold Searcher.analyze_iterative at hret ⊢
  rw [Searcher.analyze_iterative.body_none] at hret
  simp only [hkr] at hret
  exact hret

/-- how the `previous_artifact` argument and the generator are represented in the model: `art` is the artifact `iterate` starts from, `rng1` its generator -/
inductive Iter5PrevRep : Option Iter5SearchArtifact → Rng.ChaCha8 → Artifact → Rng.ChaCha8 → Prop
  | prev (k : KeyTable) (ht : k.turn.size = 2) (he : k.epFile.size = 8) (a : TranspositionTableAccess) (wf : AccessWF a)
      (hist : StateHistory) (l : List UInt64) (hh : HistRep hist l) (hlen : l.length + 1 < 2 ^ 64) (rng0 : Rng.ChaCha8) :
      Iter5PrevRep (some ⟨zobristOf k, a, hist⟩) rng0 { keys := k, tt := accessOf a, history := l } rng0
  | fresh (rng0 : Rng.ChaCha8) (kr : KeyTable × Rng.ChaCha8) (hkr : KeyTable.ofRng rng0 = kr) (hkt : kr.1.turn.size = 2) (hke : kr.1.epFile.size = 8) :
      Iter5PrevRep none rng0 (iter5FreshArtifact kr.1) kr.2

/-- **HEADLINE: `Searcher::analyze_iterative` (depth limit `Some(d)`) refines the model's `iterate`**, for a previous artifact represented in the model or none -/
theorem Searcher.analyze_iterative_refines (prev : Option Iter5SearchArtifact) (rng0 rng1 : Rng.ChaCha8) (art : Artifact)
    (hprev : Iter5PrevRep prev rng0 art rng1)
    (root : Wee.State) (ok : StateOK root) (d : UInt64) (hd : d.toNat + 90 < 2 ^ 31)
    (cancel : Option Nat) (mtc : Option UInt64) (mnt : UInt64)
    (Inv : Nat → IterSt → Prop)
    (hstep : ∀ n st, Inv n st → st.finished = false → st.panic = none →
      Inv (n + 1) (iterBody { keys := art.keys.keys, history := Wee.hash art.keys.keys root :: art.history, cancelAt := cancel } root
        (Wee.hash art.keys.keys root) (workersOfGen mtc mnt n.toUInt64) n st))
    (hwalk : ∀ n st, Inv n st → st.finished = false → st.panic = none →
      WalkOK art.keys.keys (workersOut { keys := art.keys.keys, history := Wee.hash art.keys.keys root :: art.history, cancelAt := cancel } root
        (workersOfGen mtc mnt n.toUInt64) n
        (boundaryPoll { keys := art.keys.keys, history := Wee.hash art.keys.keys root :: art.history, cancelAt := cancel } n st)).tt (n + 1) root)
    (hinv : Inv 0 (SearchCtl.iterInit rng1 { keys := art.keys, tt := art.tt, history := [] }))
    (hsat : Iter5SatAgree (iter5Final root rng1 d.toNat art (fun n => workersOfGen mtc mnt n.toUInt64) cancel).tt)
    (art' : Iter5SearchArtifact) (evs : List Iter5Event)
    (hret : Searcher.analyze_iterative (stateOf root) ⟨eval.EVALUATORS⟩ rng0 (some d) ⟨cancel⟩ prev mtc mnt = .ok (art', evs))
    (fuel : Nat) :
    (iterate root rng1 (some d.toNat) art (fun n => workersOfGen mtc mnt n.toUInt64) cancel fuel).panic = none ∧
    evs.map iter5EventOf = (iterate root rng1 (some d.toNat) art (fun n => workersOfGen mtc mnt n.toUInt64) cancel fuel).events ∧
    Iter5ArtRep art' (iterate root rng1 (some d.toNat) art (fun n => workersOfGen mtc mnt n.toUInt64) cancel fuel).artifact := by
  cases hprev with
  | prev k ht he a wf hist l hh hlen =>
    exact Searcher.analyze_iterative_refines_prev k ht he a wf hist l hh hlen root ok rng0 d hd cancel mtc mnt Inv hstep hwalk hinv hsat art' evs hret fuel
  | fresh _ kr hkr hkt hke =>
    dsimp only [iter5FreshArtifact] at hstep hwalk hinv
    exact Searcher.analyze_iterative_refines_fresh root ok rng0 kr hkr hkt hke d hd cancel mtc mnt Inv hstep hwalk hinv hsat art' evs hret fuel

end GenFns
end Wee
