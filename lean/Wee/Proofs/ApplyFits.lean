import Wee.Proofs.ApplyLemmas
/-!
# C02: the hypotheses of `MoveFits` restated on the bitboards (`MFits`)
-/
namespace Wee.C02
open Wee.C10 (DisjointBoard allCP mem_allCP pieceAt_def pieceAt_some pieceAt_iff pieceAt_none
  absKind_some absKind_inj absColor_inj absColor_opp absCell_iff abs_at absCell_ge find?_unique)

theorem offset_down (sq : Nat) (h : 8 ≤ sq) (h64 : sq < 64) : offset sq 0 (-1) = some (sq - 8) := by
  unfold offset fileOf rankOf
  simp only []
  split
  · omega
  · congr 1; omega

theorem offset_up (sq : Nat) (h : sq < 56) : offset sq 0 1 = some (sq + 8) := by
  unfold offset fileOf rankOf
  simp only []
  split
  · omega
  · congr 1; omega

/-- the king's home square -/
def homeSq : Color → Nat | .white => 4 | .black => 60

/-- model-level reading of `MoveFits` -/
structure MFits (s : State) (mv : Move) (p : Piece) : Prop where
  piece : Move.piece? mv = some p
  p_ne : p ≠ Piece.none
  codes : CodesOk mv
  disjoint : DisjointBoard s.pieces
  o_lt : Move.origin mv < 64
  d_lt : Move.dest mv < 64
  mover : s.pieces.pieceAt (Move.origin mv) = some (s.turn, p)
  quiet : Move.capture mv = Option.none →
    Move.isEnPassant mv = false ∧ s.pieces.pieceAt (Move.dest mv) = Option.none
  capture : ∀ q, Move.capture mv = some q → Move.isEnPassant mv = false →
    s.pieces.pieceAt (Move.dest mv) = some (s.turn.opp, q) ∧ q ≠ Piece.king
  enPassant : Move.isEnPassant mv = true →
    Move.capture mv = some Piece.pawn ∧ p = Piece.pawn ∧ Move.promotion mv = Option.none ∧
    Move.castleSide mv = Option.none ∧ s.pieces.pieceAt (Move.dest mv) = Option.none ∧
    s.ep = some (Move.dest mv) ∧
    offset (Move.dest mv) 0 s.turn.backward = some (Move.origin mv / 8 * 8 + Move.dest mv % 8) ∧
    s.pieces.pieceAt (Move.origin mv / 8 * 8 + Move.dest mv % 8) = some (s.turn.opp, Piece.pawn)
  promo : ∀ r, Move.promotion mv = some r → p = Piece.pawn ∧ Move.castleSide mv = Option.none
  castle : ∀ sd, Move.castleSide mv = some sd →
    p = Piece.king ∧ Move.capture mv = Option.none ∧ Move.promotion mv = Option.none ∧
    Move.origin mv = homeSq s.turn ∧
    (match sd with
     | .king => Move.dest mv = Move.origin mv + 2 ∧
         s.pieces.pieceAt (Move.origin mv + 3) = some (s.turn, Piece.rook) ∧
         s.pieces.pieceAt (Move.origin mv + 1) = Option.none
     | .queen => Move.dest mv = Move.origin mv - 2 ∧
         s.pieces.pieceAt (Move.origin mv - 4) = some (s.turn, Piece.rook) ∧
         s.pieces.pieceAt (Move.origin mv - 1) = Option.none)

theorem bind_absKind_none {x : Option Piece} (hx : ∀ q, x = some q → q ≠ Piece.none) :
    x.bind absKind = Option.none ↔ x = Option.none := by
  cases x with
  | none => simp
  | some q =>
    obtain ⟨k, hk⟩ := absKind_some q (hx q rfl)
    simp [hk]

theorem bind_absKind_some {x : Option Piece} {k : Spec.Kind} (h : x.bind absKind = some k) :
    ∃ q, x = some q ∧ absKind q = some k := by
  cases x with
  | none => cases h
  | some q => exact ⟨q, rfl, h⟩

theorem absKind_pawn {q : Piece} (h : absKind q = some Spec.Kind.pawn) : q = Piece.pawn :=
  absKind_inj q .pawn .pawn h rfl
theorem absKind_king {q : Piece} (h : absKind q = some Spec.Kind.king) : q = Piece.king :=
  absKind_inj q .king .king h rfl

theorem absColor_opp' (c : Color) : (absColor c).opp = absColor c.opp := (absColor_opp c).symm

theorem kingHome_abs (c : Color) : Spec.kingHome (absColor c) = homeSq c := by cases c <;> rfl

theorem fits_model {s : State} {mv : Move} {sm : Spec.SMove} (h : MoveFits s mv sm) :
    ∃ p, MFits s mv p ∧ absKind p = some sm.kind := by
  obtain ⟨p, hp, hk, hcol, hsrc, hdst, hcap, hpr, hep, hcs, hdbl⟩ := toSpecMove_some h.spec
  have hd := h.disjoint
  have hpn : p ≠ Piece.none := by rintro rfl; cases hk
  have hcapnone : sm.capture = Option.none ↔ Move.capture mv = Option.none := by
    rw [hcap]; exact bind_absKind_none (fun q hq => capture_ne_none hq)
  have hprnone : sm.promo = Option.none ↔ Move.promotion mv = Option.none := by
    rw [hpr]; exact bind_absKind_none (fun q hq => promotion_ne_none hq)
  have hcsnone : sm.castle = Option.none ↔ Move.castleSide mv = Option.none := by
    rw [hcs]; cases Move.castleSide mv <;> simp
  have hus : sm.color = absColor s.turn := h.color
  have hthem : sm.color.opp = absColor s.turn.opp := by rw [hus, absColor_opp']
  refine ⟨p, ?_, hk⟩
  refine
    { piece := hp, p_ne := hpn, codes := h.codes, disjoint := hd,
      o_lt := hsrc ▸ h.src_lt, d_lt := hdst ▸ h.dst_lt,
      mover := ?_, quiet := ?_, capture := ?_, enPassant := ?_, promo := ?_, castle := ?_ }
  · have := h.mover
    rw [abs_at, hus, absCell_eq_some_iff hd _ _ p _ hk, hsrc] at this
    exact this
  · intro hc
    obtain ⟨h1, h2⟩ := h.quiet (hcapnone.2 hc)
    rw [abs_at, absCell_eq_none_iff, hdst] at h2
    exact ⟨hep ▸ h1, h2⟩
  · intro q hq hne
    obtain ⟨k, hkq⟩ := absKind_some q (capture_ne_none hq)
    have hc : sm.capture = some k := by rw [hcap, hq]; exact hkq
    obtain ⟨h1, h2⟩ := h.capture k hc (hep ▸ hne)
    rw [abs_at, hthem, absCell_eq_some_iff hd _ _ q _ hkq, hdst] at h1
    refine ⟨h1, ?_⟩
    rintro rfl
    cases hkq; exact h2 rfl
  · intro he
    obtain ⟨h1, h2, h3, h4, h5, h6, h7, h8⟩ := h.enPassant (hep ▸ he)
    rw [hcap] at h1
    obtain ⟨q, hq, hq'⟩ := bind_absKind_some h1
    rw [absKind_pawn hq'] at hq
    rw [h2] at hk
    rw [abs_at, absCell_eq_none_iff, hdst] at h5
    rw [abs_at, hthem, absCell_eq_some_iff hd _ _ Piece.pawn _ rfl, hsrc, hdst] at h8
    refine ⟨hq, absKind_pawn hk, hprnone.1 h3, hcsnone.1 h4, h5, hdst ▸ h6, ?_, h8⟩
    rw [hsrc, hdst, hus] at h7
    have hd64 : Move.dest mv < 64 := hdst ▸ h.dst_lt
    have ho64 : Move.origin mv < 64 := hsrc ▸ h.src_lt
    cases hc : s.turn <;> simp only [hc, absColor, Spec.Color.fwd, Color.backward] at h7 ⊢
    · rw [offset_down _ (by omega) hd64]; congr 1; omega
    · rw [offset_up _ (by omega)]; congr 1; omega
  · intro r hr
    obtain ⟨k, hkr⟩ := absKind_some r (promotion_ne_none hr)
    have hc : sm.promo = some k := by rw [hpr, hr]; exact hkr
    obtain ⟨h1, _, _⟩ := h.promo k hc
    rw [h1] at hk
    refine ⟨absKind_pawn hk, ?_⟩
    cases hcs' : Move.castleSide mv with
    | none => rfl
    | some sd =>
      have : sm.castle = some (sd == Side.king) := by rw [hcs, hcs']; rfl
      have := (h.castle _ this).1
      rw [h1] at this; cases this
  · intro sd hsd
    have hc : sm.castle = some (sd == Side.king) := by rw [hcs, hsd]; rfl
    obtain ⟨h1, h2, h3, h4⟩ := h.castle _ hc
    rw [h1] at hk
    have hpk := absKind_king hk
    have hprn : Move.promotion mv = Option.none := by
      cases hr : Move.promotion mv with
      | none => rfl
      | some r =>
        obtain ⟨k, hkr⟩ := absKind_some r (promotion_ne_none hr)
        have : sm.promo = some k := by rw [hpr, hr]; exact hkr
        have := (h.promo k this).1
        rw [h1] at this; cases this
    refine ⟨hpk, hcapnone.1 h3, hprn, ?_, ?_⟩
    · rw [← hsrc, h2, hus, kingHome_abs]
    · cases sd
      · simp only [show (Side.king == Side.king) = true from rfl] at h4
        obtain ⟨a, b, c⟩ := h4
        rw [abs_at, hus, absCell_eq_some_iff hd _ _ Piece.rook _ rfl, hsrc] at b
        rw [abs_at, absCell_eq_none_iff, hsrc] at c
        exact ⟨by rw [← hdst, ← hsrc]; exact a, b, c⟩
      · simp only [show (Side.queen == Side.king) = false from rfl] at h4
        obtain ⟨a, b, c⟩ := h4
        rw [abs_at, hus, absCell_eq_some_iff hd _ _ Piece.rook _ rfl, hsrc] at b
        rw [abs_at, absCell_eq_none_iff, hsrc] at c
        exact ⟨by rw [← hdst, ← hsrc]; exact a, b, c⟩

end Wee.C02
