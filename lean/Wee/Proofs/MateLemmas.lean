import Wee.Props.C05
import Wee.Model.Search
import Wee.Spec.Outcome
import Wee.Proofs.TTLemmas
/-!
# Lemmas for C06 (mate claims are true)

1. the executable solver `forcedMate`/`lostIn` is sound for the inductive `Win`/`Lost`;
2. `static_ok`: a terminal static evaluation is the mate branch (for every state since the repair of F10 — the
   heuristic result of `evaluate` is clamped; before, from the C05 bound `MaterialBounded`, whose definition is kept
   because property theorems still mention it as a now-redundant hypothesis);
3. `quiesce_sound`: quiescence values are `SoundVal`;
4. a small Hoare logic for `M = ExceptT Stop (StateM St)` and the soundness of `searchNode`
   with a sound transposition table (`searchNode_sound`).
-/
namespace Wee.C06
open Wee Wee.Search Wee.Outcome

/-! ## 1. the executable solver -/

theorem solver_sound (n : Nat) : ∀ s, (forcedMate n s = true → Win s) ∧ (lostIn n s = true → Lost s) := by
  induction n with
  | zero =>
    intro s
    refine ⟨fun h => ?_, fun h => ?_⟩
    · rw [forcedMate] at h; cases h
    · rw [lostIn] at h; exact Lost.mated s h
  | succ n ih =>
    intro s
    refine ⟨fun h => ?_, fun h => ?_⟩
    · rw [forcedMate.eq_2, List.any_eq_true] at h
      obtain ⟨r, hr, hl⟩ := h
      exact Win.intro s r hr ((ih r.2).2 hl)
    · rw [lostIn.eq_2] at h
      by_cases he : (legalMoves s).isEmpty = true
      · rw [if_pos he] at h
        exact Lost.mated s (by unfold isMated; rw [he, h]; rfl)
      · rw [if_neg he, List.all_eq_true] at h
        refine Lost.forced s (fun hn => he (by rw [hn]; rfl)) fun r hr => (ih r.2).1 (h r hr)

theorem forcedMate_win {n : Nat} {s : State} (h : forcedMate n s = true) : Win s := (solver_sound n s).1 h
theorem lostIn_lost {n : Nat} {s : State} (h : lostIn n s = true) : Lost s := (solver_sound n s).2 h

theorem solver_mono (n : Nat) : ∀ s, (forcedMate n s = true → forcedMate (n+1) s = true) ∧
    (lostIn n s = true → lostIn (n+1) s = true) := by
  induction n with
  | zero =>
    intro s
    refine ⟨fun h => ?_, fun h => ?_⟩
    · rw [forcedMate] at h; cases h
    · rw [lostIn] at h
      unfold isMated at h
      rw [Bool.and_eq_true] at h
      rw [lostIn.eq_2, if_pos h.1]; exact h.2
  | succ n ih =>
    intro s
    refine ⟨fun h => ?_, fun h => ?_⟩
    · rw [forcedMate.eq_2, List.any_eq_true] at h
      obtain ⟨r, hr, hl⟩ := h
      rw [forcedMate.eq_2, List.any_eq_true]
      exact ⟨r, hr, (ih r.2).2 hl⟩
    · rw [lostIn.eq_2] at h
      rw [lostIn.eq_2]
      by_cases he : (legalMoves s).isEmpty = true
      · rw [if_pos he] at h ⊢; exact h
      · rw [if_neg he, List.all_eq_true] at h
        rw [if_neg he, List.all_eq_true]
        exact fun r hr => (ih r.2).1 (h r hr)

/-! ## 2. static evaluation -/

/-- the bound of `C05_nonterminal_partial`, for the side to move -/
def MaterialBounded (s : State) : Prop :=
  (C05.materialDiff s s.turn).natAbs + C05.positionalDiff s s.turn < 10000

instance (s : State) : Decidable (MaterialBounded s) := by unfold MaterialBounded; infer_instance

/-- positions reachable by legal moves (reflexive-transitive closure) -/
inductive Reachable : State → State → Prop
  | refl (s : State) : Reachable s s
  | step {s t : State} (r : Move × State) : Reachable s t → r ∈ legalMoves t → Reachable s r.2

theorem Reachable.trans {a b c : State} (h1 : Reachable a b) (h2 : Reachable b c) : Reachable a c := by
  induction h2 with
  | refl => exact h1
  | step r _ hr ih => exact Reachable.step r ih hr

theorem Reachable.of_move {s : State} {r : Move × State} (hr : r ∈ legalMoves s) : Reachable s r.2 :=
  Reachable.step r (Reachable.refl s) hr

/-- every position reachable from `s` by legal moves satisfies the material bound (promotions can
raise material, so the bound is asked of the whole tree) -/
def TreeBounded (s : State) : Prop := ∀ s', Reachable s s' → MaterialBounded s'

theorem TreeBounded.here {s : State} (h : TreeBounded s) : MaterialBounded s := h s (Reachable.refl s)

theorem TreeBounded.child {s : State} (h : TreeBounded s) {r : Move × State} (hr : r ∈ legalMoves s) :
    TreeBounded r.2 := fun s' hs' => h s' ((Reachable.of_move hr).trans hs')

theorem posInf_eq : Ev.posInf = 10000 := rfl
theorem negInf_eq : Ev.negInf = -10000 := rfl

/-- since the repair of F10 the heuristic score that `evaluate` returns is clamped: strictly inside
`(-10000, 10000)` for EVERY state (no material bound needed) -/
theorem clamped_lt (x : Eval) : -10000 < clampHeuristic x ∧ clampHeuristic x < 10000 := by
  have := clampHeuristic_range x
  constructor <;> eomega

theorem heuristic_lt {s : State} (hb : MaterialBounded s) :
    -10000 < evalHeuristic (Variation.of s) s.turn ∧ evalHeuristic (Variation.of s) s.turn < 10000 := by
  have h := C05.C05_heuristic_bound s s.turn
  unfold MaterialBounded at hb
  constructor <;> eomega

theorem mateInPly_ge (d : Nat) : 10000 ≤ Ev.mateInPly d := C05.C05_mono_ge d

/-- the three possible results of `evaluate` from the side to move's perspective -/
theorem evaluate_cases {s : State} {d : Nat} {e : Eval} (h : evaluate s s.turn d = some e) :
    (legalMoves? s = some [] ∧ s.isCheck = true ∧ e = - Ev.mateInPly d) ∨ e = 0 ∨
      e = clampHeuristic (evalHeuristic (Variation.of s) s.turn) := by
  unfold evaluate at h
  cases hk : kingHasMove s with
  | none => rw [hk] at h; cases h
  | some khm =>
    rw [hk] at h
    simp only at h
    by_cases hc : (!khm || s.isCheck) = true
    · rw [if_pos hc] at h
      cases hl : legalMoves? s with
      | none => rw [hl] at h; cases h
      | some ms =>
        rw [hl] at h
        simp only at h
        by_cases h1 : (ms.isEmpty && s.isCheck) = true
        · rw [if_pos h1] at h
          rw [Bool.and_eq_true] at h1
          left
          refine ⟨?_, h1.2, ?_⟩
          · cases ms with
            | nil => rfl
            | cons _ _ => cases h1.1
          · simp only [beq_self_eq_true, if_true] at h
            exact (Option.some.inj h).symm
        · rw [if_neg h1] at h
          by_cases h2 : ms.isEmpty = true
          · rw [if_pos h2] at h; right; left; exact (Option.some.inj h).symm
          · rw [if_neg h2] at h; right; right; exact (Option.some.inj h).symm
    · rw [if_neg hc] at h; right; right; exact (Option.some.inj h).symm

/-- **StaticOK.**  A terminal static evaluation (from the side to move's perspective) is the
checkmate branch: no legal move, in check, value `-mate_in_ply(depth)`.  (Before the repair of F10
this needed the material bound `MaterialBounded s`; the clamp makes it hold for every state.) -/
theorem static_ok {s : State} {d : Nat} {e : Eval}
    (h : evaluate s s.turn d = some e) (ht : Ev.isTerminal e = true) :
    legalMoves? s = some [] ∧ s.isCheck = true ∧ e = - Ev.mateInPly d := by
  rcases evaluate_cases h with h1 | h0 | hh
  · exact h1
  · subst h0; exact absurd ht (by decide)
  · have := clamped_lt (evalHeuristic (Variation.of s) s.turn)
    rw [← hh] at this
    unfold Ev.isTerminal at ht
    rw [posInf_eq, negInf_eq, Bool.or_eq_true, decide_eq_true_eq, decide_eq_true_eq] at ht
    eomega

/-- with a legal move the static value is strictly inside `(-10000, 10000)` -/
theorem static_nonterminal {s : State} {d : Nat} {e : Eval}
    (h : evaluate s s.turn d = some e) (hm : legalMoves? s ≠ some []) : -10000 < e ∧ e < 10000 := by
  rcases evaluate_cases h with h1 | h0 | hh
  · exact absurd h1.1 hm
  · subst h0; eomega
  · rw [hh]; exact clamped_lt _

/-- the static value never claims a win for the side to move -/
theorem static_lt {s : State} {d : Nat} {e : Eval}
    (h : evaluate s s.turn d = some e) : e < 10000 := by
  rcases evaluate_cases h with h1 | h0 | hh
  · have := mateInPly_ge d; eomega
  · subst h0; eomega
  · rw [hh]; exact (clamped_lt _).2

/-! ## 3. quiescence -/

/-- a returned value that claims a win inside the window is a true forced win for the side to
move, and symmetrically for a loss -/
def SoundVal (s : State) (α β r : Eval) : Prop :=
  (Ev.posInf ≤ r ∧ α < r → Win s) ∧ (r ≤ Ev.negInf ∧ r < β → Lost s)

theorem SoundVal.of_nonterminal {s : State} {α β r : Eval} (h1 : -10000 < r) (h2 : r < 10000) :
    SoundVal s α β r := by
  refine ⟨fun h => ?_, fun h => ?_⟩
  · rw [posInf_eq] at h; eomega
  · rw [negInf_eq] at h; eomega

theorem legalMoves_of_some {s : State} {ms : List (Move × State)} (h : legalMoves? s = some ms) :
    legalMoves s = ms := by unfold legalMoves; rw [h]; rfl

theorem lost_of_mate {s : State} (hl : legalMoves? s = some []) (hc : s.isCheck = true) : Lost s := by
  refine Lost.mated s ?_
  unfold isMated; rw [legalMoves_of_some hl, hc]; rfl


theorem win_of_child_lost {s : State} {r : Move × State} (hr : r ∈ legalMoves s) (h : Lost r.2) : Win s :=
  Win.intro s r hr h

/-- the capture loop: the result is `β` or at least the running `alpha`, and a winning result
above the caller's `α` is a true win -/
theorem quiesce_loop_sound (fuel depth : Nat) (s : State) (α β : Eval)
    (ih : ∀ r ∈ legalMoves s, ∀ d a b v, a < b → quiesce evaluate fuel r.2 d a b = .ok v → SoundVal r.2 a b v) :
    ∀ (l : List (Move × State)) (a : Eval), (∀ r ∈ l, r ∈ legalMoves s) → a < β →
      (10000 ≤ a ∧ α < a → Win s) →
      ∀ v, quiesce.loop evaluate fuel depth β l a = .ok v →
        (v = β ∨ a ≤ v) ∧ (10000 ≤ v ∧ α < v → Win s) := by
  intro l
  induction l with
  | nil =>
    intro a _ _ hw v hv
    rw [quiesce.loop] at hv
    cases hv
    exact ⟨Or.inr (Int.le_refl _), hw⟩
  | cons r rest ihl =>
    intro a hmem hab hw v hv
    have hrest : ∀ r' ∈ rest, r' ∈ legalMoves s := fun r' h' => hmem r' (List.mem_cons_of_mem _ h')
    have hr : r ∈ legalMoves s := hmem r List.mem_cons_self
    rw [quiesce.loop.eq_2] at hv
    by_cases hc : (!Move.isCapture r.1) = true
    · rw [if_pos hc] at hv
      exact ihl a hrest hab hw v hv
    · rw [if_neg hc] at hv
      cases hq : quiesce evaluate fuel r.2 (depth + 1) (-β) (-a) with
      | error e => rw [hq] at hv; cases hv
      | ok v' =>
        rw [hq] at hv
        simp only at hv
        have hs := ih r hr (depth + 1) (-β) (-a) v' (by eomega) hq
        have hlost : 10000 ≤ -v' → a < -v' → Win s := fun h1 h2 =>
          win_of_child_lost hr (hs.2 ⟨by rw [negInf_eq]; eomega, by eomega⟩)
        by_cases hcut : -v' ≥ β
        · rw [if_pos hcut] at hv
          cases hv
          refine ⟨Or.inl rfl, fun h => hlost (by eomega) (by eomega)⟩
        · rw [if_neg hcut] at hv
          by_cases hgt : -v' > a
          · rw [if_pos hgt] at hv
            obtain ⟨h1, h2⟩ := ihl (-v') hrest (by eomega) (fun h => hlost h.1 hgt) v hv
            exact ⟨h1.imp id (fun h => by eomega), h2⟩
          · rw [if_neg hgt] at hv
            exact ihl a hrest hab hw v hv

/-- **quiescence is sound.**  Every value returned by `quiescence_search` — on ANY position (the
material bound `TreeBounded s` of the pre-F10 development is gone) — is `SoundVal` for the window it
was called with. -/
theorem quiesce_sound : ∀ (fuel : Nat) (s : State) (depth : Nat) (α β r : Eval), α < β →
    quiesce evaluate fuel s depth α β = .ok r → SoundVal s α β r := by
  intro fuel
  induction fuel with
  | zero => intro s depth α β r _ h; rw [quiesce] at h; cases h
  | succ fuel ih =>
    intro s depth α β r hαβ h
    rw [quiesce.eq_2] at h
    cases hl : legalMoves? s with
    | none => rw [hl] at h; cases h
    | some ms =>
      rw [hl] at h
      simp only at h
      have hlm := legalMoves_of_some hl
      cases he : evaluate s s.turn depth with
      | none =>
        rw [he] at h
        by_cases hemp : ms.isEmpty = true
        · rw [if_pos hemp] at h; cases h
        · rw [if_neg hemp] at h; cases h
      | some normal =>
        rw [he] at h
        simp only at h
        by_cases hemp : ms.isEmpty = true
        · -- checkmate or stalemate: the static value
          rw [if_pos hemp] at h
          cases h
          rcases evaluate_cases he with h1 | h0 | hh
          · refine ⟨fun h => ?_, fun _ => lost_of_mate h1.1 h1.2.1⟩
            have := mateInPly_ge depth
            rw [posInf_eq] at h; eomega
          · subst h0; exact SoundVal.of_nonterminal (by eomega) (by eomega)
          · rw [hh]; exact SoundVal.of_nonterminal (clamped_lt _).1 (clamped_lt _).2
        · rw [if_neg hemp] at h
          have hne : legalMoves? s ≠ some [] := by
            rw [hl]; intro hh; cases hh; exact hemp rfl
          have hnt := static_nonterminal he hne
          by_cases hq : (ms.all fun r => !Move.isCapture r.1) = true
          · rw [if_pos hq] at h; cases h
            exact SoundVal.of_nonterminal hnt.1 hnt.2
          · rw [if_neg hq] at h
            by_cases hcut : normal ≥ β
            · rw [if_pos hcut] at h; cases h
              refine ⟨fun h => ?_, fun h => ?_⟩
              · rw [posInf_eq] at h; eomega
              · eomega
            · rw [if_neg hcut] at h
              have ihc : ∀ r ∈ legalMoves s, ∀ d a b v, a < b →
                  quiesce evaluate fuel r.2 d a b = .ok v → SoundVal r.2 a b v :=
                fun r hr d a b v hab hv => ih r.2 d a b v hab hv
              have hmem : ∀ r ∈ (if ms.length < 2 then ms else
                  List.map (fun x => x.snd) ((List.map (fun r => ((F32.toI32 (-F32.mul (F32.sub
                    (match Move.capture r.1 with | some p => pieceWorth p | Option.none => 0)
                    (pieceWorth (Move.piece r.1))) Gen.quiesceSortFactor) : Eval), r)) ms).mergeSort
                    fun a b => decide (a.fst ≤ b.fst))), r ∈ legalMoves s := by
                intro r hr
                rw [hlm]
                split at hr
                · exact hr
                · rw [List.mem_map] at hr
                  obtain ⟨x, hx, rfl⟩ := hr
                  rw [List.mem_mergeSort, List.mem_map] at hx
                  obtain ⟨y, hy, rfl⟩ := hx
                  exact hy
              have := quiesce_loop_sound fuel depth s α β ihc _ (if α < normal then normal else α) hmem
                (by split <;> eomega) (fun h => by split at h <;> eomega) r h
              refine ⟨fun h => this.2 ⟨by rw [posInf_eq] at h; exact h.1, h.2⟩, fun h => ?_⟩
              rw [negInf_eq] at h
              rcases this.1 with h1 | h1
              · eomega
              · split at h1 <;> eomega

/-! ## 4. a small Hoare logic for the search monad -/

/-- run a computation of the search monad from a state -/
def exec {α : Type} (x : M α) (st : St) : Except Stop α × St := x.run.run st

/-- `x` keeps the state invariant `I` whatever its outcome (normal, interrupt, panic) and normal
results satisfy `Q` -/
def Holds {α : Type} (I : St → Prop) (x : M α) (Q : α → Prop) : Prop :=
  ∀ st, I st → I (exec x st).2 ∧ ∀ r, (exec x st).1 = .ok r → Q r

theorem exec_pure {α : Type} (a : α) (st : St) : exec (pure a : M α) st = (.ok a, st) := rfl
theorem exec_throw {α : Type} (e : Stop) (st : St) : exec (throw e : M α) st = (.error e, st) := rfl
theorem exec_get (st : St) : exec (get : M St) st = (.ok st, st) := rfl
theorem exec_set (st' st : St) : exec (set st' : M PUnit) st = (.ok ⟨⟩, st') := rfl
theorem exec_modify (f : St → St) (st : St) : exec (modify f : M PUnit) st = (.ok ⟨⟩, f st) := rfl
theorem exec_bind {α β : Type} (x : M α) (f : α → M β) (st : St) :
    exec (x >>= f) st = match exec x st with
      | (.ok a, st') => exec (f a) st'
      | (.error e, st') => (.error e, st') := by
  unfold exec
  simp only [ExceptT.run_bind, StateT.run_bind]
  show (match (x.run.run st) with | (a, s) => _) = _
  rcases h : x.run.run st with ⟨r, s⟩
  cases r <;> rfl

section rules
variable {α β : Type} {I : St → Prop}

theorem Holds.pure {Q : α → Prop} {a : α} (h : Q a) : Holds I (Pure.pure a : M α) Q :=
  fun st hi => ⟨hi, fun r hr => by rw [exec_pure] at hr; cases hr; exact h⟩

theorem Holds.throw {Q : α → Prop} {e : Stop} : Holds I (throw e : M α) Q :=
  fun st hi => ⟨hi, fun r hr => by rw [exec_throw] at hr; cases hr⟩

theorem Holds.bind {x : M α} {f : α → M β} {P : α → Prop} {Q : β → Prop}
    (hx : Holds I x P) (hf : ∀ a, P a → Holds I (f a) Q) : Holds I (x >>= f) Q := by
  intro st hi
  rw [exec_bind]
  obtain ⟨h1, h2⟩ := hx st hi
  rcases h : exec x st with ⟨r, st'⟩
  rw [h] at h1 h2
  cases r with
  | error e => exact ⟨h1, fun r hr => by cases hr⟩
  | ok a => exact hf a (h2 a rfl) st' h1

theorem Holds.get : Holds I (get : M St) I :=
  fun st hi => ⟨hi, fun r hr => by rw [exec_get] at hr; cases hr; exact hi⟩

theorem Holds.set {st' : St} (h : I st') : Holds I (set st' : M PUnit) (fun _ => True) :=
  fun _ _ => ⟨h, fun _ _ => trivial⟩

theorem Holds.modify {f : St → St} (h : ∀ st, I st → I (f st)) : Holds I (modify f : M PUnit) (fun _ => True) :=
  fun st hi => ⟨h st hi, fun _ _ => trivial⟩

theorem Holds.mono {x : M α} {P Q : α → Prop} (h : Holds I x P) (hpq : ∀ a, P a → Q a) : Holds I x Q :=
  fun st hi => ⟨(h st hi).1, fun r hr => hpq r ((h st hi).2 r hr)⟩

/-- strengthen the invariant by a family of which every state satisfies one member -/
theorem Holds.of_family {x : M α} {Q : α → Prop} {J : Nat → St → Prop}
    (h : ∀ n, Holds (fun st => I st ∧ J n st) x Q) (hex : ∀ st, I st → ∃ n, J n st) : Holds I x Q := by
  intro st hi
  obtain ⟨n, hn⟩ := hex st hi
  exact ⟨((h n) st ⟨hi, hn⟩).1.1, ((h n) st ⟨hi, hn⟩).2⟩

end rules

/-! ## 5. legal moves and `try_as_legal_move` -/

theorem mapM_option_mem {α β : Type} (f : α → Option β) : ∀ (l : List α) (rs : List β), l.mapM f = some rs →
    (∀ x ∈ l, ∃ y, f x = some y ∧ y ∈ rs) ∧ (∀ y ∈ rs, ∃ x ∈ l, f x = some y) := by
  intro l
  induction l with
  | nil =>
    intro rs h
    rw [List.mapM_nil] at h
    cases h
    exact ⟨fun x hx => (nomatch hx), fun y hy => (nomatch hy)⟩
  | cons a l ih =>
    intro rs h
    rw [List.mapM_cons] at h
    cases hfa : f a with
    | none => rw [hfa] at h; cases h
    | some y =>
      rw [hfa] at h
      cases hl : l.mapM f with
      | none => rw [hl] at h; cases h
      | some ys =>
        rw [hl] at h
        cases h
        obtain ⟨i1, i2⟩ := ih ys hl
        refine ⟨fun x hx => ?_, fun y' hy' => ?_⟩
        · rcases List.mem_cons.1 hx with rfl | hx
          · exact ⟨y, hfa, List.mem_cons_self⟩
          · obtain ⟨y', h1, h2⟩ := i1 x hx
            exact ⟨y', h1, List.mem_cons_of_mem _ h2⟩
        · rcases List.mem_cons.1 hy' with rfl | hy'
          · exact ⟨a, List.mem_cons_self, hfa⟩
          · obtain ⟨x, h1, h2⟩ := i2 y' hy'
            exact ⟨x, List.mem_cons_of_mem _ h1, h2⟩

theorem tryAsLegal_fst {s : State} {mv : Move} {r : Move × State} (h : tryAsLegal s mv = some (some r)) :
    r.1 = mv := by
  unfold tryAsLegal at h
  split at h
  · simp only at h
    split at h
    · cases h; rfl
    · cases h
  · cases h

/-- the legal moves are exactly the pseudo-legal moves that pass `try_as_legal_move` -/
theorem legal_iff {s : State} {ms : List (Move × State)} {ps : List Move}
    (hl : legalMoves? s = some ms) (hp : pseudoLegalMoves s = some ps) (r : Move × State) :
    r ∈ ms ↔ ∃ mv ∈ ps, tryAsLegal s mv = some (some r) := by
  unfold legalMoves? at hl
  rw [hp] at hl
  change (ps.mapM (tryAsLegal s) >>= fun rs => some (rs.filterMap id)) = some ms at hl
  cases hm : ps.mapM (tryAsLegal s) with
  | none => rw [hm] at hl; cases hl
  | some rs =>
    rw [hm] at hl
    cases hl
    obtain ⟨h1, h2⟩ := mapM_option_mem _ _ _ hm
    rw [List.mem_filterMap]
    constructor
    · rintro ⟨o, ho, hid⟩
      obtain ⟨x, hx, hfx⟩ := h2 o ho
      simp only [id] at hid
      subst hid
      exact ⟨x, hx, hfx⟩
    · rintro ⟨mv, hmv, ht⟩
      obtain ⟨y, hy1, hy2⟩ := h1 mv hmv
      rw [ht] at hy1
      cases hy1
      exact ⟨some r, hy2, rfl⟩

theorem pseudo_of_legal {s : State} {ms : List (Move × State)} (hl : legalMoves? s = some ms) :
    ∃ ps, pseudoLegalMoves s = some ps := by
  unfold legalMoves? at hl
  cases hp : pseudoLegalMoves s with
  | none => rw [hp] at hl; cases hl
  | some ps => exact ⟨ps, rfl⟩

/-- no pseudo-legal move fails with a panic when the generator succeeds -/
theorem try_ne_none {s : State} {ms : List (Move × State)} {ps : List Move}
    (hl : legalMoves? s = some ms) (hp : pseudoLegalMoves s = some ps) {mv : Move} (hmv : mv ∈ ps) :
    tryAsLegal s mv ≠ none := by
  unfold legalMoves? at hl
  rw [hp] at hl
  change (ps.mapM (tryAsLegal s) >>= fun rs => some (rs.filterMap id)) = some ms at hl
  cases hm : ps.mapM (tryAsLegal s) with
  | none => rw [hm] at hl; cases hl
  | some rs =>
    obtain ⟨y, hy, _⟩ := (mapM_option_mem _ _ _ hm).1 mv hmv
    rw [hy]; exact fun h => by cases h

/-- a legal move passes `try_as_legal_move` with itself as result -/
theorem try_of_legal {s : State} {ms : List (Move × State)} (hl : legalMoves? s = some ms)
    {r : Move × State} (hr : r ∈ legalMoves s) : tryAsLegal s r.1 = some (some r) := by
  obtain ⟨ps, hp⟩ := pseudo_of_legal hl
  rw [legalMoves_of_some hl] at hr
  obtain ⟨mv, _, ht⟩ := (legal_iff hl hp r).1 hr
  rw [tryAsLegal_fst ht]; exact ht


/-! ## 6. sound table entries, the domain of positions -/

/-- what a stored entry claims about a position `s` with its key: the move is legal in `s`;
a winning value (of whatever kind: the engine only ever stores `Exact` and `LowerBound` entries, and the
interrupt path reports the root entry without looking at its kind) comes with a move into a `Lost` position;
a losing value of an `Exact`/`UpperBound` entry means `s` is `Lost`.
(`analyze_recursive` treats every kind that is neither `Exact` nor `UpperBound` as `LowerBound`.) -/
def SoundEntry (s : State) (e : TT.Entry) : Prop :=
  (∃ r ∈ legalMoves s, r.1.toNat = e.mv) ∧
  (Ev.posInf ≤ e.eval → ∃ r ∈ legalMoves s, r.1.toNat = e.mv ∧ Lost r.2) ∧
  (e.kind = kindExact ∨ e.kind = kindUpper → e.eval ≤ Ev.negInf → Lost s)

/-- every entry found under the key of a position of the domain is sound for that position -/
def SoundTT (K : Keys) (D : State → Prop) (tt : TT.Access) : Prop :=
  ∀ s e, D s → tt.find (hash K s).toNat = some e → SoundEntry s e

/-- the set of positions a search may visit: closed under legal moves, the move generator does not
panic on it, and positions with the same key are interchangeable for the claims of a table entry
(no harmful hash collision inside the set).  (Before the repair of F10 there was a third field
`bounded : ∀ s, D s → MaterialBounded s`; the clamp at the end of `Evaluator::evaluate` made it
unnecessary: `static_ok` holds for every state.) -/
structure Domain (K : Keys) (D : State → Prop) : Prop where
  closed : ∀ s, D s → ∀ r ∈ legalMoves s, D r.2
  genOK : ∀ s, D s → legalMoves? s ≠ none
  coll : ∀ s s', D s → D s' → (hash K s).toNat = (hash K s').toNat → ∀ e, SoundEntry s e → SoundEntry s' e

/-- the positions reachable from a position of the domain are in the domain -/
theorem Domain.reach {K : Keys} {D : State → Prop} (dom : Domain K D) {s : State} (hs : D s) :
    ∀ s', Reachable s s' → D s' := by
  intro s' hr
  induction hr with
  | refl => exact hs
  | step r _ hr ih => exact dom.closed _ ih r hr

theorem Domain.gen {K : Keys} {D : State → Prop} (dom : Domain K D) {s : State} (hs : D s) :
    ∃ ms, legalMoves? s = some ms := by
  cases h : legalMoves? s with
  | none => exact absurd h (dom.genOK s hs)
  | some ms => exact ⟨ms, rfl⟩

/-- invariant of the running `alpha`/`best_move` of the move loop of `analyze_recursive` -/
def LoopInv (s : State) (α₀ β : Eval) (alpha : Eval) (best : Option Move) : Prop :=
  α₀ ≤ alpha ∧ alpha < β ∧ (α₀ < alpha → 10000 ≤ alpha → Win s) ∧
  (∀ m, best = some m → ∃ r ∈ legalMoves s, r.1 = m ∧ (10000 ≤ alpha → Lost r.2))

/-- postcondition of the move loop over the moves `l`, started with `alpha` -/
def LoopPost (s : State) (α₀ β : Eval) (l : List Move) (alpha : Eval) :
    Except Eval (Eval × Option Move × Nat) → Prop
  | .error b => b = β ∧ (10000 ≤ β → Win s)
  | .ok (alpha', best', _) => alpha ≤ alpha' ∧ LoopInv s α₀ β alpha' best' ∧
      (alpha' ≤ -10000 → ∀ r ∈ legalMoves s, r.1 ∈ l → Win r.2)

theorem childLoop_sound {I : St → Prop} {K : Keys} {D : State → Prop} (dom : Domain K D) (ctx : Ctx)
    (child : NodeArgs → M Eval) (a : NodeArgs) (hash : UInt64) (α₀ : Eval) (hD : D a.s)
    (hchild : ∀ args : NodeArgs, D args.s → args.alpha < args.beta → args.prioritized = Option.none →
      Holds I (child args) (SoundVal args.s args.alpha args.beta))
    (hins : ∀ st e, I st → SoundEntry a.s e → I { st with tt := st.tt.insert hash.toNat e }) :
    ∀ (l : List Move) (alpha : Eval) (best : Option Move) (kind : Nat),
      (∀ mv ∈ l, ∀ r, tryAsLegal a.s mv = some (some r) → r ∈ legalMoves a.s) →
      LoopInv a.s α₀ a.beta alpha best →
      Holds I (childLoop ctx child a hash l alpha best kind) (LoopPost a.s α₀ a.beta l alpha) := by
  obtain ⟨ms, hms⟩ := dom.gen hD
  intro l
  induction l with
  | nil =>
    intro alpha best kind _ hinv
    rw [childLoop.eq_1]
    exact Holds.pure ⟨Int.le_refl _, hinv, fun _ r _ hr => nomatch hr⟩
  | cons mv rest ih =>
    intro alpha best kind hleg hinv
    have hleg' : ∀ mv ∈ rest, ∀ r, tryAsLegal a.s mv = some (some r) → r ∈ legalMoves a.s :=
      fun mv' h' => hleg mv' (List.mem_cons_of_mem _ h')
    rw [childLoop.eq_2]
    cases ht : tryAsLegal a.s mv with
    | none => exact Holds.throw
    | some o =>
      cases o with
      | none =>
        simp only
        refine (ih alpha best kind hleg' hinv).mono ?_
        rintro (b | ⟨alpha', best', kind'⟩) hp
        · exact hp
        · refine ⟨hp.1, hp.2.1, fun h r hr hmem => ?_⟩
          rcases List.mem_cons.1 hmem with h1 | h1
          · have := try_of_legal hms hr
            rw [h1, ht] at this; cases this
          · exact hp.2.2 h r hr h1
      | some mn =>
        obtain ⟨m, next⟩ := mn
        simp only
        have hr : (m, next) ∈ legalMoves a.s := hleg mv List.mem_cons_self _ ht
        have hm : m = mv := tryAsLegal_fst ht
        obtain ⟨h0, hβ, hwin, hbest⟩ := hinv
        refine Holds.bind (hchild _ (dom.closed _ hD _ hr) (by show -a.beta < -alpha; eomega) rfl) ?_
        intro v hv
        replace hv : SoundVal next (-a.beta) (-alpha) v := hv
        have hlost : 10000 ≤ -v → alpha < -v → Lost next := fun h1 h2 =>
          hv.2 ⟨by rw [negInf_eq]; eomega, by eomega⟩
        have hwinc : -v < a.beta → -v ≤ -10000 → Win next := fun h1 h2 =>
          hv.1 ⟨by rw [posInf_eq]; eomega, by eomega⟩
        -- every legal move with move word `mv` is `(m, next)`
        have huniq : ∀ r ∈ legalMoves a.s, r.1 = mv → r = (m, next) := by
          intro r hr' h1
          have := try_of_legal hms hr'
          rw [h1, ht] at this
          cases this; rfl
        by_cases hcut : -v ≥ a.beta
        · rw [if_pos hcut]
          refine Holds.bind (Holds.modify fun st hi => hins st _ hi ?_) fun _ _ => Holds.pure ?_
          · refine ⟨⟨(m, next), hr, rfl⟩, fun hp => ⟨(m, next), hr, rfl, ?_⟩, fun hk => ?_⟩
            · replace hp : (10000 : Int) ≤ a.beta := hp
              exact hlost (by eomega) (by eomega)
            · replace hk : kindLower = kindExact ∨ kindLower = kindUpper := hk
              rcases hk with hk | hk <;> exact absurd hk (by decide)
          · exact ⟨rfl, fun hp => win_of_child_lost hr (hlost (by eomega) (by eomega))⟩
        · rw [if_neg hcut]
          by_cases hgt : -v > alpha
          · rw [if_pos hgt]
            have hl' : 10000 ≤ -v → Lost next := fun h => hlost h hgt
            refine (ih (-v) (some m) kindExact hleg'
              ⟨by eomega, by eomega, fun _ h => win_of_child_lost hr (hl' h),
               fun m' hm' => ⟨(m, next), hr, by cases hm'; rfl, hl'⟩⟩).mono ?_
            rintro (b | ⟨alpha', best', kind'⟩) hp
            · exact hp
            · refine ⟨by have := hp.1; eomega, hp.2.1, fun h r hr' hmem => ?_⟩
              rcases List.mem_cons.1 hmem with h1 | h1
              · rw [huniq r hr' h1]
                exact hwinc (by eomega) (by have := hp.1; eomega)
              · exact hp.2.2 h r hr' h1
          · rw [if_neg hgt]
            refine (ih alpha best kind hleg' ⟨h0, hβ, hwin, hbest⟩).mono ?_
            rintro (b | ⟨alpha', best', kind'⟩) hp
            · exact hp
            · refine ⟨hp.1, hp.2.1, fun h r hr' hmem => ?_⟩
              rcases List.mem_cons.1 hmem with h1 | h1
              · rw [huniq r hr' h1]
                exact hwinc (by eomega) (by have := hp.1; eomega)
              · exact hp.2.2 h r hr' h1


/-! ## 7. move ordering -/

theorem jitter_holds {I : St → Prop} (hrng : ∀ st r, I st → I { st with rng := r }) :
    Holds I jitter (fun _ => True) := by
  rw [jitter.eq_1]
  refine Holds.bind Holds.get fun st hi => ?_
  simp only
  exact Holds.bind (Holds.set (hrng st _ hi)) fun _ _ => Holds.pure trivial

theorem mapM_keyed_holds {I : St → Prop} {α : Type} (key : α → M Eval)
    (hkey : ∀ x, Holds I (key x) (fun _ => True)) :
    ∀ xs : List α, Holds I (xs.mapM fun x => do let k ← key x; pure (k, x)) (fun ys => ys.map (·.2) = xs) := by
  intro xs
  induction xs with
  | nil => rw [List.mapM_nil]; exact Holds.pure rfl
  | cons x xs ih =>
    rw [List.mapM_cons]
    refine Holds.bind (P := fun y => y.2 = x) ?_ fun y hy => Holds.bind ih fun ys hys => Holds.pure ?_
    · exact Holds.bind (hkey x) fun k _ => Holds.pure rfl
    · simp only [List.map_cons, hy, hys]

/-- `sort_by_cached_key` returns a list with the same members -/
theorem sort_holds {I : St → Prop} {α : Type} (xs : List α) (key : α → M Eval)
    (hkey : ∀ x, Holds I (key x) (fun _ => True)) :
    Holds I (sortByCachedKey xs key) (fun ys => ∀ x, x ∈ ys ↔ x ∈ xs) := by
  rw [sortByCachedKey.eq_1]
  split
  · exact Holds.pure fun _ => Iff.rfl
  · refine Holds.bind (mapM_keyed_holds key hkey xs) fun keyed hk => Holds.pure fun x => ?_
    rw [← hk]
    simp only [List.mem_map, List.mem_mergeSort]

/-- when no move of the buffer is legal the loop does nothing (no child call, no table write) -/
theorem childLoop_none (ctx : Ctx) (child : NodeArgs → M Eval) (a : NodeArgs) (hash : UInt64) :
    ∀ (l : List Move) (alpha : Eval) (best : Option Move) (kind : Nat),
      (∀ mv ∈ l, tryAsLegal a.s mv = some Option.none) →
      childLoop ctx child a hash l alpha best kind = pure (.ok (alpha, best, kind)) := by
  intro l
  induction l with
  | nil => intro alpha best kind _; rw [childLoop.eq_1]
  | cons mv rest ih =>
    intro alpha best kind h
    rw [childLoop.eq_2, h mv List.mem_cons_self]
    exact ih alpha best kind fun mv' h' => h mv' (List.mem_cons_of_mem _ h')


/-! ## 8. `analyze_recursive` in three pieces (definitionally equal to the model's `searchNode`) -/

/-- the part of `analyze_recursive` after the table probe, with the (possibly tightened) window;
`rec = none` at remaining depth 0 (quiescence), `some child` otherwise -/
def tail (ctx : Ctx) (a : NodeArgs) (hash : UInt64) (alpha beta : Eval) : Option (NodeArgs → M Eval) → M Eval
  | Option.none =>
      match quiesce evaluate (quiesceFuel a.s) a.s a.curDepth alpha beta with
      | .ok v => pure v
      | .error e => throw e
  | some child =>
      match pseudoLegalMoves a.s with
      | Option.none => throw (.panic "move generation: Square::offset(..).unwrap()")
      | some pseudo => do
        let sorted ← sortByCachedKey pseudo fun mv => do
          let j ← jitter
          pure (estimate a.s mv + j)
        let buffer := match a.prioritized with | some m => sorted ++ [m] | Option.none => sorted
        let before := (← get).nodes
        let a' := { a with alpha := alpha, beta := beta }
        match ← childLoop ctx child a' hash buffer.reverse alpha Option.none kindUpper with
        | .error b => return b
        | .ok (alpha', best, kind) =>
          if (← get).nodes == before then
            match evaluate a.s a.s.turn a.curDepth with
            | some e => return e
            | Option.none => throw (.panic "evaluate: no king")
          match best with
          | some m =>
            let e : TT.Entry := { kind := kind, mv := m.toNat, depth := a.curDepth, maxDepth := a.maxDepth, eval := alpha' }
            modify fun st => { st with tt := st.tt.insert hash.toNat e }
          | Option.none => pure ()
          return alpha'

/-- the table probe of `analyze_recursive` -/
def probe (ctx : Ctx) (a : NodeArgs) (hash : UInt64) (rec : Option (NodeArgs → M Eval)) : M Eval := do
    match (← get).tt.find hash.toNat with
    | some e =>
      if a.maxDepth < a.curDepth ∨ e.maxDepth < e.depth then throw (.panic "usize subtraction underflow")
      if e.maxDepth - e.depth ≥ a.maxDepth - a.curDepth then
        if e.kind == kindExact then return e.eval
        else if e.kind == kindUpper then
          if a.alpha ≥ min a.beta e.eval then return e.eval else tail ctx a hash a.alpha (min a.beta e.eval) rec
        else
          if max a.alpha e.eval ≥ a.beta then return e.eval else tail ctx a hash (max a.alpha e.eval) a.beta rec
      else tail ctx a hash a.alpha a.beta rec
    | Option.none => tail ctx a hash a.alpha a.beta rec

/-- `analyze_recursive` with the recursive call abstracted -/
def nodeBody (ctx : Ctx) (rec : Option (NodeArgs → M Eval)) (a : NodeArgs) : M Eval := do
    modify fun st => { st with nodes := st.nodes + 1 }
    let st ← get
    if st.nodes % Gen.pollInterval == 0 then
      let cancelled := match ctx.cancelAt with | some k => decide (st.polls ≥ k) | Option.none => false
      set { st with polls := st.polls + 1 }
      if cancelled then throw .interrupt
    let hash := Wee.hash ctx.keys a.s
    if a.curDepth > 0 && ctx.history.contains hash then return 0
    probe ctx a hash rec

theorem searchNode_zero (ctx : Ctx) (a : NodeArgs) : searchNode ctx 0 a = nodeBody ctx Option.none a := rfl
theorem searchNode_succ (ctx : Ctx) (rem : Nat) (a : NodeArgs) :
    searchNode ctx (rem+1) a = nodeBody ctx (some (searchNode ctx rem)) a := rfl

/-- the move handed over from the previous iteration (root only) is a legal move -/
def PrioOK (a : NodeArgs) : Prop := ∀ m, a.prioritized = some m → ∃ r ∈ legalMoves a.s, r.1 = m

theorem mem_buffer (prio : Option Move) (sorted : List Move) (mv : Move) :
    mv ∈ (match prio with | some m => sorted ++ [m] | Option.none => sorted).reverse ↔
      mv ∈ sorted ∨ prio = some mv := by
  cases prio with
  | none => simp
  | some m => simp [eq_comm, or_comm]

/-- the static value (from the side to move's perspective) is always a sound return value -/
theorem static_sound {s : State} {d : Nat} {e α β : Eval}
    (he : evaluate s s.turn d = some e) : SoundVal s α β e := by
  refine ⟨fun h => ?_, fun h => ?_⟩
  · have := static_lt he
    rw [posInf_eq] at h; eomega
  · have ht : Ev.isTerminal e = true := by
      unfold Ev.isTerminal
      rw [Bool.or_eq_true, decide_eq_true_eq]
      exact Or.inl h.1
    obtain ⟨h1, h2, _⟩ := static_ok he ht
    exact lost_of_mate h1 h2

theorem throw_bind_holds {α β : Type} {I : St → Prop} {e : Stop} {f : α → M β} {Q : β → Prop} :
    Holds I ((throw e : M α) >>= f) Q :=
  Holds.bind (P := fun _ => False) Holds.throw fun _ h => h.elim

/-- the end of `analyze_recursive`: store the best move (if any) and return `alpha` -/
theorem finish_holds {I : St → Prop} (a : NodeArgs) (hash : UInt64) (alpha beta alpha' : Eval) (best : Option Move)
    (kind : Nat)
    (hins : ∀ st e, I st → SoundEntry a.s e → I { st with tt := st.tt.insert hash.toNat e })
    (hne : legalMoves a.s ≠ []) (hinv : LoopInv a.s alpha beta alpha' best)
    (hall : alpha' ≤ -10000 → ∀ r ∈ legalMoves a.s, Win r.2) :
    Holds I (match best with
      | some m => do
        modify fun st => { st with tt := st.tt.insert hash.toNat ({ kind := kind, mv := m.toNat, depth := a.curDepth, maxDepth := a.maxDepth, eval := alpha' } : TT.Entry) }
        pure alpha'
      | Option.none => (pure alpha' : M Eval)) (SoundVal a.s alpha beta) := by
  have hlost : alpha' ≤ -10000 → Lost a.s := fun h => Lost.forced a.s hne (hall h)
  have hsv : SoundVal a.s alpha beta alpha' := by
    refine ⟨fun h => ?_, fun h => ?_⟩
    · rw [posInf_eq] at h; exact hinv.2.2.1 h.2 h.1
    · rw [negInf_eq] at h; exact hlost h.1
  cases best with
  | none => exact Holds.pure hsv
  | some m =>
    simp only
    obtain ⟨r, hr, h1, hl⟩ := hinv.2.2.2 m rfl
    refine Holds.bind (Holds.modify fun st hi => hins st _ hi ?_) fun _ _ => Holds.pure hsv
    refine ⟨⟨r, hr, by rw [h1]⟩, fun hp => ⟨r, hr, by rw [h1], hl hp⟩, fun _ hn => hlost ?_⟩
    rw [negInf_eq] at hn; exact hn

theorem tail_sound {I : St → Prop} {K : Keys} {D : State → Prop} (dom : Domain K D) (ctx : Ctx)
    (a : NodeArgs) (hash : UInt64) (alpha beta : Eval) (hD : D a.s) (hab : alpha < beta) (hprio : PrioOK a)
    (hrng : ∀ st r, I st → I { st with rng := r })
    (hins : ∀ st e, I st → SoundEntry a.s e → I { st with tt := st.tt.insert hash.toNat e })
    (rec : Option (NodeArgs → M Eval))
    (hrec : ∀ child, rec = some child → ∀ args : NodeArgs, D args.s → args.alpha < args.beta →
      args.prioritized = Option.none → Holds I (child args) (SoundVal args.s args.alpha args.beta)) :
    Holds I (tail ctx a hash alpha beta rec) (SoundVal a.s alpha beta) := by
  obtain ⟨ms, hms⟩ := dom.gen hD
  cases rec with
  | none =>
    unfold tail
    cases hq : quiesce evaluate (quiesceFuel a.s) a.s a.curDepth alpha beta with
    | error e => exact Holds.throw
    | ok v => exact Holds.pure (quiesce_sound _ _ _ _ _ _ hab hq)
  | some child =>
    unfold tail
    obtain ⟨ps, hps⟩ := pseudo_of_legal hms
    have hlm := legalMoves_of_some hms
    rw [hps]
    simp only
    by_cases hemp : ms = []
    · -- no legal move: nothing is searched, the node counter does not move, the static value is returned
      subst hemp
      refine Holds.of_family (J := fun n st => st.nodes = n) (fun n => ?_) (fun st _ => ⟨st.nodes, rfl⟩)
      have hrng' : ∀ (st : St) (r : Rng.ChaCha8), (I st ∧ st.nodes = n) →
          (I { st with rng := r } ∧ ({ st with rng := r } : St).nodes = n) :=
        fun st r h => ⟨hrng st r h.1, h.2⟩
      refine Holds.bind (sort_holds ps _ fun x => Holds.bind (jitter_holds hrng') fun _ _ => Holds.pure trivial)
        fun sorted hsorted => ?_
      refine Holds.bind Holds.get fun st0 hst0 => ?_
      have hill : ∀ mv ∈ (match a.prioritized with | some m => sorted ++ [m] | Option.none => sorted).reverse,
          tryAsLegal a.s mv = some Option.none := by
        intro mv hmv
        rcases (mem_buffer _ _ _).1 hmv with h | h
        · have hmp := (hsorted mv).1 h
          cases ht : tryAsLegal a.s mv with
          | none => exact absurd ht (try_ne_none hms hps hmp)
          | some o =>
            cases o with
            | none => rfl
            | some r => exact nomatch (legal_iff hms hps r).2 ⟨mv, hmp, ht⟩
        · obtain ⟨r, hr, _⟩ := hprio mv h
          rw [hlm] at hr; exact nomatch hr
      rw [childLoop_none ctx child { a with alpha := alpha, beta := beta } hash _ alpha Option.none kindUpper hill, pure_bind]
      simp only
      refine Holds.bind Holds.get fun st1 hst1 => ?_
      have hn : (st1.nodes == st0.nodes) = true := by rw [hst1.2, hst0.2]; exact beq_self_eq_true _
      rw [if_pos hn]
      cases he : evaluate a.s a.s.turn a.curDepth with
      | some e => exact Holds.pure (static_sound he)
      | none => exact throw_bind_holds
    · have hne : legalMoves a.s ≠ [] := by rw [hlm]; exact hemp
      refine Holds.bind (sort_holds ps _ fun x => Holds.bind (jitter_holds hrng) fun _ _ => Holds.pure trivial)
        fun sorted hsorted => ?_
      refine Holds.bind Holds.get fun st0 _ => ?_
      have hleg : ∀ mv ∈ (match a.prioritized with | some m => sorted ++ [m] | Option.none => sorted).reverse,
          ∀ r, tryAsLegal a.s mv = some (some r) → r ∈ legalMoves a.s := by
        intro mv hmv r ht
        rcases (mem_buffer _ _ _).1 hmv with h | h
        · rw [hlm]; exact (legal_iff hms hps r).2 ⟨mv, (hsorted mv).1 h, ht⟩
        · obtain ⟨r0, hr0, h0⟩ := hprio mv h
          have := try_of_legal hms hr0
          rw [h0, ht] at this
          cases this; exact hr0
      refine Holds.bind (childLoop_sound dom ctx child
        { a with alpha := alpha, beta := beta } hash alpha hD (hrec child rfl) hins _ alpha Option.none kindUpper
        hleg ⟨Int.le_refl _, hab, fun h => absurd h (Int.lt_irrefl _), fun m h => nomatch h⟩) fun res hres => ?_
      rcases res with b | ⟨alpha', best, kind⟩
      · simp only
        obtain ⟨h1, h2⟩ := hres
        replace h1 : b = beta := h1
        subst h1
        refine Holds.pure ⟨fun h => h2 (by rw [posInf_eq] at h; exact h.1), fun h => ?_⟩
        exact absurd h.2 (Int.lt_irrefl _)
      · simp only
        obtain ⟨_, hinv, hall⟩ := hres
        refine Holds.bind Holds.get fun st1 _ => ?_
        have hfin := finish_holds a hash alpha beta alpha' best kind hins hne hinv (fun h r hr => by
          refine hall h r hr ((mem_buffer _ _ _).2 (Or.inl ((hsorted _).2 ?_)))
          rw [hlm] at hr
          obtain ⟨mv, hmv, ht⟩ := (legal_iff hms hps r).1 hr
          rw [tryAsLegal_fst ht]; exact hmv)
        by_cases hn : (st1.nodes == st0.nodes) = true
        · rw [if_pos hn]
          cases he : evaluate a.s a.s.turn a.curDepth with
          | some e => exact Holds.pure (static_sound he)
          | none => exact throw_bind_holds
        · rw [if_neg hn]
          exact hfin


/-! ## 9. the table invariant and the whole node -/

/-- the shape invariant of the table (C08) together with the soundness of its entries -/
def TTInv (K : Keys) (D : State → Prop) (L nT nB : Nat) (tt : TT.Access) : Prop :=
  TT.AInv L nT nB tt ∧ SoundTT K D tt

/-- table geometry: bucket length, number of sub-tables, buckets per sub-table — all positive -/
structure Geo (L nT nB : Nat) : Prop where
  hL : 0 < L
  hT : 0 < nT
  hB : 0 < nB

theorem TTInv.insert {K : Keys} {D : State → Prop} {L nT nB : Nat} (g : Geo L nT nB) (dom : Domain K D)
    {tt : TT.Access} (h : TTInv K D L nT nB tt) {s : State} (hs : D s) {e : TT.Entry} (he : SoundEntry s e) :
    TTInv K D L nT nB (tt.insert (hash K s).toNat e) := by
  refine ⟨h.1.insert g.hL g.hT g.hB _ _, fun s' e' hs' hf => ?_⟩
  by_cases hk : (hash K s').toNat = (hash K s).toNat
  · rw [hk, h.1.find_insert_self g.hL g.hT g.hB] at hf
    cases hf
    exact dom.coll s s' hs hs' hk.symm e he
  · rcases h.1.find_insert_other g.hL g.hT g.hB (hash K s).toNat e _ hk with h1 | h1
    · rw [h1] at hf; cases hf
    · rw [h1] at hf; exact h.2 s' e' hs' hf

theorem probe_sound {K : Keys} {D : State → Prop} {L nT nB : Nat} (g : Geo L nT nB) (dom : Domain K D)
    (ctx : Ctx) (a : NodeArgs) (hD : D a.s) (hab : a.alpha < a.beta) (hprio : PrioOK a)
    (rec : Option (NodeArgs → M Eval))
    (hrec : ∀ child, rec = some child → ∀ args : NodeArgs, D args.s → args.alpha < args.beta →
      args.prioritized = Option.none →
      Holds (fun st => TTInv K D L nT nB st.tt) (child args) (SoundVal args.s args.alpha args.beta)) :
    Holds (fun st => TTInv K D L nT nB st.tt) (probe ctx a (hash K a.s) rec) (SoundVal a.s a.alpha a.beta) := by
  have htail : ∀ alpha beta, alpha < beta → Holds (fun st => TTInv K D L nT nB st.tt)
      (tail ctx a (hash K a.s) alpha beta rec) (SoundVal a.s alpha beta) := fun alpha beta h =>
    tail_sound dom ctx a _ alpha beta hD h hprio (fun st r hi => hi)
      (fun st e hi he => TTInv.insert g dom hi hD he) rec hrec
  unfold probe
  refine Holds.bind Holds.get fun st hst => ?_
  cases hf : st.tt.find (hash K a.s).toNat with
  | none => exact htail _ _ hab
  | some e =>
    have hse := hst.2 a.s e hD hf
    simp only
    obtain ⟨_, hwin, hlost⟩ := hse
    have hW : 10000 ≤ e.eval → Win a.s := fun h2 => by
      obtain ⟨r, hr, _, hl⟩ := hwin h2
      exact win_of_child_lost hr hl
    have hL : e.kind = kindExact ∨ e.kind = kindUpper → e.eval ≤ -10000 → Lost a.s := hlost
    by_cases hu : a.maxDepth < a.curDepth ∨ e.maxDepth < e.depth
    · rw [if_pos hu]; exact throw_bind_holds
    · rw [if_neg hu]
      by_cases hd : e.maxDepth - e.depth ≥ a.maxDepth - a.curDepth
      · rw [if_pos hd]
        by_cases hx : (e.kind == kindExact) = true
        · rw [if_pos hx]
          have hx' : e.kind = kindExact := beq_iff_eq.1 hx
          refine Holds.pure ⟨fun h => hW ?_, fun h => hL (Or.inl hx') ?_⟩
          · rw [posInf_eq] at h; exact h.1
          · rw [negInf_eq] at h; exact h.1
        · rw [if_neg hx]
          by_cases hup : (e.kind == kindUpper) = true
          · rw [if_pos hup]
            have hup' : e.kind = kindUpper := beq_iff_eq.1 hup
            by_cases hc : a.alpha ≥ min a.beta e.eval
            · rw [if_pos hc]
              refine Holds.pure ⟨fun h => ?_, fun h => hL (Or.inr hup') ?_⟩
              · exfalso; have := h.2; eomega
              · rw [negInf_eq] at h; exact h.1
            · rw [if_neg hc]
              refine (htail _ _ (by eomega)).mono fun r hr => ⟨hr.1, fun h => ?_⟩
              rw [negInf_eq] at h
              by_cases hlt : r < min a.beta e.eval
              · exact hr.2 ⟨by rw [negInf_eq]; exact h.1, hlt⟩
              · exact hL (Or.inr hup') (by have := h.1; have := h.2; eomega)
          · rw [if_neg hup]
            by_cases hc : max a.alpha e.eval ≥ a.beta
            · rw [if_pos hc]
              refine Holds.pure ⟨fun h => hW ?_, fun h => ?_⟩
              · rw [posInf_eq] at h; exact h.1
              · exfalso; have := h.2; eomega
            · rw [if_neg hc]
              refine (htail _ _ (by eomega)).mono fun r hr => ⟨fun h => ?_, hr.2⟩
              rw [posInf_eq] at h
              by_cases hlt : max a.alpha e.eval < r
              · exact hr.1 ⟨by rw [posInf_eq]; exact h.1, hlt⟩
              · exact hW (by have := h.1; have := h.2; eomega)
      · rw [if_neg hd]; exact htail _ _ hab

theorem nodeBody_sound {K : Keys} {D : State → Prop} {L nT nB : Nat} (g : Geo L nT nB) (dom : Domain K D)
    (ctx : Ctx) (hK : ctx.keys = K) (a : NodeArgs) (hD : D a.s) (hab : a.alpha < a.beta) (hprio : PrioOK a)
    (rec : Option (NodeArgs → M Eval))
    (hrec : ∀ child, rec = some child → ∀ args : NodeArgs, D args.s → args.alpha < args.beta →
      args.prioritized = Option.none →
      Holds (fun st => TTInv K D L nT nB st.tt) (child args) (SoundVal args.s args.alpha args.beta)) :
    Holds (fun st => TTInv K D L nT nB st.tt) (nodeBody ctx rec a) (SoundVal a.s a.alpha a.beta) := by
  subst hK
  unfold nodeBody
  refine Holds.bind (Holds.modify fun st hi => hi) fun _ _ => ?_
  refine Holds.bind Holds.get fun st hst => ?_
  simp only
  have hrest : Holds (fun st => TTInv ctx.keys D L nT nB st.tt)
      (if (decide (a.curDepth > 0) && ctx.history.contains (hash ctx.keys a.s)) = true then pure 0
        else probe ctx a (hash ctx.keys a.s) rec) (SoundVal a.s a.alpha a.beta) := by
    split
    · exact Holds.pure (SoundVal.of_nonterminal (by eomega) (by eomega))
    · exact probe_sound g dom ctx a hD hab hprio rec hrec
  split
  · refine Holds.bind (Holds.set hst) fun _ _ => ?_
    split
    · split
      · exact throw_bind_holds
      · exact hrest
    · rw [if_neg (by decide)]; exact hrest
  · exact hrest

/-- **`analyze_recursive` is sound.**  For every remaining depth, every node argument whose
position lies in the domain, every window `alpha < beta`, every random generator state, poll
counter and cancellation point: the call keeps the table invariant (also when it is interrupted
or panics) and a returned value is `SoundVal` for the window it was called with. -/
theorem searchNode_sound {K : Keys} {D : State → Prop} {L nT nB : Nat} (g : Geo L nT nB) (dom : Domain K D)
    (ctx : Ctx) (hK : ctx.keys = K) : ∀ (rem : Nat) (a : NodeArgs), D a.s → a.alpha < a.beta → PrioOK a →
    Holds (fun st => TTInv K D L nT nB st.tt) (searchNode ctx rem a) (SoundVal a.s a.alpha a.beta) := by
  intro rem
  induction rem with
  | zero =>
    intro a hD hab hp
    rw [searchNode_zero]
    exact nodeBody_sound g dom ctx hK a hD hab hp Option.none (fun _ h => nomatch h)
  | succ rem ih =>
    intro a hD hab hp
    rw [searchNode_succ]
    refine nodeBody_sound g dom ctx hK a hD hab hp _ fun child hc args hDa haba hpa => ?_
    cases hc
    exact ih args hDa haba (fun m hm => by rw [hpa] at hm; cases hm)


end Wee.C06
