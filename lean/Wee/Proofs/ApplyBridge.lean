import Wee.Proofs.MoveGenLemmas
import Wee.Proofs.ApplyGen
import Wee.Proofs.ApplyCodes
/-!
# C02 ⇄ C01: every generated pseudo-legal move fits (`C02.MoveFits`), hence `ApplyCorrect`

`Wee/Proofs/MoveGenLemmas.lean` (C01) takes make-move correctness as the hypothesis `ApplyCorrect`.
This file discharges it from `C02_apply_fits`:
* part 1 — every move in the generator's list was built by a public constructor with squares `< 64`,
  so its capture / promotion codes are valid (`CodesOk`);
* part 2 — what `LegalPos` gives at the rule level (no check on the side not to move, rights ⇒ king
  and rook at home, en-passant target behind a pawn);
* part 3 — a rule-level pseudo-legal move of a legal position satisfies every clause of `C02.MoveFits`;
* part 4 — `ApplyCorrect`.
-/
namespace Wee.C02
open Wee.C10 (DisjointBoard)

/-! ## part 1: generated moves have valid codes -/

theorem codesOk_expand (h : Helper) (o : Nat) (ho : o < 64) (dests : UInt64) (p : Piece) (m : Move)
    (hm : m ∈ expandMoves h o dests p) : CodesOk m := by
  obtain ⟨t, ht, _, rfl⟩ := (mem_expandMoves h o dests p m).1 hm
  cases capturedAt h.s t with
  | none => exact codesOk_byMoving _ _ _ _ ho ht
  | some cap => exact codesOk_byCapturing _ _ _ _ _ ho ht

theorem codesOk_knight (h : Helper) (m : Move) (hm : m ∈ knightMoves h) : CodesOk m := by
  unfold knightMoves at hm
  obtain ⟨sq, hsq, hm⟩ := List.mem_flatMap.1 hm
  exact codesOk_expand h sq ((mem_bitsOf _ _).1 hsq).1 _ _ m hm

theorem codesOk_slider (h : Helper) (p : Piece) (att : Nat → UInt64 → UInt64) (m : Move)
    (hm : m ∈ sliderMoves h p att) : CodesOk m := by
  unfold sliderMoves at hm
  obtain ⟨sq, hsq, hm⟩ := List.mem_flatMap.1 hm
  exact codesOk_expand h sq ((mem_bitsOf _ _).1 hsq).1 _ _ m hm

theorem codesOk_king (h : Helper) (m : Move) (hm : m ∈ kingMoves h) : CodesOk m := by
  unfold kingMoves at hm
  rcases List.mem_append.1 hm with hm | hm
  · obtain ⟨sq, hsq, hm⟩ := List.mem_flatMap.1 hm
    exact codesOk_expand h sq ((mem_bitsOf _ _).1 hsq).1 _ _ m hm
  · obtain ⟨side, _, hs⟩ := List.mem_filterMap.1 hm
    split at hs
    · dsimp only at hs
      split at hs
      · cases hs; exact codesOk_byCastling _ _
      · cases hs
    · cases hs

theorem mem_flatten_mapM {α β : Type} (f : α → Option (List β)) (l : List α) (rs : List (List β))
    (h : l.mapM f = some rs) (y : β) (hy : y ∈ rs.flatten) : ∃ x ∈ l, ∃ ys, f x = some ys ∧ y ∈ ys := by
  obtain ⟨ys, hys, hy'⟩ := List.mem_flatten.1 hy
  obtain ⟨x, hx, hfx⟩ := mapM_some_mem f l rs h ys hys
  exact ⟨x, hx, ys, hfx, hy'⟩

theorem codesOk_pawn (h : Helper) (pm : List Move) (hpm : pawnMoves h = some pm) (m : Move) (hm : m ∈ pm) :
    CodesOk m := by
  rw [pawnMoves_eq] at hpm
  -- the three push segments
  cases ha : pawnPushSeg h with
  | none => rw [ha] at hpm; cases hpm
  | some a =>
  cases hb : pawnPromoSeg h with
  | none => rw [ha, hb] at hpm; cases hpm
  | some b =>
  cases hc : pawnDoubleSeg h with
  | none => rw [ha, hb, hc] at hpm; cases hpm
  | some c =>
  cases he : pawnSideSeg h true with
  | none => rw [ha, hb, hc, he] at hpm; cases hpm
  | some e =>
  cases hw : pawnSideSeg h false with
  | none => rw [ha, hb, hc, he, hw] at hpm; cases hpm
  | some w =>
  rw [ha, hb, hc, he, hw] at hpm
  simp only [Option.bind_eq_bind, Option.bind_some, Option.pure_def, Option.some.injEq] at hpm
  subst hpm
  have hside : ∀ east l, pawnSideSeg h east = some l → ∀ m ∈ l, CodesOk m := by
    intro east l hl m hm
    rw [pawnSideSeg_eq] at hl
    cases hx : pawnCapSeg h east with
    | none => rw [hx] at hl; cases hl
    | some x =>
    cases hy : pawnCapPromoSeg h east with
    | none => rw [hx, hy] at hl; cases hl
    | some y =>
    cases hz : pawnEpSeg h east with
    | none => rw [hx, hy, hz] at hl; cases hl
    | some z =>
    rw [hx, hy, hz] at hl
    simp only [Option.bind_eq_bind, Option.bind_some, Option.pure_def, Option.some.injEq] at hl
    subst hl
    rcases List.mem_append.1 hm with hm | hm
    · rcases List.mem_append.1 hm with hm | hm
      · obtain ⟨t, ht, hf⟩ := mapM_some_mem _ _ _ hx m hm
        have ht64 := ((mem_bitsOf _ _).1 ht).1
        cases ho : offset t (invDf east) h.us.backward with
        | none => simp [ho] at hf
        | some o =>
          cases hcap : capturedAt h.s t with
          | none => simp [ho, hcap] at hf
          | some cap =>
            simp only [ho, hcap, Option.bind_eq_bind, Option.bind_some, Option.pure_def, Option.some.injEq] at hf
            subst hf
            exact codesOk_byCapturing _ _ _ _ _ (offset_lt ho) ht64
      · obtain ⟨t, ht, ys, hf, hmy⟩ := mem_flatten_mapM _ _ _ hy m hm
        have ht64 := ((mem_bitsOf _ _).1 ht).1
        cases ho : offset t (invDf east) h.us.backward with
        | none => simp [ho] at hf
        | some o =>
          cases hcap : capturedAt h.s t with
          | none => simp [ho, hcap] at hf
          | some cap =>
            simp only [ho, hcap, Option.bind_eq_bind, Option.bind_some, Option.pure_def, Option.some.injEq] at hf
            subst hf
            obtain ⟨pr, _, rfl⟩ := List.mem_map.1 hmy
            exact codesOk_byCapturePromoting _ _ _ _ _ _ (offset_lt ho) ht64
    · unfold pawnEpSeg at hz
      cases hfo : firstOne (epBB h east) with
      | none => rw [hfo] at hz; simp at hz; subst hz; cases hm
      | some t =>
        rw [hfo] at hz
        simp only [] at hz
        cases ho : offset t (invDf east) h.us.backward with
        | none => simp [ho] at hz
        | some o =>
          simp only [ho, Option.bind_eq_bind, Option.bind_some, Option.pure_def, Option.some.injEq] at hz
          subst hz
          rw [List.mem_singleton] at hm
          subst hm
          exact codesOk_byEnPassant _ _ _ _ (offset_lt ho) (firstOne_lt _ _ hfo)
  rcases List.mem_append.1 hm with hm | hm
  · rcases List.mem_append.1 hm with hm | hm
    · rcases List.mem_append.1 hm with hm | hm
      · rcases List.mem_append.1 hm with hm | hm
        · unfold pawnPushSeg at ha
          obtain ⟨t, ht, hf⟩ := mapM_some_mem _ _ _ ha m hm
          have ht64 := ((mem_bitsOf _ _).1 ht).1
          cases ho : offset t 0 h.us.backward with
          | none => simp [ho] at hf
          | some o =>
            simp only [ho, Option.bind_eq_bind, Option.bind_some, Option.pure_def, Option.some.injEq] at hf
            subst hf
            exact codesOk_byMoving _ _ _ _ (offset_lt ho) ht64
        · unfold pawnPromoSeg at hb
          obtain ⟨t, ht, ys, hf, hmy⟩ := mem_flatten_mapM _ _ _ hb m hm
          have ht64 := ((mem_bitsOf _ _).1 ht).1
          cases ho : offset t 0 h.us.backward with
          | none => simp [ho] at hf
          | some o =>
            simp only [ho, Option.bind_eq_bind, Option.bind_some, Option.pure_def, Option.some.injEq] at hf
            subst hf
            obtain ⟨pr, _, rfl⟩ := List.mem_map.1 hmy
            exact codesOk_byPromoting _ _ _ _ _ (offset_lt ho) ht64
      · unfold pawnDoubleSeg at hc
        obtain ⟨t, ht, hf⟩ := mapM_some_mem _ _ _ hc m hm
        have ht64 := ((mem_bitsOf _ _).1 ht).1
        cases ho1 : offset t 0 h.us.backward with
        | none => simp [ho1] at hf
        | some o1 =>
          cases ho : offset o1 0 h.us.backward with
          | none => simp [ho1, ho] at hf
          | some o =>
            simp only [ho1, ho, Option.bind_eq_bind, Option.bind_some, Option.pure_def, Option.some.injEq] at hf
            subst hf
            exact codesOk_byMoving _ _ _ _ (offset_lt ho) ht64
    · exact hside true e he m hm
  · exact hside false w hw m hm

/-- **every generated pseudo-legal move has valid capture / promotion codes** -/
theorem codesOk_of_generated (s : State) (L : List Move) (hL : pseudoLegalMoves s = some L) (mv : Move)
    (hmv : mv ∈ L) : CodesOk mv := by
  unfold pseudoLegalMoves at hL
  dsimp only at hL
  cases hp : pawnMoves (Helper.of s) with
  | none => rw [hp] at hL; cases hL
  | some pm =>
    rw [hp] at hL
    simp only [Option.bind_eq_bind, Option.bind_some, Option.pure_def, Option.some.injEq] at hL
    subst hL
    rcases List.mem_append.1 hmv with h | h
    · rcases List.mem_append.1 h with h | h
      · rcases List.mem_append.1 h with h | h
        · rcases List.mem_append.1 h with h | h
          · rcases List.mem_append.1 h with h | h
            · exact codesOk_pawn _ pm hp mv h
            · exact codesOk_knight _ mv h
          · exact codesOk_king _ mv h
        · exact codesOk_slider _ _ _ mv h
      · exact codesOk_slider _ _ _ mv h
    · exact codesOk_slider _ _ _ mv h


/-! ## part 2: what `LegalPos` gives at the rule level -/

theorem spec_opp_opp (c : Spec.Color) : c.opp.opp = c := by cases c <;> rfl

theorem legal_noCheck (s : State) (hl : LegalPos s = true) : (abs s).inCheck (abs s).turn.opp = false := by
  unfold LegalPos Spec.LegalPos at hl
  simp only [Bool.and_eq_true] at hl
  obtain ⟨⟨⟨⟨⟨⟨⟨⟨⟨_, _⟩, _⟩, h4⟩, _⟩, _⟩, _⟩, _⟩, _⟩, _⟩ := hl
  simpa using h4

/-- no pseudo-legal capture takes a king: the side not to move is not in check -/
theorem no_king_capture (s : State) (hl : LegalPos s = true) {o t : Nat} {k : Spec.Kind}
    (hat : (abs s).at o = some ((abs s).turn, k))
    (ht : t ∈ Spec.attacksFrom (abs s).occupied (abs s).turn k o) :
    (abs s).at t ≠ some ((abs s).turn.opp, Spec.Kind.king) := by
  intro h
  have hc : (abs s).inCheck (abs s).turn.opp = true := by
    rw [Wee.C10.inCheck_iff]
    refine ⟨t, at_lt h, h, ?_⟩
    rw [Wee.C10.attackedBy_iff, spec_opp_opp]
    exact ⟨o, at_lt hat, k, hat, ht⟩
  rw [legal_noCheck s hl] at hc; cases hc

/-- rights held by the side to move ⇒ its king is at home and the rook on the corner (rule level) -/
theorem legal_rights (s : State) (hl : LegalPos s = true) :
    ((abs s).wk = true → (abs s).at 4 = some (.white, .king) ∧ (abs s).at 7 = some (.white, .rook)) ∧
    ((abs s).wq = true → (abs s).at 4 = some (.white, .king) ∧ (abs s).at 0 = some (.white, .rook)) ∧
    ((abs s).bk = true → (abs s).at 60 = some (.black, .king) ∧ (abs s).at 63 = some (.black, .rook)) ∧
    ((abs s).bq = true → (abs s).at 60 = some (.black, .king) ∧ (abs s).at 56 = some (.black, .rook)) := by
  unfold LegalPos Spec.LegalPos at hl
  simp only [Bool.and_eq_true] at hl
  obtain ⟨⟨⟨⟨⟨⟨⟨⟨⟨_, _⟩, _⟩, _⟩, _⟩, hwk⟩, hwq⟩, hbk⟩, hbq⟩, _⟩ := hl
  have key : ∀ (b : Bool) (x y : Bool), (!b || (x && y)) = true → b = true → x = true ∧ y = true := by
    intro b x y h hb; subst hb; simpa using h
  refine ⟨fun e => ?_, fun e => ?_, fun e => ?_, fun e => ?_⟩
  · have := key _ _ _ hwk e; simpa using this
  · have := key _ _ _ hwq e; simpa using this
  · have := key _ _ _ hbk e; simpa using this
  · have := key _ _ _ hbq e; simpa using this

/-- the en-passant target lies directly behind a pawn of the side that just moved -/
theorem legal_ep_victim (s : State) (hl : LegalPos s = true) (t : Nat) (he : (abs s).ep = some t) :
    ∃ v, Spec.step t 0 (abs s).turn.opp.fwd = some v ∧ (abs s).at v = some ((abs s).turn.opp, Spec.Kind.pawn) := by
  unfold LegalPos Spec.LegalPos at hl
  simp only [Bool.and_eq_true] at hl
  have h10 := hl.2
  rw [he] at h10
  simp only [Bool.and_eq_true] at h10
  obtain ⟨⟨_, h3⟩, _⟩ := h10
  cases hs : Spec.step t 0 (abs s).turn.opp.fwd with
  | none => rw [hs] at h3; cases h3
  | some v =>
    rw [hs] at h3
    exact ⟨v, rfl, by simpa using h3⟩


/-! ## part 3: a rule-level pseudo-legal move of a legal position fits -/

/-- constructor for moves that are neither en passant nor castling -/
theorem fits_plain {s : State} {mv : Move} {sm : Spec.SMove} (hspec : toSpecMove mv = some sm)
    (hcodes : CodesOk mv) (hd : DisjointBoard s.pieces) (hcol : sm.color = absColor s.turn)
    (hsrc : sm.src < 64) (hdst : sm.dst < 64) (hep : sm.ep = false) (hcs : sm.castle = Option.none)
    (hmover : (abs s).at sm.src = some (sm.color, sm.kind))
    (hq : sm.capture = Option.none → (abs s).at sm.dst = Option.none)
    (hc : ∀ k, sm.capture = some k → (abs s).at sm.dst = some (sm.color.opp, k) ∧ k ≠ Spec.Kind.king)
    (hpromo : ∀ k, sm.promo = some k →
      sm.kind = Spec.Kind.pawn ∧ sm.dst / 8 = Spec.lastRank sm.color ∧ k ∈ Spec.promoKinds)
    (hdbl : sm.dbl = true ↔ (sm.kind = Spec.Kind.pawn ∧ (sm.dst : Int) = (sm.src : Int) + 16 * sm.color.fwd)) :
    MoveFits s mv sm :=
  { spec := hspec, codes := hcodes, disjoint := hd, color := hcol, src_lt := hsrc, dst_lt := hdst
    mover := hmover
    quiet := fun h => ⟨hep, hq h⟩
    capture := fun k h _ => hc k h
    enPassant := fun h => by rw [hep] at h; cases h
    promo := hpromo
    castle := fun b h => by rw [hcs] at h; cases h
    dbl := hdbl }

theorem fwd_cases' (c : Spec.Color) : c.fwd = 1 ∨ c.fwd = -1 := by cases c <;> simp [Spec.Color.fwd]

theorem pawn_attack_mem (occ : Nat → Bool) (c : Spec.Color) (o t : Nat) (east : Bool)
    (h : Spec.step o (capDf east) c.fwd = some t) : t ∈ Spec.attacksFrom occ c Spec.Kind.pawn o := by
  simp only [Spec.attacksFrom, List.mem_filterMap, List.mem_cons, List.not_mem_nil, or_false]
  cases east
  · exact ⟨(-1, c.fwd), Or.inl rfl, h⟩
  · exact ⟨(1, c.fwd), Or.inr rfl, h⟩

theorem geo_push {o t : Nat} {f : Int} (hf : f = 1 ∨ f = -1) (h : Spec.step o 0 f = some t) :
    ¬ ((t : Int) = (o : Int) + 16 * f) := by
  rw [step_eq_some] at h
  rcases hf with rfl | rfl <;> omega

theorem geo_dbl {o t1 t2 : Nat} {f : Int} (hf : f = 1 ∨ f = -1) (h1 : Spec.step o 0 f = some t1)
    (h2 : Spec.step t1 0 f = some t2) : (t2 : Int) = (o : Int) + 16 * f := by
  rw [step_eq_some] at h1 h2
  rcases hf with rfl | rfl <;> omega

theorem geo_cap {o t : Nat} {f df : Int} (hf : f = 1 ∨ f = -1) (hdf : df = 1 ∨ df = -1)
    (h : Spec.step o df f = some t) :
    ¬ ((t : Int) = (o : Int) + 16 * f) ∧ ((t / 8 : Nat) : Int) = ((o / 8 : Nat) : Int) + f := by
  rw [step_eq_some] at h
  rcases hf with rfl | rfl <;> rcases hdf with rfl | rfl <;> omega

theorem geo_victim {o t v : Nat} {f : Int} (hf : f = 1 ∨ f = -1)
    (hr : ((t / 8 : Nat) : Int) = ((o / 8 : Nat) : Int) + f) (hv : Spec.step t 0 (-f) = some v) :
    v = o / 8 * 8 + t % 8 := by
  rw [step_eq_some] at hv
  rcases hf with rfl | rfl <;> omega

theorem opp_fwd (c : Spec.Color) : c.opp.fwd = -c.fwd := by cases c <;> rfl
theorem capDf_cases (east : Bool) : capDf east = 1 ∨ capDf east = -1 := by cases east <;> simp [capDf]

theorem mem_ite_single' {α : Type} {c : Prop} [Decidable c] {x a : α} (h : a ∈ (if c then [x] else [])) :
    c ∧ a = x := by
  by_cases hc : c
  · rw [if_pos hc] at h; exact ⟨hc, List.mem_singleton.1 h⟩
  · rw [if_neg hc] at h; cases h

/-- **every rule-level pseudo-legal move of a legal position, read from a packed move with valid
codes, fits** -/
theorem fits_of_pseudo (s : State) (hl : LegalPos s = true) (hd : DisjointBoard s.pieces) (mv : Move)
    (sm : Spec.SMove) (hspec : toSpecMove mv = some sm) (hcodes : CodesOk mv)
    (hps : sm ∈ Spec.pseudoMoves (abs s)) : MoveFits s mv sm := by
  have hf := fwd_cases' (abs s).turn
  rcases (mem_pseudoMoves (abs s) sm).1 hps with ⟨o, k, hat, hm⟩ | hm
  · have ho := at_lt hat
    by_cases hk : k = Spec.Kind.pawn
    · subst hk
      rw [if_pos rfl, pawnMovesFrom_eq] at hm
      simp only [List.mem_append] at hm
      rcases hm with (hm | hm) | hm
      · -- single push
        obtain ⟨t, hst, hocc, hw⟩ := (mem_sPush1 _ _ _ _).1 hm
        have ht := step_lt hst
        have hempty : (abs s).at t = Option.none := (occupied_false_iff _ _).1 hocc
        have hg := geo_push hf hst
        rcases (mem_withPromo _ _ _).1 hw with ⟨hlast, kp, hkp, rfl⟩ | ⟨_, rfl⟩
        · exact fits_plain hspec hcodes hd rfl ho ht rfl rfl hat (fun _ => hempty) (fun k h => by cases h)
            (fun k h => by cases h; exact ⟨rfl, hlast, hkp⟩)
            ⟨fun h => (by cases h), fun h => absurd h.2 hg⟩
        · exact fits_plain hspec hcodes hd rfl ho ht rfl rfl hat (fun _ => hempty) (fun k h => by cases h)
            (fun k h => by cases h)
            ⟨fun h => (by cases h), fun h => absurd h.2 hg⟩
      · -- double push
        obtain ⟨_, t1, t2, h1, h2, _, hocc, rfl⟩ := (mem_sPush2 _ _ _ _).1 hm
        have ht := step_lt h2
        have hempty : (abs s).at t2 = Option.none := (occupied_false_iff _ _).1 hocc
        exact fits_plain hspec hcodes hd rfl ho ht rfl rfl hat (fun _ => hempty) (fun k h => by cases h)
          (fun k h => by cases h)
          ⟨fun _ => ⟨rfl, geo_dbl hf h1 h2⟩, fun _ => rfl⟩
      · -- captures
        obtain ⟨east, t, hst, hm⟩ := (mem_sCaps _ _ _ _).1 hm
        have ht := step_lt hst
        obtain ⟨hg, hrank⟩ := geo_cap hf (capDf_cases east) hst
        rcases (mem_sCapAt _ _ _ _ _).1 hm with ⟨kc, hatt, hw⟩ | ⟨hempty, hep, rfl⟩
        · have hnk : kc ≠ Spec.Kind.king := by
            rintro rfl
            exact no_king_capture s hl hat (pawn_attack_mem _ _ _ _ east hst) hatt
          rcases (mem_withPromo _ _ _).1 hw with ⟨hlast, kp, hkp, rfl⟩ | ⟨_, rfl⟩
          · exact fits_plain hspec hcodes hd rfl ho ht rfl rfl hat (fun h => by cases h)
              (fun k h => by cases h; exact ⟨hatt, hnk⟩)
              (fun k h => by cases h; exact ⟨rfl, hlast, hkp⟩)
              ⟨fun h => (by cases h), fun h => absurd h.2 hg⟩
          · exact fits_plain hspec hcodes hd rfl ho ht rfl rfl hat (fun h => by cases h)
              (fun k h => by cases h; exact ⟨hatt, hnk⟩)
              (fun k h => by cases h)
              ⟨fun h => (by cases h), fun h => absurd h.2 hg⟩
        · -- en passant
          obtain ⟨v, hv, hvat⟩ := legal_ep_victim s hl t hep
          rw [opp_fwd] at hv
          have hveq := geo_victim hf hrank hv
          exact
            { spec := hspec, codes := hcodes, disjoint := hd, color := rfl, src_lt := ho, dst_lt := ht
              mover := hat
              quiet := fun h => by cases h
              capture := fun k _ h => by cases h
              enPassant := fun _ => ⟨rfl, rfl, rfl, rfl, hempty, hep, hrank, by
                show (abs s).at (o / 8 * 8 + t % 8) = some ((abs s).turn.opp, Spec.Kind.pawn)
                rw [← hveq]; exact hvat⟩
              promo := fun k h => by cases h
              castle := fun b h => by cases h
              dbl := ⟨fun h => (by cases h), fun h => absurd h.2 hg⟩ }
    · -- knights, bishops, rooks, queens, king steps
      rw [if_neg hk] at hm
      obtain ⟨t, hatt, hown, rfl⟩ := (mem_pieceMovesFrom _ _ _ _ _).1 hm
      have ht := attacksFrom_lt _ _ _ _ _ hatt
      cases hatT : (abs s).at t with
      | none =>
        have e : specStep (abs s) (abs s).turn k o t =
            { color := (abs s).turn, kind := k, src := o, dst := t } := by unfold specStep; rw [hatT]
        rw [e] at hspec ⊢
        exact fits_plain hspec hcodes hd rfl ho ht rfl rfl hat (fun _ => hatT) (fun k h => by cases h)
          (fun k h => by cases h)
          ⟨fun h => (by cases h), fun h => absurd h.1 hk⟩
      | some x =>
        obtain ⟨c', k'⟩ := x
        have e : specStep (abs s) (abs s).turn k o t =
            { color := (abs s).turn, kind := k, src := o, dst := t, capture := some k' } := by
          unfold specStep; rw [hatT]
        rw [e] at hspec ⊢
        have hc' : c' = (abs s).turn.opp := by
          cases hc : c' <;> cases ht' : (abs s).turn <;> first | rfl | (exfalso; rw [hc, ← ht'] at hatT; exact hown k' hatT)
        subst hc'
        have hnk : k' ≠ Spec.Kind.king := by
          rintro rfl
          exact no_king_capture s hl hat hatt hatT
        exact fits_plain hspec hcodes hd rfl ho ht rfl rfl hat (fun h => by cases h)
          (fun k h => by cases h; exact ⟨hatT, hnk⟩)
          (fun k h => by cases h)
          ⟨fun h => (by cases h), fun h => absurd h.1 hk⟩
  · -- castling
    unfold Spec.castleMoves at hm
    dsimp only at hm
    obtain ⟨r1, r2, r3, r4⟩ := legal_rights s hl
    have hhome : Spec.kingHome (abs s).turn = 4 ∨ Spec.kingHome (abs s).turn = 60 := by
      cases (abs s).turn <;> simp [Spec.kingHome]
    rcases List.mem_append.1 hm with hm | hm
    · obtain ⟨hks, hm⟩ := mem_ite_single' hm
      · subst hm
        simp only [Bool.and_eq_true, Bool.not_eq_true'] at hks
        obtain ⟨⟨⟨⟨⟨hright, ho1⟩, ho2⟩, _⟩, _⟩, _⟩ := hks
        have e1 := (occupied_false_iff _ _).1 ho1
        have e2 := (occupied_false_iff _ _).1 ho2
        have hkr : (abs s).at (Spec.kingHome (abs s).turn) = some ((abs s).turn, Spec.Kind.king) ∧
            (abs s).at (Spec.kingHome (abs s).turn + 3) = some ((abs s).turn, Spec.Kind.rook) := by
          cases hc : (abs s).turn <;> rw [hc] at hright
          · exact r1 hright
          · exact r3 hright
        exact
          { spec := hspec, codes := hcodes, disjoint := hd, color := rfl
            src_lt := by show Spec.kingHome (abs s).turn < 64; omega
            dst_lt := by show Spec.kingHome (abs s).turn + 2 < 64; omega
            mover := hkr.1
            quiet := fun _ => ⟨rfl, e2⟩
            capture := fun k h => by cases h
            enPassant := fun h => by cases h
            promo := fun k h => by cases h
            castle := fun b h => by cases h; exact ⟨rfl, rfl, rfl, rfl, hkr.2, e1⟩
            dbl := ⟨fun h => (by cases h), fun h => (by cases h.1)⟩ }
    · obtain ⟨hqs, hm⟩ := mem_ite_single' hm
      · subst hm
        simp only [Bool.and_eq_true, Bool.not_eq_true'] at hqs
        obtain ⟨⟨⟨⟨⟨⟨hright, ho1⟩, ho2⟩, _⟩, _⟩, _⟩, _⟩ := hqs
        have e1 := (occupied_false_iff _ _).1 ho1
        have e2 := (occupied_false_iff _ _).1 ho2
        have hkr : (abs s).at (Spec.kingHome (abs s).turn) = some ((abs s).turn, Spec.Kind.king) ∧
            (abs s).at (Spec.kingHome (abs s).turn - 4) = some ((abs s).turn, Spec.Kind.rook) := by
          cases hc : (abs s).turn <;> rw [hc] at hright
          · exact r2 hright
          · exact r4 hright
        exact
          { spec := hspec, codes := hcodes, disjoint := hd, color := rfl
            src_lt := by show Spec.kingHome (abs s).turn < 64; omega
            dst_lt := by show Spec.kingHome (abs s).turn - 2 < 64; omega
            mover := hkr.1
            quiet := fun _ => ⟨rfl, e2⟩
            capture := fun k h => by cases h
            enPassant := fun h => by cases h
            promo := fun k h => by cases h
            castle := fun b h => by cases h; exact ⟨rfl, rfl, rfl, rfl, hkr.2, e1⟩
            dbl := ⟨fun h => (by cases h), fun h => (by cases h.1)⟩ }


/-! ## part 4: generated moves fit; `ApplyCorrect` -/

/-- every move of the pseudo-legal list of a legal position fits the rule-level move it reads as -/
theorem pseudo_generated_fit (s : State) (hl : LegalPos s = true) (hd : DisjointBoard s.pieces)
    (ps : List Move) (hps : pseudoLegalMoves s = some ps) (mv : Move) (hmv : mv ∈ ps) :
    ∃ sm, MoveFits s mv sm ∧ sm ∈ Spec.pseudoMoves (abs s) := by
  obtain ⟨L, hL, hmem⟩ := pseudoLegal_spec s hd (legalPos_ep s hl) (legalPos_king s hl)
  rw [hps] at hL
  cases hL
  obtain ⟨m, hm, _, e⟩ := (hmem (toSpecMove mv)).1 (List.mem_map_of_mem hmv)
  exact ⟨m, fits_of_pseudo s hl hd mv m e (codesOk_of_generated s ps hps mv hmv) hm, hm⟩

/-- the interface hypothesis of C01, proved: on a legal position without overlaps every generated
pseudo-legal move is performed without error, the successor reads as the rule-level successor and
again has no overlaps (and sound rights) -/
theorem applyCorrect_of_fits (s : State) (hl : LegalPos s = true) (hd : DisjointBoard s.pieces)
    (mv : Move) (sm : Spec.SMove) (hgen : ∃ L, pseudoLegalMoves s = some L ∧ mv ∈ L)
    (hreads : toSpecMove mv = some sm) (hps : sm ∈ Spec.pseudoMoves (abs s)) :
    ∃ next, performMove s mv = some (.ok next) ∧ abs next = Spec.applyMove (abs s) sm ∧
      DisjointBoard next.pieces ∧ RightsSound next := by
  obtain ⟨L, hL, hmv⟩ := hgen
  have hfit := fits_of_pseudo s hl hd mv sm hreads (codesOk_of_generated s L hL mv hmv) hps
  have hrs := rightsSound_of_legal hl hd
  obtain ⟨p, hm, hk⟩ := fits_model hfit
  obtain ⟨map, hpm, hr⟩ := perform_repr hm
  exact ⟨_, hpm, abs_finish hfit hm hk hrs hr, disjoint_of_repr hr, rightsSound_finish hm hrs hr⟩

theorem applyCorrect : _root_.Wee.ApplyCorrect := by
  intro s hl hd mv sm h
  obtain ⟨next, h1, h2, h3, _⟩ := applyCorrect_of_fits s hl hd mv sm h.generated h.reads h.pseudo
  exact ⟨next, h1, h2, h3⟩

end Wee.C02
