import Wee.Proofs.ApplyLemmas
import Wee.Proofs.MoveBits
/-!
# C02: every move built by a public constructor of `Move` has valid capture / promotion codes
(`CodesOk`), so the `unwrap`s in `Move::capture` / `Move::promotion` cannot panic on it
-/
namespace Wee.C02
open Move

theorem ofCode_optCode_isSome (x : Option Piece) : (Piece.ofCode? (optCode x)).isSome = true := by
  cases x with
  | none => rfl
  | some q => cases q <;> rfl

theorem codesOk_mk (c : Color) (p : Piece) (o d : Nat) (cap pr : Option Piece) (ep cq ck : Bool)
    (ho : o < 64) (hd : d < 64) : CodesOk (mk c p o d cap pr ep cq ck) := by
  unfold CodesOk
  rw [captureCode_mk c p o d cap pr ep cq ck ho hd, promotionCode_mk c p o d cap pr ep cq ck ho hd]
  exact ⟨Or.inr (ofCode_optCode_isSome cap), Or.inr (ofCode_optCode_isSome pr)⟩

theorem codesOk_byMoving (c : Color) (p : Piece) (o d : Nat) (ho : o < 64) (hd : d < 64) :
    CodesOk (byMoving c p o d) := by
  rw [byMoving_eq_mk c p o d ho hd]; exact codesOk_mk _ _ _ _ _ _ _ _ _ ho hd

theorem codesOk_byCapturing (c : Color) (p : Piece) (o d : Nat) (q : Piece) (ho : o < 64) (hd : d < 64) :
    CodesOk (byCapturing c p o d q) := by
  rw [byCapturing_eq_mk c p o d ho hd q]; exact codesOk_mk _ _ _ _ _ _ _ _ _ ho hd

theorem codesOk_byPromoting (c : Color) (p : Piece) (o d : Nat) (r : Piece) (ho : o < 64) (hd : d < 64) :
    CodesOk (byPromoting c p o d r) := by
  rw [byPromoting_eq_mk c p o d ho hd r]; exact codesOk_mk _ _ _ _ _ _ _ _ _ ho hd

theorem codesOk_byCapturePromoting (c : Color) (p : Piece) (o d : Nat) (q r : Piece) (ho : o < 64) (hd : d < 64) :
    CodesOk (byCapturePromoting c p o d q r) := by
  rw [byCapturePromoting_eq_mk c p o d ho hd q r]; exact codesOk_mk _ _ _ _ _ _ _ _ _ ho hd

theorem codesOk_byEnPassant (c : Color) (p : Piece) (o d : Nat) (ho : o < 64) (hd : d < 64) :
    CodesOk (byEnPassant c p o d) := by
  rw [byEnPassant_eq_mk c p o d ho hd]; exact codesOk_mk _ _ _ _ _ _ _ _ _ ho hd

theorem codesOk_byCastling (c : Color) (sd : Side) : CodesOk (byCastling c sd) := by
  cases c <;> cases sd <;> decide

end Wee.C02
