import Wee.Props.C09
import Wee.Proofs.AttackLemmas
import Wee.Proofs.MoveBits
import Wee.Proofs.EvalLemmas
/-!
# Soundness of the evaluator's `king_has_move` shortcut when the side to move is not in check (C05)

1. a ray lemma at specification level: changing the occupancy on two squares `k`, `t` lets a ray
   newly reach a square only if it already reached `k` or `t`; lifted to `AttackGenerator::compute`
   through C09 (`C09_compute`);
2. the placement after a quiet king step and what the opponent attacks afterwards;
3. `State::by_performing_move` on `Move::by_moving(us, King, k, t)` (getter lemmas of C20);
4. the step is generated, performed and kept by `try_as_legal_move`.
-/
namespace Wee
open Gen

/-! ## 1. moving a blocker: what a ray can newly reach -/

/-- If two occupancies differ at most on the squares `k` and `t`, every square seen along a ray
under `occ'` is seen under `occ`, unless the ray under `occ` reaches `k` or `t` first. -/
theorem slideDir_unblock (occ occ' : Nat → Bool) (k t : Nat)
    (hag : ∀ n, n ≠ k → n ≠ t → occ' n = occ n) (df dr : Int) :
    ∀ (fuel q x : Nat), x ∈ Spec.slideDir occ' df dr fuel q →
      x ∈ Spec.slideDir occ df dr fuel q ∨ k ∈ Spec.slideDir occ df dr fuel q ∨ t ∈ Spec.slideDir occ df dr fuel q := by
  intro fuel
  induction fuel with
  | zero => intro q x h; simp [Spec.slideDir] at h
  | succ f ih =>
    intro q x h
    unfold Spec.slideDir at h ⊢
    cases hs : Spec.step q df dr with
    | none => rw [hs] at h; simp at h
    | some n =>
      rw [hs] at h
      simp only at h ⊢
      have hhead : ∀ o : Nat → Bool, n ∈ (if o n then [n] else n :: Spec.slideDir o df dr f n) := by
        intro o; split <;> simp
      by_cases hk : n = k
      · right; left; rw [← hk]; exact hhead occ
      · by_cases ht : n = t
        · right; right; rw [← ht]; exact hhead occ
        · have he := hag n hk ht
          rw [he] at h
          by_cases ho : occ n = true
          · rw [if_pos ho] at h ⊢; left; exact h
          · rw [if_neg ho] at h ⊢
            rcases List.mem_cons.1 h with rfl | h'
            · left; exact List.mem_cons_self
            · rcases ih n x h' with r | r | r
              · left; exact List.mem_cons_of_mem _ r
              · right; left; exact List.mem_cons_of_mem _ r
              · right; right; exact List.mem_cons_of_mem _ r

theorem slide_unblock (occ occ' : Nat → Bool) (k t : Nat)
    (hag : ∀ n, n ≠ k → n ≠ t → occ' n = occ n) (dirs : List (Int × Int)) (q x : Nat)
    (h : x ∈ Spec.slide occ' dirs q) :
    x ∈ Spec.slide occ dirs q ∨ k ∈ Spec.slide occ dirs q ∨ t ∈ Spec.slide occ dirs q := by
  unfold Spec.slide at h ⊢
  simp only [List.mem_flatMap] at h ⊢
  obtain ⟨d, hd, hx⟩ := h
  rcases slideDir_unblock occ occ' k t hag d.1 d.2 8 q x hx with r | r | r
  · exact .inl ⟨d, hd, r⟩
  · exact .inr (.inl ⟨d, hd, r⟩)
  · exact .inr (.inr ⟨d, hd, r⟩)

/-- the same for every piece kind (leapers do not look at the occupancy at all) -/
theorem attacksFrom_unblock (occ occ' : Nat → Bool) (k t : Nat)
    (hag : ∀ n, n ≠ k → n ≠ t → occ' n = occ n) (c : Spec.Color) (kind : Spec.Kind) (q x : Nat)
    (h : x ∈ Spec.attacksFrom occ' c kind q) :
    x ∈ Spec.attacksFrom occ c kind q ∨ k ∈ Spec.attacksFrom occ c kind q ∨ t ∈ Spec.attacksFrom occ c kind q := by
  cases kind with
  | pawn => exact .inl h
  | knight => exact .inl h
  | king => exact .inl h
  | rook => exact slide_unblock occ occ' k t hag _ q x h
  | bishop => exact slide_unblock occ occ' k t hag _ q x h
  | queen => exact slide_unblock occ occ' k t hag _ q x h

/-- bitboard form, through C09: `AttackGenerator::compute` under the two occupancies -/
theorem attacksOf_unblock (occ occ' : UInt64) (k t : Nat)
    (hag : ∀ n, n ≠ k → n ≠ t → test occ' n = test occ n) (c : Color) (p : Piece) (hp : p ≠ .none)
    (q x : Nat) (hq : q < 64) (hx : x < 64) (hk : k < 64) (ht : t < 64)
    (h : test (attacksOf c p q occ') x = true) :
    test (attacksOf c p q occ) x = true ∨ test (attacksOf c p q occ) k = true ∨ test (attacksOf c p q occ) t = true := by
  obtain ⟨kind, hkind⟩ := C10.absKind_some p hp
  rw [C09_compute c p kind hkind q x hq hx] at h
  rw [C09_compute c p kind hkind q x hq hx, C09_compute c p kind hkind q k hq hk, C09_compute c p kind hkind q t hq ht]
  simp only [List.contains_iff_mem] at h ⊢
  exact attacksFrom_unblock _ _ k t hag _ kind q x h

/-! ## 2. the placement after a quiet king step -/

/-- `map[us,King].set(k,false); map[us,King].set(t,true)` -/
def kingStepMap (m : PieceMap) (us : Color) (k t : Nat) : PieceMap :=
  (m.assign us .king k false).assign us .king t true

theorem get_set_same (m : PieceMap) (c : Color) (p : Piece) (hp : p ≠ .none) (v : UInt64) :
    (m.set c p v).get c p = v := by
  cases c <;> cases p <;> first | rfl | exact absurd rfl hp

theorem get_set_other (m : PieceMap) (c c' : Color) (p p' : Piece) (v : UInt64) (h : c ≠ c' ∨ p ≠ p') :
    (m.set c p v).get c' p' = m.get c' p' := by
  cases c <;> cases p <;> cases c' <;> cases p' <;> first | rfl | (exfalso; rcases h with h | h <;> exact h rfl)

theorem kingStepMap_king (m : PieceMap) (us : Color) (k t : Nat) :
    (kingStepMap m us k t).get us .king = setBit (clearBit (m.get us .king) k) t := by
  unfold kingStepMap PieceMap.assign
  simp only [assignBit, if_true, Bool.false_eq_true, if_false]
  rw [get_set_same _ _ _ (by decide), get_set_same _ _ _ (by decide)]

theorem kingStepMap_other (m : PieceMap) (us : Color) (k t : Nat) (c : Color) (p : Piece)
    (h : us ≠ c ∨ Piece.king ≠ p) : (kingStepMap m us k t).get c p = m.get c p := by
  unfold kingStepMap PieceMap.assign
  rw [get_set_other _ _ _ _ _ _ h, get_set_other _ _ _ _ _ _ h]

theorem opp_ne (c : Color) : c ≠ c.opp := by cases c <;> simp [Color.opp]

theorem kingStepMap_colorOcc_opp (m : PieceMap) (us : Color) (k t : Nat) :
    (kingStepMap m us k t).colorOcc us.opp = m.colorOcc us.opp := by
  unfold PieceMap.colorOcc
  congr 1
  funext acc p
  rw [kingStepMap_other _ _ _ _ _ _ (.inl (opp_ne us))]

/-- off `k` and `t` the occupancy is unchanged -/
theorem kingStepMap_occ (m : PieceMap) (us : Color) (k t : Nat) (hk : k < 64) (ht : t < 64)
    (n : Nat) (hnk : n ≠ k) (hnt : n ≠ t) :
    test (kingStepMap m us k t).occ n = test m.occ n := by
  have key : ∀ c p, test ((kingStepMap m us k t).get c p) n = test (m.get c p) n := by
    intro c p
    by_cases h : us = c ∧ Piece.king = p
    · obtain ⟨rfl, rfl⟩ := h
      rw [kingStepMap_king, test_setBit _ _ _ ht, test_clearBit _ _ _ hk]
      simp [Ne.symm hnk, Ne.symm hnt]
    · rw [kingStepMap_other _ _ _ _ _ _ (by
        by_cases h1 : us = c
        · right; intro h2; exact h ⟨h1, h2⟩
        · left; exact h1)]
  rw [Bool.eq_iff_iff, C10.test_occ, C10.test_occ]
  simp only [key]

theorem test_colorOcc_occ (m : PieceMap) (c : Color) (n : Nat) (h : test (m.colorOcc c) n = true) :
    test m.occ n = true := by
  unfold PieceMap.occ
  rw [test_or]
  cases c <;> simp [h]

/-- **what the opponent attacks after a quiet king step** `k → t`: only squares it attacked before,
unless it already attacked `k` or `t`.  Hypotheses: `t` is empty and no enemy piece stands on `k`. -/
theorem coloredAttacks_after_kingStep (m : PieceMap) (us : Color) (k t : Nat) (hk : k < 64) (ht : t < 64)
    (hno : ¬ test (m.colorOcc us.opp) k = true) (hvac : ¬ test m.occ t = true) (x : Nat) (hx : x < 64)
    (h : test (coloredAttacks (kingStepMap m us k t) us.opp) x = true) :
    test (coloredAttacks m us.opp) x = true ∨ test (coloredAttacks m us.opp) k = true ∨
      test (coloredAttacks m us.opp) t = true := by
  rw [C10.test_coloredAttacks _ _ _ hx] at h
  obtain ⟨⟨p, hp, q, hq, hatt⟩, hown⟩ := h
  rw [kingStepMap_other _ _ _ _ _ _ (.inl (opp_ne us))] at hq
  rw [kingStepMap_colorOcc_opp] at hown
  have hpn : p ≠ Piece.none := (C10.mem_pieceAll p).1 hp
  have hq64 : q < 64 := ((mem_bitsOf _ _).1 hq).1
  rcases attacksOf_unblock m.occ (kingStepMap m us k t).occ k t
      (fun n hnk hnt => kingStepMap_occ m us k t hk ht n hnk hnt) us.opp p hpn q x hq64 hx hk ht hatt with r | r | r
  · left; rw [C10.test_coloredAttacks _ _ _ hx]; exact ⟨⟨p, hp, q, hq, r⟩, hown⟩
  · right; left; rw [C10.test_coloredAttacks _ _ _ hk]; exact ⟨⟨p, hp, q, hq, r⟩, hno⟩
  · right; right; rw [C10.test_coloredAttacks _ _ _ ht]
    exact ⟨⟨p, hp, q, hq, r⟩, fun hc => hvac (test_colorOcc_occ m _ t hc)⟩

open Move in
section
/-! ## 3. `by_performing_move` on a quiet king step -/

theorem kingStep_attrs (c : Color) (k t : Nat) (hk : k < 64) (ht : t < 64) :
    piece? (byMoving c .king k t) = some .king ∧ origin (byMoving c .king k t) = k ∧
    dest (byMoving c .king k t) = t ∧ captureCode (byMoving c .king k t) = 0 ∧
    promotionCode (byMoving c .king k t) = 0 ∧ isEnPassant (byMoving c .king k t) = false ∧
    isDoublePawn (byMoving c .king k t) = false ∧ castleQ (byMoving c .king k t) = false ∧
    castleK (byMoving c .king k t) = false := by
  rw [byMoving_eq_mk c .king k t hk ht]
  refine ⟨?_, origin_mk _ _ _ _ _ _ _ _ _ hk ht, dest_mk _ _ _ _ _ _ _ _ _ hk ht,
    captureCode_mk _ _ _ _ _ _ _ _ _ hk ht, promotionCode_mk _ _ _ _ _ _ _ _ _ hk ht,
    isEnPassant_mk _ _ _ _ _ _ _ _ _ hk ht, ?_, castleQ_mk _ _ _ _ _ _ _ _ _ hk ht,
    castleK_mk _ _ _ _ _ _ _ _ _ hk ht⟩
  · unfold piece?; rw [pieceCode_mk _ _ _ _ _ _ _ _ _ hk ht]; rfl
  · rw [isDoublePawn_mk _ _ _ _ _ _ _ _ _ hk ht]; rfl

theorem performMove_kingStep (s : State) (k t : Nat) (hk : k < 64) (ht : t < 64) :
    ∃ next, performMove s (byMoving s.turn .king k t) = some (.ok next) ∧
      next.pieces = kingStepMap s.pieces s.turn k t ∧ next.turn = s.turn.opp := by
  obtain ⟨a1, a2, a3, a4, a5, a6, a7, a8, a9⟩ := kingStep_attrs s.turn k t hk ht
  have hcap : capture (byMoving s.turn .king k t) = Option.none := by unfold capture; rw [a4]; rfl
  have hpro : promotion (byMoving s.turn .king k t) = Option.none := by unfold promotion; rw [a5]; rfl
  have hcs : castleSide (byMoving s.turn .king k t) = Option.none := by unfold castleSide; rw [a8, a9]; rfl
  have hc1 : isCastle (byMoving s.turn .king k t) .king = false := by unfold isCastle; rw [hcs]; rfl
  have hc2 : isCastle (byMoving s.turn .king k t) .queen = false := by unfold isCastle; rw [hcs]; rfl
  unfold performMove
  rw [a1]
  simp only [a2, a3, a4, a5, a6, a7, hcap, hpro, hc1, hc2]
  simp only [ne_eq, not_true_eq_false, false_and, or_self, if_false, Bool.false_eq_true]
  exact ⟨_, rfl, rfl, rfl⟩

end

/-! ## 4. the shortcut is sound when the side to move is not in check -/

theorem mapM_option_mem {α β : Type} (f : α → Option β) :
    ∀ (l : List α) (rs : List β), l.mapM f = some rs → ∀ x ∈ l, ∃ r ∈ rs, f x = some r := by
  intro l
  induction l with
  | nil => intro rs _ x hx; cases hx
  | cons a as ih =>
    intro rs h x hx
    rw [List.mapM_cons] at h
    cases hfa : f a with
    | none => rw [hfa] at h; simp at h
    | some b =>
      rw [hfa] at h
      cases hrest : as.mapM f with
      | none => rw [hrest] at h; simp at h
      | some bs =>
        rw [hrest] at h
        simp at h
        subst h
        rcases List.mem_cons.1 hx with rfl | hx'
        · exact ⟨b, List.mem_cons_self, hfa⟩
        · obtain ⟨r, hr, hfr⟩ := ih bs hrest x hx'
          exact ⟨r, List.mem_cons_of_mem _ hr, hfr⟩

/-- the quiet king step is among the pseudo-legal moves -/
theorem kingStep_mem_pseudo (s : State) (ps : List Move) (hps : pseudoLegalMoves s = some ps) (k t : Nat)
    (hkk : test (s.pieces.get s.turn .king) k = true) (ht : t < 64)
    (hatt : test (kingAttacks k) t = true) (hvac : ¬ test s.pieces.occ t = true)
    (hsafe : ¬ test (coloredAttacks s.pieces s.turn.opp) t = true) :
    Move.byMoving s.turn .king k t ∈ ps := by
  unfold pseudoLegalMoves at hps
  simp only at hps
  cases hpm : pawnMoves (Helper.of s) with
  | none => rw [hpm] at hps; simp at hps
  | some pm =>
    rw [hpm] at hps
    simp only [Option.bind_eq_bind, Option.bind_some, Option.pure_def, Option.some.injEq] at hps
    rw [← hps]
    have hk64 : k < 64 := test_lt _ _ hkk
    have hmem : Move.byMoving s.turn .king k t ∈ kingMoves (Helper.of s) := by
      unfold kingMoves
      simp only
      apply List.mem_append_left
      rw [List.mem_flatMap]
      refine ⟨k, (mem_bitsOf _ _).2 ⟨hk64, hkk⟩, ?_⟩
      unfold expandMoves
      rw [List.mem_map]
      refine ⟨t, (mem_bitsOf _ _).2 ⟨ht, ?_⟩, ?_⟩
      · show test (kingAttacks k &&& ((Helper.of s).opp ||| (Helper.of s).vac) &&& ~~~(Helper.of s).oppAtt) t = true
        have hv : test (Helper.of s).vac t = true := by
          show test (~~~s.pieces.occ) t = true
          rw [test_not _ _ ht]; simpa using hvac
        have ho : test (~~~(Helper.of s).oppAtt) t = true := by
          show test (~~~(coloredAttacks s.pieces s.turn.opp)) t = true
          rw [test_not _ _ ht]; simpa using hsafe
        rw [test_and, test_and, test_or, hatt, hv, ho]; simp
      · have hnone : capturedAt (Helper.of s).s t = Option.none := by
          unfold capturedAt
          have : (Helper.of s).s.pieces.pieceAt t = Option.none := by
            rw [C10.pieceAt_none]
            intro c p
            cases hcp : test (s.pieces.get c p) t with
            | false => exact hcp
            | true =>
              exfalso; apply hvac
              have hp : p ∈ Piece.all := by
                rw [C10.mem_pieceAll]; rintro rfl; cases c <;> simp [PieceMap.get] at hcp
              exact (C10.test_occ _ _).2 ⟨c, p, hp, hcp⟩
          rw [this]; rfl
        rw [hnone]; rfl
    simp only [List.mem_append]
    left; left; left; right; exact hmem

/-- **Soundness of the `king_has_move` shortcut off check.**  On a placement where no square holds
two pieces: if the side to move is not in check and its king (the first one, `first_square()`) has
a neighbour square that is empty and outside `colored_attacks(!turn)`, then
`compute_legal_moves` does not return the empty list — the step onto that square survives
`try_as_legal_move`, because a king that is not attacked shields no square from any slider. -/
theorem shortcut_sound_no_check (s : State) (hd : C10.DisjointBoard s.pieces)
    (hchk : s.isCheck = false) (hkhm : kingHasMove s = some true) : legalMoves? s ≠ some [] := by
  intro hno
  -- the king square
  unfold kingHasMove at hkhm
  cases hf : firstOne (s.pieces.get s.turn .king) with
  | none => rw [hf] at hkhm; cases hkhm
  | some k =>
    rw [hf] at hkhm
    simp only [Option.some.injEq] at hkhm
    have hkk : test (s.pieces.get s.turn .king) k = true := ((firstOne_eq_some _ _).1 hf).1
    have hk64 : k < 64 := test_lt _ _ hkk
    -- the free, unattacked neighbour
    obtain ⟨t, ht64, htt⟩ := (C10.ne_zero_iff _).1 (by simpa [bbAny] using hkhm)
    rw [test_and, test_and, test_not _ _ ht64, test_not _ _ ht64] at htt
    simp only [Bool.and_eq_true, Bool.not_eq_true'] at htt
    obtain ⟨⟨hatt, hvac⟩, hsafe⟩ := htt
    have hvac' : ¬ test s.pieces.occ t = true := by simp [hvac]
    have hsafe' : ¬ test (coloredAttacks s.pieces s.turn.opp) t = true := by simp [hsafe]
    -- not in check: no king square is attacked
    have hnc : ∀ x, x < 64 → test (s.pieces.get s.turn .king) x = true →
        ¬ test (coloredAttacks s.pieces s.turn.opp) x = true := by
      intro x hx h1 h2
      have : s.pieces.get s.turn .king &&& coloredAttacks s.pieces s.turn.opp ≠ 0 :=
        (C10.ne_zero_iff _).2 ⟨x, hx, by rw [test_and, h1, h2]; rfl⟩
      have hc : s.isCheck = true := by
        show bbAny (s.pieces.get s.turn .king &&& coloredAttacks s.pieces s.turn.opp) = true
        simpa [bbAny] using this
      rw [hchk] at hc; cases hc
    -- no enemy piece on the king square
    have hno_enemy : ¬ test (s.pieces.colorOcc s.turn.opp) k = true := by
      intro h
      obtain ⟨p, _, hp⟩ := (C10.test_colorOcc _ _ _).1 h
      exact opp_ne s.turn (hd.unique hkk hp).1
    -- unfold the generator
    unfold legalMoves? at hno
    cases hps : pseudoLegalMoves s with
    | none => rw [hps] at hno; simp at hno
    | some ps =>
      rw [hps] at hno
      simp only [Option.bind_eq_bind, Option.bind_some] at hno
      cases hrs : ps.mapM (tryAsLegal s) with
      | none => rw [hrs] at hno; simp at hno
      | some rs =>
        rw [hrs] at hno
        simp only [Option.bind_some, Option.pure_def, Option.some.injEq] at hno
        have hmem := kingStep_mem_pseudo s ps hps k t hkk ht64 hatt hvac' hsafe'
        obtain ⟨r, hr, hfr⟩ := mapM_option_mem _ ps rs hrs _ hmem
        have hrn : r = Option.none := by
          cases r with
          | none => rfl
          | some v =>
            have : v ∈ rs.filterMap id := List.mem_filterMap.2 ⟨some v, hr, rfl⟩
            rw [hno] at this; cases this
        subst hrn
        -- the move is performed and leaves no king attacked
        obtain ⟨next, hpm, hnp, hnt⟩ := performMove_kingStep s k t hk64 ht64
        unfold tryAsLegal at hfr
        rw [hpm] at hfr
        simp only at hfr
        split at hfr
        · cases hfr
        · rename_i hbad
          have hne : next.pieces.get s.turn .king &&& coloredAttacks next.pieces next.turn ≠ 0 := by
            simpa [bbNone] using hbad
          obtain ⟨x, hx64, hx⟩ := (C10.ne_zero_iff _).1 hne
          rw [test_and, hnp, hnt, kingStepMap_king, test_setBit _ _ _ ht64, test_clearBit _ _ _ hk64] at hx
          simp only [Bool.and_eq_true, Bool.or_eq_true, Bool.not_eq_true', decide_eq_true_eq,
            decide_eq_false_iff_not] at hx
          obtain ⟨hking, hattx⟩ := hx
          rcases coloredAttacks_after_kingStep s.pieces s.turn k t hk64 ht64 hno_enemy hvac' x hx64 hattx
            with r | r | r
          · rcases hking with ⟨hkx, _⟩ | rfl
            · exact hnc x hx64 hkx r
            · exact hsafe' r
          · exact hnc k hk64 hkk r
          · exact hsafe' r

end Wee
