import Wee.Model.Attacks
/-!
# Exhaustive per-square check of one magic table against a ray walk (used by `Wee/Props/C09/*`)

`walk occ df dr fuel sq` is the bitboard of the squares met when stepping from `sq` in direction
`(df, dr)` up to and including the first square set in `occ` (it uses the model's `offset`, i.e.
`Square::offset`; `Wee/Proofs/Slide.lean` proves it equal to the independent `Spec.slideDir`).

`checkRook sq magic bits` evaluates, for every `b < 2^bits`, the real pipeline
(`blockersFromIndex`, wrapping multiply, shift, look-up in the table built by the fold of
`compute_rook_magic_table`) and compares the entry found with the ray walk; it also checks that the
index is inside the 4096-entry `Vec` (an index `≥ 4096` is a Rust panic) and that the index width
is large enough for every subset of the mask to be enumerated.
-/
namespace Wee

/-- squares seen from `sq` along `(df, dr)`: up to and including the first square set in `occ` -/
def walk (occ : UInt64) (df dr : Int) : Nat → Nat → UInt64
  | 0, _ => 0
  | fuel+1, sq =>
    match offset sq df dr with
    | Option.none => 0
    | some n => if test occ n then bit n else bit n ||| walk occ df dr fuel n

/-- rook reference: the four orthogonal ray walks -/
def rookWalk (sq : Nat) (occ : UInt64) : UInt64 :=
  walk occ 0 1 8 sq ||| walk occ 0 (-1) 8 sq ||| walk occ 1 0 8 sq ||| walk occ (-1) 0 8 sq

/-- bishop reference: the four diagonal ray walks -/
def bishopWalk (sq : Nat) (occ : UInt64) : UInt64 :=
  walk occ 1 1 8 sq ||| walk occ (-1) 1 8 sq ||| walk occ 1 (-1) 8 sq ||| walk occ (-1) (-1) 8 sq

/-- for `b = b₀ .. b₀+n-1`: the index of `blockersFromIndex b mask` is inside the table (`< size`) and
the table holds the reference value there -/
def checkLoop (table size : Nat) (ref : UInt64 → UInt64) (mask magic : UInt64) (bits : Nat) : Nat → Nat → Bool
  | 0, _ => true
  | n+1, b =>
    (decide (magicIndex (blockersFromIndex b mask) magic bits < size) &&
      tget table (magicIndex (blockersFromIndex b mask) magic bits) == ref (blockersFromIndex b mask)) &&
    checkLoop table size ref mask magic bits n (b+1)

def checkRook (sq : Nat) (magic : UInt64) (bits : Nat) : Bool :=
  decide (bits ≤ 12) && decide (popcount (rookMask sq) ≤ bits) &&
  checkLoop (rookTableOf sq magic bits) Gen.rookTableSize (rookWalk sq) (rookMask sq) magic bits (2 ^ bits) 0

def checkBishop (sq : Nat) (magic : UInt64) (bits : Nat) : Bool :=
  decide (bits ≤ 12) && decide (popcount (bishopMask sq) ≤ bits) &&
  checkLoop (bishopTableOf sq magic bits) Gen.bishopTableSize (bishopWalk sq) (bishopMask sq) magic bits (2 ^ bits) 0

/-! ## fast variant evaluated by the kernel in `Wee/Props/C09/*`

Same pipeline, but (a) `compute_blockers_from_index` runs over the list of mask bits instead of scanning 64
squares, (b) the ray walks run over precomputed ray lists, (c) the table is filled from the ray walk
instead of `compute_*_attacks_unoptimized`; the latter is compared with the ray walk separately, ray by
ray, for every subset of the ray (`rayOK`).  `Wee/Proofs/Slow.lean` proves
`checkRookFast sq m b = true → checkRook sq m b = true` for `sq < 64`. -/

/-- the squares of the ray from `sq` in direction `(df, dr)`, in walking order (`compute_ray`) -/
def rayList (df dr : Int) : Nat → Nat → List Nat
  | 0, _ => []
  | fuel+1, sq =>
    match offset sq df dr with
    | Option.none => []
    | some n => n :: rayList df dr fuel n

/-- `compute_blockers_from_index` over the ascending list of mask bits -/
def depositL (idx : Nat) : List Nat → UInt64
  | [] => 0
  | b :: rest => (if idx % 2 = 1 then bit b else 0) ||| depositL (idx / 2) rest

/-- `walk` over a precomputed ray list -/
def walkL (occ : UInt64) : List Nat → UInt64
  | [] => 0
  | n :: rest => if test occ n then bit n else bit n ||| walkL occ rest

def refL (r1 r2 r3 r4 : List Nat) (occ : UInt64) : UInt64 :=
  walkL occ r1 ||| walkL occ r2 ||| walkL occ r3 ||| walkL occ r4

def rookRefL (sq : Nat) : UInt64 → UInt64 :=
  refL (rayList 0 1 8 sq) (rayList 0 (-1) 8 sq) (rayList 1 0 8 sq) (rayList (-1) 0 8 sq)

def bishopRefL (sq : Nat) : UInt64 → UInt64 :=
  refL (rayList 1 1 8 sq) (rayList (-1) 1 8 sq) (rayList 1 (-1) 8 sq) (rayList (-1) (-1) 8 sq)

/-- `buildTable` with `depositL` -/
def buildF (ref : UInt64 → UInt64) (mbits : List Nat) (magic : UInt64) (bits : Nat) : Nat → Nat → Nat → Nat
  | 0, _, t => t
  | n+1, b, t =>
    buildF ref mbits magic bits n (b+1)
      (tset t (magicIndex (depositL b mbits) magic bits) (ref (depositL b mbits)))

/-- `checkLoop` with `depositL` -/
def checkF (table size : Nat) (ref : UInt64 → UInt64) (mbits : List Nat) (magic : UInt64) (bits : Nat) :
    Nat → Nat → Bool
  | 0, _ => true
  | n+1, b =>
    (decide (magicIndex (depositL b mbits) magic bits < size) &&
      tget table (magicIndex (depositL b mbits) magic bits) == ref (depositL b mbits)) &&
    checkF table size ref mbits magic bits n (b+1)

/-- what one direction of `compute_*_attacks_unoptimized` removes from the ray: the ray behind the nearest
blocker (`first_one` for rays going up in square index, `last_one` for rays going down) -/
def cutOf (d : Dir) (up : Bool) (sq : Nat) (blockers : UInt64) : UInt64 :=
  match (if up then firstOne (ray d sq &&& blockers) else lastOne (ray d sq &&& blockers)) with
  | some b => ray d b
  | Option.none => 0

/-- for the `i`-th subset `s` of the ray (`i = i₀ .. i₀+n-1`): ray minus cut = ray walk, and cut ⊆ ray -/
def rayLoop (d : Dir) (df dr : Int) (up : Bool) (sq : Nat) (mbits : List Nat) : Nat → Nat → Bool
  | 0, _ => true
  | n+1, i =>
    ((ray d sq &&& ~~~(cutOf d up sq (depositL i mbits)) == walkL (depositL i mbits) (rayList df dr 8 sq)) &&
     (cutOf d up sq (depositL i mbits) &&& ~~~(ray d sq) == 0)) &&
    rayLoop d df dr up sq mbits n (i+1)

/-- one direction of the slow attack computation agrees with the ray walk for every subset of the ray -/
def rayOK (d : Dir) (df dr : Int) (up : Bool) (sq : Nat) : Bool :=
  rayLoop d df dr up sq (bitsOf (ray d sq)) (2 ^ popcount (ray d sq)) 0

def rookRaysOK (sq : Nat) : Bool :=
  rayOK .n 0 1 true sq && rayOK .s 0 (-1) false sq && rayOK .w (-1) 0 false sq && rayOK .e 1 0 true sq

def bishopRaysOK (sq : Nat) : Bool :=
  rayOK .nw (-1) 1 true sq && rayOK .sw (-1) (-1) false sq && rayOK .ne 1 1 true sq && rayOK .se 1 (-1) false sq

/-- the statement checked by the kernel for each rook square -/
def checkRookFast (sq : Nat) (magic : UInt64) (bits : Nat) : Bool :=
  rookRaysOK sq && decide (bits ≤ 12) && decide (popcount (rookMask sq) ≤ bits) &&
  checkF (buildF (rookRefL sq) (bitsOf (rookMask sq)) magic bits (2 ^ bits) 0 0) Gen.rookTableSize
    (rookRefL sq) (bitsOf (rookMask sq)) magic bits (2 ^ bits) 0

/-- the statement checked by the kernel for each bishop square -/
def checkBishopFast (sq : Nat) (magic : UInt64) (bits : Nat) : Bool :=
  bishopRaysOK sq && decide (bits ≤ 12) && decide (popcount (bishopMask sq) ≤ bits) &&
  checkF (buildF (bishopRefL sq) (bitsOf (bishopMask sq)) magic bits (2 ^ bits) 0 0) Gen.bishopTableSize
    (bishopRefL sq) (bitsOf (bishopMask sq)) magic bits (2 ^ bits) 0

theorem checkLoop_sound (table size : Nat) (ref : UInt64 → UInt64) (mask magic : UInt64) (bits : Nat) :
    ∀ n b₀, checkLoop table size ref mask magic bits n b₀ = true →
      ∀ b, b₀ ≤ b → b < b₀ + n →
        magicIndex (blockersFromIndex b mask) magic bits < size ∧
        tget table (magicIndex (blockersFromIndex b mask) magic bits) = ref (blockersFromIndex b mask) := by
  intro n
  induction n with
  | zero => intro b₀ _ b h1 h2; omega
  | succ n ih =>
    intro b₀ h b h1 h2
    simp only [checkLoop, Bool.and_eq_true, decide_eq_true_eq, beq_iff_eq] at h
    by_cases hb : b = b₀
    · subst hb; exact h.1
    · exact ih (b₀+1) h.2 b (by omega) (by omega)

end Wee
