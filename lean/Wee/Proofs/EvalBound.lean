import Wee.Proofs.EvalLemmas
import Wee.Props.C02Closed
/-!
# The coupled material / positional bound of the evaluator (C05 non-terminal clause, C06 `TreeBounded`)

Part 1 (`Wee.F32`, `Wee.Ev`): one-sided versions of "rounding never crosses an integer below 2^24" and their
consequences for `as i32` and `Evaluation * f32` (`mulF_mkRat_bounds`: the result is within one unit of the exact
product, for every weight `n/d ∈ [0, 1]`).
Part 2: the end-game weight of a position is a function `egwK k` of the single number
`k = 6·pawns + 16·queens + occupied squares` (`egwF_eq`); a kernel-checked table (`egwK_tab`) gives its sign and size.
Part 3: piece-square values (`psq_core`; exact for every piece but the king, two regimes for the king).
Part 4: the four evaluator terms bounded through piece counts (`squares_kingedge`), the coupled bound
`evalHeuristic_coupled` (score ≤ 0.95·material + 1450) and the term-by-term bound under the promotion potential
(`termwise_lt_of_potential`).
Part 5 (`Wee.C02`): weighted piece counts never grow along a listed legal move (`stateW_succ_le`), and a legal position
has exactly one king a side as a bit count (`oneKingEach_of_legal`).

The final integer arithmetic is `omega` throughout, but always inside small stand-alone lemmas: with the whole context
of a position in scope the same goals take `omega` 15–20 minutes.
-/
namespace Wee.F32

/-! ## one-sided integer bounds through `round32`, `trunc`, `toI32` -/

theorem round32_nonpos {q : Rat} (h : q ≤ 0) : round32 q ≤ 0 := by
  unfold round32
  split
  · exact Rat.le_refl
  · rename_i h0
    have hneg : q < 0 := by grind
    rw [if_pos hneg]
    have := roundPos_nonneg (q := -q) (by grind)
    grind

theorem round32_nonneg {q : Rat} (h : 0 ≤ q) : 0 ≤ round32 q := by
  have := round32_nonpos (q := -q) (by grind)
  rw [round32_neg] at this
  grind

/-- `q ≤ B` for an integer `|B| < 2^24` ⇒ `round32 q ≤ B` -/
theorem round32_le_int {q : Rat} {B : Int} (hB : B.natAbs < 16777216) (hq : -16777216 < q)
    (h : q ≤ (B : Rat)) : round32 q ≤ (B : Rat) := by
  by_cases hB0 : 0 ≤ B
  · obtain ⟨N, rfl⟩ : ∃ N : Nat, B = N := ⟨B.toNat, by omega⟩
    rw [Rat.intCast_natCast] at h ⊢
    by_cases hq0 : q ≤ 0
    · have := round32_nonpos hq0
      have : (0 : Rat) ≤ (N : Rat) := Rat.natCast_nonneg
      grind
    · have hp : 0 < q := by grind
      unfold round32
      rw [if_neg (by grind), if_neg (by grind)]
      exact roundPos_le hp (by omega) h
  · obtain ⟨N, rfl, hN⟩ : ∃ N : Nat, B = -(N : Int) ∧ 0 < N := ⟨(-B).toNat, by omega, by omega⟩
    rw [Rat.intCast_neg, Rat.intCast_natCast] at h ⊢
    have hNp : (0 : Rat) < (N : Rat) := Rat.natCast_pos.2 hN
    have hneg : q < 0 := by grind
    unfold round32
    rw [if_neg (by grind), if_pos hneg]
    have := le_roundPos (q := -q) (N := N) (by grind) (by grind) (by grind)
    grind

/-- `A ≤ q` for an integer `|A| < 2^24` ⇒ `A ≤ round32 q` -/
theorem int_le_round32 {q : Rat} {A : Int} (hA : A.natAbs < 16777216) (hq : q < 16777216)
    (h : (A : Rat) ≤ q) : (A : Rat) ≤ round32 q := by
  have := round32_le_int (q := -q) (B := -A) (by omega) (by grind) (by rw [Rat.intCast_neg]; grind)
  rw [round32_neg, Rat.intCast_neg] at this
  grind

theorem trunc_le_int {q : Rat} {B : Int} (h : q ≤ (B : Rat)) : trunc q ≤ B := by
  unfold trunc
  split
  · have h1 : q.floor < B + 1 := Rat.floor_lt_iff.2 (by
      have : ((B + 1 : Int) : Rat) = (B : Rat) + 1 := by simp
      rw [this]; grind)
    omega
  · have h1 : -B ≤ (-q).floor := Rat.le_floor_iff.2 (by rw [Rat.intCast_neg]; grind)
    omega

theorem int_le_trunc {q : Rat} {A : Int} (h : (A : Rat) ≤ q) : A ≤ trunc q := by
  have := trunc_le_int (q := -q) (B := -A) (by rw [Rat.intCast_neg]; grind)
  rw [trunc_neg] at this
  omega

theorem toI32_le_int {q : Rat} {B : Int} (h1 : -2147483648 ≤ B) (h2 : B ≤ 2147483647)
    (h : q ≤ (B : Rat)) : toI32 q ≤ B := by
  have := trunc_le_int h
  rw [toI32_def]
  split
  · omega
  · split <;> omega

theorem int_le_toI32 {q : Rat} {A : Int} (h1 : -2147483648 ≤ A) (h2 : A ≤ 2147483647)
    (h : (A : Rat) ≤ q) : A ≤ toI32 q := by
  have := int_le_trunc h
  rw [toI32_def]
  split
  · omega
  · split <;> omega

end Wee.F32

namespace Wee.Ev
open F32

/-- `e·w ≤ B` ⇒ `Evaluation(e) * w ≤ B` (everything far inside the exact range of `f32`) -/
theorem mulF_le {e : Int} {w : Rat} {B : Int} (he : e.natAbs < 16777216) (hB : B.natAbs < 16777216)
    (hlo : -16777216 < (e : Rat) * w) (h : (e : Rat) * w ≤ (B : Rat)) : mulF e w ≤ B := by
  unfold mulF
  rw [ofInt_exact (by omega) (by omega)]
  apply toI32_le_int (by omega) (by omega)
  exact round32_le_int hB hlo h

theorem le_mulF {e : Int} {w : Rat} {A : Int} (he : e.natAbs < 16777216) (hA : A.natAbs < 16777216)
    (hhi : (e : Rat) * w < 16777216) (h : (A : Rat) ≤ (e : Rat) * w) : A ≤ mulF e w := by
  unfold mulF
  rw [ofInt_exact (by omega) (by omega)]
  apply int_le_toI32 (by omega) (by omega)
  exact int_le_round32 hA hhi h


/-- `Evaluation(e) * (n/d)` for a weight `0 ≤ n/d ≤ 1`: the result is the exact product truncated, i.e.
strictly within one unit of `n·e/d` (no rounding artefact can cross an integer). -/
theorem mulF_mkRat_bounds (e : Int) (n : Int) (d : Nat) (hd : 0 < d) (hn0 : 0 ≤ n) (hnd : n ≤ d)
    (he : e.natAbs < 8388608) :
    n * e - d < d * mulF e (mkRat n d) ∧ d * mulF e (mkRat n d) < n * e + d := by
  have hdq : (0 : Rat) < (d : Rat) := Rat.natCast_pos.2 hd
  have hdne : (d : Rat) ≠ 0 := by grind
  have hw : mkRat n d = (n : Rat) / (d : Rat) := Rat.mkRat_eq_div ..
  rw [hw]
  generalize hwv : (n : Rat) / (d : Rat) = w
  have hwd : w * (d : Rat) = (n : Rat) := by rw [← hwv]; exact Rat.div_mul_cancel hdne
  have hn0q : (0 : Rat) ≤ (n : Rat) := by
    have := Rat.intCast_le_intCast.2 hn0; simpa using this
  have hndq : (n : Rat) ≤ (d : Rat) := by
    have := Rat.intCast_le_intCast.2 hnd; simpa [Rat.intCast_natCast] using this
  have hw0 : 0 ≤ w := by
    apply Decidable.byContradiction; intro hc
    have : w * (d : Rat) < 0 * (d : Rat) := Rat.mul_lt_mul_of_pos_right (by grind) hdq
    grind
  have hw1 : w ≤ 1 := by
    apply Decidable.byContradiction; intro hc
    have : 1 * (d : Rat) < w * (d : Rat) := Rat.mul_lt_mul_of_pos_right (by grind) hdq
    grind
  have he1 : -(8388608 : Rat) ≤ (e : Rat) := by
    have := Rat.intCast_le_intCast.2 (show (-8388608 : Int) ≤ e by omega); simpa using this
  have he2 : (e : Rat) ≤ 8388608 := by
    have := Rat.intCast_le_intCast.2 (show e ≤ (8388608 : Int) by omega); simpa using this
  have hq := mul_abs_bounds (a := (e : Rat)) (b := w) (A := 8388608) (B := 1) he1 he2 (by grind) hw1
  generalize hqv : (e : Rat) * w = q at hq
  -- upper side
  have hc1 : q ≤ (q.ceil : Rat) := Rat.le_ceil
  have hc2 : (q.ceil : Rat) < q + 1 := Rat.ceil_lt
  have hcB : q.ceil.natAbs < 16777216 := by
    have a : ((-8388609 : Int) : Rat) < (q.ceil : Rat) := by simp; grind
    have b : (q.ceil : Rat) < ((8388610 : Int) : Rat) := by simp; grind
    have a' := Rat.intCast_lt_intCast.1 a
    have b' := Rat.intCast_lt_intCast.1 b
    omega
  have hU := mulF_le (e := e) (w := w) (B := q.ceil) (by omega) hcB (by rw [hqv]; grind) (by rw [hqv]; exact hc1)
  -- lower side
  have hf1 : (q.floor : Rat) ≤ q := Rat.floor_le q
  have hf2 : q < ((q.floor + 1 : Int) : Rat) := Rat.lt_floor_add_one q
  have hf2' : q < (q.floor : Rat) + 1 := by simpa using hf2
  have hfA : q.floor.natAbs < 16777216 := by
    have a : ((-8388610 : Int) : Rat) < (q.floor : Rat) := by simp; grind
    have b : (q.floor : Rat) < ((8388609 : Int) : Rat) := by simp; grind
    have a' := Rat.intCast_lt_intCast.1 a
    have b' := Rat.intCast_lt_intCast.1 b
    omega
  have hL := le_mulF (e := e) (w := w) (A := q.floor) (by omega) hfA (by rw [hqv]; grind) (by rw [hqv]; exact hf1)
  generalize mulF e w = m at hU hL
  have hUq : (m : Rat) ≤ (q.ceil : Rat) := Rat.intCast_le_intCast.2 hU
  have hLq : (q.floor : Rat) ≤ (m : Rat) := Rat.intCast_le_intCast.2 hL
  have hqd : q * (d : Rat) = (n : Rat) * (e : Rat) := by rw [← hqv, Rat.mul_assoc, hwd]; grind
  have u1 : (m : Rat) * (d : Rat) < (q + 1) * (d : Rat) := Rat.mul_lt_mul_of_pos_right (by grind) hdq
  have u2 : (q - 1) * (d : Rat) < (m : Rat) * (d : Rat) := Rat.mul_lt_mul_of_pos_right (by grind) hdq
  constructor
  · apply Rat.intCast_lt_intCast.1
    rw [Rat.intCast_sub, Rat.intCast_mul, Rat.intCast_mul, Rat.intCast_natCast]
    grind
  · apply Rat.intCast_lt_intCast.1
    rw [Rat.intCast_add, Rat.intCast_mul, Rat.intCast_mul, Rat.intCast_natCast]
    grind

end Wee.Ev

/-! ## the end-game weight is a function of `6·pawns + 16·queens + occupied` -/
namespace Wee
open Gen

/-- the end-game weight as a function of the three counts it reads -/
def egwF (P Q O : Nat) : Rat :=
  let v1 := F32.div (F32.ofInt ((P : Nat) : Int)) egD1
  let v2 := F32.div (F32.ofInt ((Q : Nat) : Int)) egD2
  let v3 := F32.div (F32.ofInt ((O : Nat) : Int)) egD3
  let num := F32.add (F32.add (F32.mul egW1 v1) (F32.mul egW2 v2)) (F32.mul egW3 v3)
  let den := F32.add (F32.add egW1 egW2) egW3
  F32.sub 1 (F32.div num den)

theorem egw_eq_egwF (s : State) : (Variation.of s).egw =
    egwF (pieceCount s .white .pawn + pieceCount s .black .pawn)
      (pieceCount s .white .queen + pieceCount s .black .queen) (popcount s.pieces.occ) := rfl

def egwK (k : Nat) : Rat := F32.sub 1 (F32.div ((k : Rat) / 32) 5)

set_option maxRecDepth 1000000 in
theorem r32_tab : (List.range 1024).all (fun m => decide (F32.round32 ((m : Rat) / 32) = (m : Rat) / 32)) = true := by
  decide +kernel

theorem r32 {m : Nat} (h : m < 1024) : F32.round32 ((m : Rat) / 32) = (m : Rat) / 32 := by
  have := List.all_eq_true.1 r32_tab m (List.mem_range.2 h)
  simpa using this

theorem egConsts' : egW1 = 3 ∧ egW2 = 1 ∧ egW3 = 1 ∧ egD1 = 16 ∧ egD2 = 2 ∧ egD3 = 32 ∧
    F32.add (F32.add egW1 egW2) egW3 = 5 := by decide +kernel

theorem egwF_eq (P Q O : Nat) (hP : P ≤ 32) (hQ : Q ≤ 32) (hO : O ≤ 64) :
    egwF P Q O = egwK (6 * P + 16 * Q + O) := by
  obtain ⟨w1, w2, w3, d1, d2, d3, hden⟩ := egConsts'
  unfold egwF egwK
  rw [hden]
  simp only [w1, w2, w3, d1, d2, d3]
  rw [F32.ofInt_exact (by omega) (by omega), F32.ofInt_exact (by omega) (by omega), F32.ofInt_exact (by omega) (by omega)]
  simp only [Rat.intCast_natCast]
  have e1 : F32.div (P : Rat) 16 = ((2 * P : Nat) : Rat) / 32 := by
    unfold F32.div
    rw [show (P : Rat) / 16 = ((2 * P : Nat) : Rat) / 32 by rw [Rat.natCast_mul]; grind, r32 (by omega)]
  have e2 : F32.div (Q : Rat) 2 = ((16 * Q : Nat) : Rat) / 32 := by
    unfold F32.div
    rw [show (Q : Rat) / 2 = ((16 * Q : Nat) : Rat) / 32 by rw [Rat.natCast_mul]; grind, r32 (by omega)]
  have e3 : F32.div (O : Rat) 32 = (O : Rat) / 32 := by
    unfold F32.div; rw [r32 (by omega)]
  rw [e1, e2, e3]
  have m1 : F32.mul 3 (((2 * P : Nat) : Rat) / 32) = ((6 * P : Nat) : Rat) / 32 := by
    unfold F32.mul
    rw [show (3 : Rat) * (((2 * P : Nat) : Rat) / 32) = ((6 * P : Nat) : Rat) / 32 by
      rw [Rat.natCast_mul, Rat.natCast_mul]; grind, r32 (by omega)]
  have m2 : F32.mul 1 (((16 * Q : Nat) : Rat) / 32) = ((16 * Q : Nat) : Rat) / 32 := by
    unfold F32.mul; rw [Rat.one_mul, r32 (by omega)]
  have m3 : F32.mul 1 ((O : Rat) / 32) = (O : Rat) / 32 := by
    unfold F32.mul; rw [Rat.one_mul, r32 (by omega)]
  rw [m1, m2, m3]
  have a1 : F32.add (((6 * P : Nat) : Rat) / 32) (((16 * Q : Nat) : Rat) / 32) = ((6 * P + 16 * Q : Nat) : Rat) / 32 := by
    unfold F32.add
    rw [show ((6 * P : Nat) : Rat) / 32 + ((16 * Q : Nat) : Rat) / 32 = ((6 * P + 16 * Q : Nat) : Rat) / 32 by
      rw [Rat.natCast_add]; grind, r32 (by omega)]
  have a2 : F32.add (((6 * P + 16 * Q : Nat) : Rat) / 32) ((O : Rat) / 32) = ((6 * P + 16 * Q + O : Nat) : Rat) / 32 := by
    unfold F32.add
    rw [show ((6 * P + 16 * Q : Nat) : Rat) / 32 + (O : Rat) / 32 = ((6 * P + 16 * Q + O : Nat) : Rat) / 32 by
      rw [Rat.natCast_add (6 * P + 16 * Q) O]; grind, r32 (by omega)]
  rw [a1, a2]

/-- what is needed of the end-game weight as a function of `k = 6·pawns + 16·queens + occupied` -/
def EgwFacts (k : Nat) : Prop :=
  egwK k ≤ 1 ∧ (0 < egwK k → k < 160) ∧ 1 - ((k : Rat) + 1) / 160 ≤ egwK k ∧ (3 / 4 ≤ egwK k → k ≤ 40)

instance (k : Nat) : Decidable (EgwFacts k) := by unfold EgwFacts; infer_instance

set_option maxRecDepth 1000000 in
theorem egwK_tab : (List.range 513).all (fun k => decide (EgwFacts k)) = true := by decide +kernel

theorem egwK_facts {k : Nat} (h : k ≤ 512) : EgwFacts k := by
  have := List.all_eq_true.1 egwK_tab k (List.mem_range.2 (by omega))
  exact of_decide_eq_true this
open F32

/-! ## piece-square values -/

/-- the arithmetic core of `evaluate_piece_square`: the `f32` lerp, cast back to `i32`, stays between any two
integers that enclose the exact value `(e2 - e1)·w + e1` -/
theorem psq_core {e1 e2 : Int} {w : Rat} {L H : Int} (h1 : e1.natAbs ≤ 1000) (h2 : e2.natAbs ≤ 1000)
    (hL' : L.natAbs ≤ 1000000) (hH' : H.natAbs ≤ 1000000)
    (hL : (L : Rat) ≤ ((e2 - e1 : Int) : Rat) * w + (e1 : Rat))
    (hH : ((e2 - e1 : Int) : Rat) * w + (e1 : Rat) ≤ (H : Rat)) :
    L ≤ toI32 (add (mul (sub (ofInt e2) (ofInt e1)) w) (ofInt e1)) ∧
    toI32 (add (mul (sub (ofInt e2) (ofInt e1)) w) (ofInt e1)) ≤ H := by
  rw [ofInt_exact (i := e1) (by omega) (by omega), ofInt_exact (i := e2) (by omega) (by omega)]
  have hs : sub (e2 : Rat) (e1 : Rat) = ((e2 - e1 : Int) : Rat) := by
    unfold sub; rw [← Rat.intCast_sub]; exact round32_intCast (by omega) (by omega)
  rw [hs]
  generalize hx : ((e2 - e1 : Int) : Rat) * w = x at hL hH
  have c1 : ((L - e1 : Int) : Rat) ≤ x := by rw [Rat.intCast_sub]; grind
  have c2 : x ≤ ((H - e1 : Int) : Rat) := by rw [Rat.intCast_sub]; grind
  have bH : ((H - e1 : Int) : Rat) ≤ ((1001000 : Int) : Rat) := Rat.intCast_le_intCast.2 (by omega)
  have bL : ((-1001000 : Int) : Rat) ≤ ((L - e1 : Int) : Rat) := Rat.intCast_le_intCast.2 (by omega)
  have bH' : ((H : Int) : Rat) ≤ ((1000000 : Int) : Rat) := Rat.intCast_le_intCast.2 (by omega)
  have bL' : ((-1000000 : Int) : Rat) ≤ ((L : Int) : Rat) := Rat.intCast_le_intCast.2 (by omega)
  simp only [Rat.intCast_ofNat, Rat.intCast_neg] at bH bL bH' bL'
  have m1 := int_le_round32 (q := x) (A := L - e1) (by omega) (by grind) c1
  have m2 := round32_le_int (q := x) (B := H - e1) (by omega) (by grind) c2
  unfold mul
  rw [hx]
  generalize round32 x = m at m1 m2
  rw [Rat.intCast_sub] at m1 m2
  have a1 := int_le_round32 (q := m + (e1 : Rat)) (A := L) (by omega) (by grind) (by grind)
  have a2 := round32_le_int (q := m + (e1 : Rat)) (B := H) (by omega) (by grind) (by grind)
  unfold add
  exact ⟨int_le_toI32 (by omega) (by omega) a1, toI32_le_int (by omega) (by omega) a2⟩

/-- the table index read by `evaluate_piece_square` -/
def psqIndex (sq : Nat) (c : Color) : Nat := flipRank (if c == .white then sq else flipRank sq)

theorem pieceSquare_eq (p : Piece) (sq : Nat) (c : Color) (w : Rat) :
    pieceSquare p sq c w =
      toI32 (add (mul (sub (ofInt ((pieceSquareMap.getD p.code (#[], #[])).2.getD (psqIndex sq c) 0))
        (ofInt ((pieceSquareMap.getD p.code (#[], #[])).1.getD (psqIndex sq c) 0))) w)
        (ofInt ((pieceSquareMap.getD p.code (#[], #[])).1.getD (psqIndex sq c) 0))) := rfl

/-- a piece whose middle-game and end-game tables coincide scores its table entry, whatever the weight -/
theorem pieceSquare_same (p : Piece) (sq : Nat) (c : Color) (w : Rat)
    (hsame : (pieceSquareMap.getD p.code (#[], #[])).2 = (pieceSquareMap.getD p.code (#[], #[])).1) :
    pieceSquare p sq c w = (pieceSquareMap.getD p.code (#[], #[])).1.getD (psqIndex sq c) 0 := by
  rw [pieceSquare_eq, hsame]
  obtain ⟨⟨a1, a2⟩, _⟩ := pieceSquareMap_bounds p (psqIndex sq c)
  generalize (pieceSquareMap.getD p.code (#[], #[])).1.getD (psqIndex sq c) 0 = e at *
  have := psq_core (e1 := e) (e2 := e) (w := w) (L := e) (H := e) (by omega) (by omega) (by omega) (by omega)
    (by rw [Int.sub_self]; simp; grind) (by rw [Int.sub_self]; simp; grind)
  exact Int.le_antisymm this.2 this.1

theorem array_getD_bounds2 (a : Array Int) (lo hi : Int) (hlo : lo ≤ 0) (hhi : 0 ≤ hi)
    (h : a.toList.all (fun x => decide (lo ≤ x ∧ x ≤ hi)) = true) (i : Nat) :
    lo ≤ a.getD i 0 ∧ a.getD i 0 ≤ hi := by
  rw [Array.getD_eq_getD_getElem?]
  cases hi' : a[i]? with
  | none => simp; omega
  | some x =>
    have hx : x ∈ a.toList := by
      rw [Array.mem_toList_iff]; exact Array.mem_of_getElem? hi'
    have := List.all_eq_true.1 h x hx
    simpa using this

/-- extreme table entries per piece kind (from the mover's side of the board) -/
theorem pieceSquare_kind_bounds (sq : Nat) (c : Color) (w : Rat) :
    (-20 ≤ pieceSquare .pawn sq c w ∧ pieceSquare .pawn sq c w ≤ 50) ∧
    (-50 ≤ pieceSquare .knight sq c w ∧ pieceSquare .knight sq c w ≤ 20) ∧
    (-20 ≤ pieceSquare .bishop sq c w ∧ pieceSquare .bishop sq c w ≤ 10) ∧
    (-5 ≤ pieceSquare .rook sq c w ∧ pieceSquare .rook sq c w ≤ 10) ∧
    (-20 ≤ pieceSquare .queen sq c w ∧ pieceSquare .queen sq c w ≤ 5) := by
  rw [pieceSquare_same .pawn sq c w rfl, pieceSquare_same .knight sq c w rfl, pieceSquare_same .bishop sq c w rfl,
    pieceSquare_same .rook sq c w rfl, pieceSquare_same .queen sq c w rfl]
  exact ⟨array_getD_bounds2 PAWN_MAP (-20) 50 (by decide) (by decide) (by decide) _,
    array_getD_bounds2 KNIGHT_MAP (-50) 20 (by decide) (by decide) (by decide) _,
    array_getD_bounds2 BISHOP_MAP (-20) 10 (by decide) (by decide) (by decide) _,
    array_getD_bounds2 ROOK_MAP (-5) 10 (by decide) (by decide) (by decide) _,
    array_getD_bounds2 QUEEN_MAP (-20) 5 (by decide) (by decide) (by decide) _⟩


/-- the two king tables: ranges, and range of "middle-game minus end-game" square by square -/
theorem king_tables (i : Nat) :
    -50 ≤ KING_MIDDLE_GAME_MAP.getD i 0 ∧ KING_MIDDLE_GAME_MAP.getD i 0 ≤ 30 ∧
    -50 ≤ KING_END_GAME_MAP.getD i 0 ∧ KING_END_GAME_MAP.getD i 0 ≤ 40 ∧
    -90 ≤ KING_MIDDLE_GAME_MAP.getD i 0 - KING_END_GAME_MAP.getD i 0 ∧
    KING_MIDDLE_GAME_MAP.getD i 0 - KING_END_GAME_MAP.getD i 0 ≤ 70 := by
  by_cases h : i < 64
  · exact (by decide : ∀ j : Fin 64,
      -50 ≤ KING_MIDDLE_GAME_MAP.getD j.val 0 ∧ KING_MIDDLE_GAME_MAP.getD j.val 0 ≤ 30 ∧
      -50 ≤ KING_END_GAME_MAP.getD j.val 0 ∧ KING_END_GAME_MAP.getD j.val 0 ≤ 40 ∧
      -90 ≤ KING_MIDDLE_GAME_MAP.getD j.val 0 - KING_END_GAME_MAP.getD j.val 0 ∧
      KING_MIDDLE_GAME_MAP.getD j.val 0 - KING_END_GAME_MAP.getD j.val 0 ≤ 70) ⟨i, h⟩
  · have s1 : KING_MIDDLE_GAME_MAP.size = 64 := rfl
    have s2 : KING_END_GAME_MAP.size = 64 := rfl
    rw [Array.getD_eq_getD_getElem?, Array.getD_eq_getD_getElem?,
      Array.getElem?_eq_none (by omega), Array.getElem?_eq_none (by omega)]
    simp

theorem pieceSquare_king_eq (sq : Nat) (c : Color) (w : Rat) :
    pieceSquare .king sq c w =
      toI32 (add (mul (sub (ofInt (KING_END_GAME_MAP.getD (psqIndex sq c) 0))
        (ofInt (KING_MIDDLE_GAME_MAP.getD (psqIndex sq c) 0))) w)
        (ofInt (KING_MIDDLE_GAME_MAP.getD (psqIndex sq c) 0))) := rfl

/-- king, end-game weight in `[0, 1]`: a convex combination of the two tables -/
theorem pieceSquare_king_A (sq : Nat) (c : Color) {w : Rat} (h0 : 0 ≤ w) (h1 : w ≤ 1) :
    -50 ≤ pieceSquare .king sq c w ∧ pieceSquare .king sq c w ≤ 40 := by
  rw [pieceSquare_king_eq]
  obtain ⟨a1, a2, b1, b2, _, _⟩ := king_tables (psqIndex sq c)
  generalize KING_MIDDLE_GAME_MAP.getD (psqIndex sq c) 0 = e1 at *
  generalize KING_END_GAME_MAP.getD (psqIndex sq c) 0 = e2 at *
  have q1 : (-50 : Rat) ≤ (e1 : Rat) := by have := Rat.intCast_le_intCast.2 a1; simpa using this
  have q2 : (e1 : Rat) ≤ 40 := by have := Rat.intCast_le_intCast.2 (show e1 ≤ 40 by omega); simpa using this
  have q3 : (-50 : Rat) ≤ (e2 : Rat) := by have := Rat.intCast_le_intCast.2 b1; simpa using this
  have q4 : (e2 : Rat) ≤ 40 := by have := Rat.intCast_le_intCast.2 b2; simpa using this
  have p1 := Rat.mul_le_mul_of_nonneg_left q4 h0
  have p2 := Rat.mul_le_mul_of_nonneg_left q3 h0
  have p3 := Rat.mul_le_mul_of_nonneg_left q2 (show (0 : Rat) ≤ 1 - w by grind)
  have p4 := Rat.mul_le_mul_of_nonneg_left q1 (show (0 : Rat) ≤ 1 - w by grind)
  have := psq_core (e1 := e1) (e2 := e2) (w := w) (L := -50) (H := 40) (by omega) (by omega) (by omega) (by omega)
    (by rw [Rat.intCast_sub]; simp; grind) (by rw [Rat.intCast_sub]; simp; grind)
  exact this

/-- king, end-game weight `w ≤ 0` (more than 160 units of `6·pawns + 16·queens + occupied` on the board):
the lerp extrapolates beyond the middle-game table by `-w` times "middle-game minus end-game" -/
theorem pieceSquare_king_B (sq : Nat) (c : Color) {w : Rat} (h0 : w ≤ 0) {L H : Int}
    (hL' : L.natAbs ≤ 1000000) (hH' : H.natAbs ≤ 1000000)
    (hL : (L : Rat) ≤ -50 + 90 * w) (hH : 30 - 70 * w ≤ (H : Rat)) :
    L ≤ pieceSquare .king sq c w ∧ pieceSquare .king sq c w ≤ H := by
  rw [pieceSquare_king_eq]
  obtain ⟨a1, a2, _, _, d1, d2⟩ := king_tables (psqIndex sq c)
  generalize KING_MIDDLE_GAME_MAP.getD (psqIndex sq c) 0 = e1 at *
  generalize KING_END_GAME_MAP.getD (psqIndex sq c) 0 = e2 at *
  have q1 : (-50 : Rat) ≤ (e1 : Rat) := by have := Rat.intCast_le_intCast.2 a1; simpa using this
  have q2 : (e1 : Rat) ≤ 30 := by have := Rat.intCast_le_intCast.2 a2; simpa using this
  have q3 : (-90 : Rat) ≤ (e1 : Rat) - (e2 : Rat) := by
    have := Rat.intCast_le_intCast.2 d1; rw [Rat.intCast_sub] at this; simpa using this
  have q4 : (e1 : Rat) - (e2 : Rat) ≤ 70 := by
    have := Rat.intCast_le_intCast.2 d2; rw [Rat.intCast_sub] at this; simpa using this
  have p1 := Rat.mul_le_mul_of_nonneg_left q4 (show (0 : Rat) ≤ -w by grind)
  have p2 := Rat.mul_le_mul_of_nonneg_left q3 (show (0 : Rat) ≤ -w by grind)
  exact psq_core (e1 := e1) (e2 := e2) (w := w) (L := L) (H := H) (by omega) (by omega) hL' hH'
    (by rw [Rat.intCast_sub]; grind) (by rw [Rat.intCast_sub]; grind)


/-! ## the piece-square term through piece counts -/

theorem foldl_add_bounds2 {α : Type} (g : α → Int) (lo hi : Int) (l : List α) (a : Int)
    (h : ∀ x ∈ l, lo ≤ g x ∧ g x ≤ hi) :
    a + lo * l.length ≤ l.foldl (fun acc x => acc + g x) a ∧
    l.foldl (fun acc x => acc + g x) a ≤ a + hi * l.length := by
  induction l generalizing a with
  | nil => simp
  | cons x xs ih =>
    have hx := h x (List.mem_cons_self)
    have := ih (a + g x) (fun y hy => h y (List.mem_cons_of_mem _ hy))
    simp only [List.foldl_cons, List.length_cons]
    have e : lo * ((xs.length + 1 : Nat) : Int) = lo * (xs.length : Int) + lo := by
      rw [Int.natCast_add, Int.mul_add]; simp
    have e' : hi * ((xs.length + 1 : Nat) : Int) = hi * (xs.length : Int) + hi := by
      rw [Int.natCast_add, Int.mul_add]; simp
    rw [e, e']; obtain ⟨t1, t2⟩ := this; constructor <;> omega

/-- `evaluate_piece_squares` of one side between the per-kind extremes times the piece counts, the king between
any bounds `KL ≤ · ≤ KH` valid for the position's end-game weight -/
theorem evalSquares_count_bounds (v : Variation) (c : Color) (KL KH : Int)
    (hking : ∀ sq, KL ≤ pieceSquare .king sq c v.egw ∧ pieceSquare .king sq c v.egw ≤ KH)
    (hK : pieceCount v.s c .king = 1) :
    -20 * (pieceCount v.s c .pawn : Int) - 50 * (pieceCount v.s c .knight : Int) - 20 * (pieceCount v.s c .bishop : Int)
      - 5 * (pieceCount v.s c .rook : Int) - 20 * (pieceCount v.s c .queen : Int) + KL ≤ evalSquares v c ∧
    evalSquares v c ≤ 50 * (pieceCount v.s c .pawn : Int) + 20 * (pieceCount v.s c .knight : Int)
      + 10 * (pieceCount v.s c .bishop : Int) + 10 * (pieceCount v.s c .rook : Int) + 5 * (pieceCount v.s c .queen : Int) + KH := by
  unfold evalSquares
  simp only [Piece.all, List.foldl_cons, List.foldl_nil]
  have len : ∀ p, ((bitsOf (v.s.pieces.get c p)).length : Int) = (pieceCount v.s c p : Int) := fun _ => rfl
  have b1 := foldl_add_bounds2 (fun sq => pieceSquare .pawn sq c v.egw) (-20) 50 (bitsOf (v.s.pieces.get c .pawn)) 0
    (fun sq _ => (pieceSquare_kind_bounds sq c v.egw).1)
  rw [len] at b1
  generalize (bitsOf (v.s.pieces.get c .pawn)).foldl (fun acc sq => acc + pieceSquare .pawn sq c v.egw) 0 = s1 at *
  have b2 := foldl_add_bounds2 (fun sq => pieceSquare .knight sq c v.egw) (-50) 20 (bitsOf (v.s.pieces.get c .knight)) s1
    (fun sq _ => (pieceSquare_kind_bounds sq c v.egw).2.1)
  rw [len] at b2
  generalize (bitsOf (v.s.pieces.get c .knight)).foldl (fun acc sq => acc + pieceSquare .knight sq c v.egw) s1 = s2 at *
  have b3 := foldl_add_bounds2 (fun sq => pieceSquare .bishop sq c v.egw) (-20) 10 (bitsOf (v.s.pieces.get c .bishop)) s2
    (fun sq _ => (pieceSquare_kind_bounds sq c v.egw).2.2.1)
  rw [len] at b3
  generalize (bitsOf (v.s.pieces.get c .bishop)).foldl (fun acc sq => acc + pieceSquare .bishop sq c v.egw) s2 = s3 at *
  have b4 := foldl_add_bounds2 (fun sq => pieceSquare .rook sq c v.egw) (-5) 10 (bitsOf (v.s.pieces.get c .rook)) s3
    (fun sq _ => (pieceSquare_kind_bounds sq c v.egw).2.2.2.1)
  rw [len] at b4
  generalize (bitsOf (v.s.pieces.get c .rook)).foldl (fun acc sq => acc + pieceSquare .rook sq c v.egw) s3 = s4 at *
  have b5 := foldl_add_bounds2 (fun sq => pieceSquare .queen sq c v.egw) (-20) 5 (bitsOf (v.s.pieces.get c .queen)) s4
    (fun sq _ => (pieceSquare_kind_bounds sq c v.egw).2.2.2.2)
  rw [len] at b5
  generalize (bitsOf (v.s.pieces.get c .queen)).foldl (fun acc sq => acc + pieceSquare .queen sq c v.egw) s4 = s5 at *
  have b6 := foldl_add_bounds2 (fun sq => pieceSquare .king sq c v.egw) KL KH (bitsOf (v.s.pieces.get c .king)) s5
    (fun sq _ => hking sq)
  rw [len, hK] at b6
  generalize (bitsOf (v.s.pieces.get c .king)).foldl (fun acc sq => acc + pieceSquare .king sq c v.egw) s5 = s6 at *
  obtain ⟨x1, y1⟩ := b1; obtain ⟨x2, y2⟩ := b2; obtain ⟨x3, y3⟩ := b3
  obtain ⟨x4, y4⟩ := b4; obtain ⟨x5, y5⟩ := b5; obtain ⟨x6, y6⟩ := b6
  constructor <;> eomega


/-! ## king-to-the-edge, pawn structure, occupancy -/

theorem kingEdgeThreshold_eq : kingEdgeThreshold = 3 / 4 := by decide +kernel

theorem evalKingEdge_ne_zero {v : Variation} {c : Color} (h : evalKingEdge v c ≠ 0) : 3 / 4 ≤ v.egw := by
  apply Decidable.byContradiction
  intro hn
  apply h
  unfold evalKingEdge
  rw [if_pos (by rw [kingEdgeThreshold_eq]; grind)]

/-- `|end_game_weight| ≤ 1` ⇒ the king-to-the-edge term of one side lies in `[-60, 60]` -/
theorem evalKingEdge_small (v : Variation) (c : Color) (h0 : -1 ≤ v.egw) (h1 : v.egw ≤ 1) :
    -60 ≤ evalKingEdge v c ∧ evalKingEdge v c ≤ 60 := by
  unfold evalKingEdge
  split
  · constructor <;> eomega
  · split
    · constructor <;> eomega
    · split
      · rename_i ours theirs h1' h2'
        have ho := firstOne_lt _ _ h1'
        have ht := firstOne_lt _ _ h2'
        simp only
        generalize hx : (kingEdgeFactor * (kingEdgeCentre - (min ((absDist (rankOf theirs) 0 : Nat) : Int) (absDist (rankOf theirs) 7 : Nat) + min ((absDist (fileOf theirs) 0 : Nat) : Int) (absDist (fileOf theirs) 7 : Nat))) - ((manhattan ours theirs : Nat) : Int)) = x
        have hb : -(60 : Int) ≤ x ∧ x ≤ (60 : Int) := by
          subst hx
          have hr : rankOf theirs ≤ 7 := by unfold rankOf; omega
          have hf : fileOf theirs ≤ 7 := by unfold fileOf; omega
          have hr' : rankOf ours ≤ 7 := by unfold rankOf; omega
          have hf' : fileOf ours ≤ 7 := by unfold fileOf; omega
          have m1 := absDist_le hr' hr
          have m2 := absDist_le hf' hf
          rw [absDist_zero, absDist_zero, absDist_seven hr, absDist_seven hf]
          unfold kingEdgeFactor kingEdgeCentre manhattan
          constructor <;> omega
        have := Ev.mulF_bounds (E := 60) (W := 1) (by decide) (by decide) hb.1 hb.2 (by simpa using h0) (by simpa using h1)
        obtain ⟨t1, t2⟩ := this
        constructor <;> eomega
      · constructor <;> eomega

/-- a side without pawns pays the isolated-file penalty on all eight files and nothing else -/
theorem evalBadPawns_no_pawns (v : Variation) (c : Color) (h : pieceCount v.s c .pawn = 0) :
    evalBadPawns v c = -400 := by
  have hb : v.s.pieces.get c .pawn = 0 := by
    rw [← bitsOf_eq_nil]
    exact List.length_eq_zero_iff.1 h
  unfold evalBadPawns
  rw [hb]
  decide +kernel

theorem filter_or_length_le {α : Type} (p q : α → Bool) (l : List α) :
    (l.filter (fun x => p x || q x)).length ≤ (l.filter p).length + (l.filter q).length := by
  induction l with
  | nil => simp
  | cons x xs ih =>
    simp only [List.filter_cons]
    cases hp : p x <;> cases hq : q x <;> simp <;> omega

theorem popcount_or_le (a b : UInt64) : popcount (a ||| b) ≤ popcount a + popcount b := by
  unfold popcount bitsOf
  have : test (a ||| b) = (fun n => test a n || test b n) := by
    funext n; exact test_or a b n
  rw [this]
  exact filter_or_length_le (test a) (test b) _

theorem popcount_zero : popcount 0 = 0 := by
  unfold popcount; rw [bitsOf_zero]; rfl

/-- all men of one colour, as in `StateVariation::color_counts` -/
def men (s : State) (c : Color) : Nat := (Piece.all.map (pieceCount s c)).sum

theorem men_eq (s : State) (c : Color) : men s c =
    pieceCount s c .pawn + pieceCount s c .knight + pieceCount s c .bishop + pieceCount s c .rook
      + pieceCount s c .queen + pieceCount s c .king := by
  simp only [men, Piece.all, List.map_cons, List.map_nil, List.sum_cons, List.sum_nil]; omega

theorem popcount_colorOcc_le (s : State) (c : Color) : popcount (s.pieces.colorOcc c) ≤ men s c := by
  rw [men_eq]
  unfold PieceMap.colorOcc
  simp only [Piece.all, List.foldl_cons, List.foldl_nil]
  have h1 := popcount_or_le (0 : UInt64) (s.pieces.get c .pawn)
  have h2 := popcount_or_le (0 ||| s.pieces.get c .pawn) (s.pieces.get c .knight)
  have h3 := popcount_or_le (0 ||| s.pieces.get c .pawn ||| s.pieces.get c .knight) (s.pieces.get c .bishop)
  have h4 := popcount_or_le (0 ||| s.pieces.get c .pawn ||| s.pieces.get c .knight ||| s.pieces.get c .bishop)
    (s.pieces.get c .rook)
  have h5 := popcount_or_le (0 ||| s.pieces.get c .pawn ||| s.pieces.get c .knight ||| s.pieces.get c .bishop
    ||| s.pieces.get c .rook) (s.pieces.get c .queen)
  have h6 := popcount_or_le (0 ||| s.pieces.get c .pawn ||| s.pieces.get c .knight ||| s.pieces.get c .bishop
    ||| s.pieces.get c .rook ||| s.pieces.get c .queen) (s.pieces.get c .king)
  rw [popcount_zero] at h1
  unfold pieceCount
  omega

theorem popcount_occ_le (s : State) : popcount s.pieces.occ ≤ men s .white + men s .black := by
  have := popcount_or_le (s.pieces.colorOcc .white) (s.pieces.colorOcc .black)
  have := popcount_colorOcc_le s .white
  have := popcount_colorOcc_le s .black
  unfold PieceMap.occ
  omega


/-! ## all four terms of one position through its piece counts -/

/-- per-kind maxima of the piece-square tables times the counts (king excluded) -/
def sqHigh (s : State) (c : Color) : Int :=
  50 * (pieceCount s c .pawn : Int) + 20 * (pieceCount s c .knight : Int) + 10 * (pieceCount s c .bishop : Int)
    + 10 * (pieceCount s c .rook : Int) + 5 * (pieceCount s c .queen : Int)

/-- per-kind minima of the piece-square tables times the counts (king excluded) -/
def sqLow (s : State) (c : Color) : Int :=
  -20 * (pieceCount s c .pawn : Int) - 50 * (pieceCount s c .knight : Int) - 20 * (pieceCount s c .bishop : Int)
    - 5 * (pieceCount s c .rook : Int) - 20 * (pieceCount s c .queen : Int)

/-- `6·pawns + 16·queens` (both colours): the part of the end-game weight's argument that material decides -/
def egwBase (s : State) : Nat :=
  6 * (pieceCount s .white .pawn + pieceCount s .black .pawn) + 16 * (pieceCount s .white .queen + pieceCount s .black .queen)

/-- **The two regimes.**  For a position with one king and at most 16 men a side there are a number `k`
(`= 6·pawns + 16·queens + occupied squares`, which determines the end-game weight) and king bounds `KL ≤ KH` with:
the piece-square term of either side lies between the per-kind extremes plus the king bounds, and either
(A) `k < 160`: the weight is in `(0, 1]`, a king scores in `[-50, 40]`, king-to-the-edge is within `±60` and vanishes
unless `k ≤ 40`; or (B) `k ≥ 159`: the weight is `≤ 0`, king-to-the-edge vanishes, and the king bounds grow
linearly with `k` (`160·KH < 4960 + 70(k-159)`, `160·KL > -8160 - 90(k-159)`). -/
theorem squares_kingedge (s : State) (hk : ∀ c, pieceCount s c .king = 1) (hmen : ∀ c, men s c ≤ 16) :
    ∃ (k : Nat) (KL KH : Int),
      egwBase s ≤ k ∧ k ≤ egwBase s + men s .white + men s .black ∧
      (∀ c, sqLow s c + KL ≤ evalSquares (Variation.of s) c ∧ evalSquares (Variation.of s) c ≤ sqHigh s c + KH) ∧
      ((k < 160 ∧ KL = -50 ∧ KH = 40 ∧
          (∀ c, -60 ≤ evalKingEdge (Variation.of s) c ∧ evalKingEdge (Variation.of s) c ≤ 60) ∧
          (∀ c, evalKingEdge (Variation.of s) c ≠ 0 → k ≤ 40)) ∨
       (159 ≤ k ∧ 160 * KH < 4960 + 70 * ((k : Int) - 159) ∧ -8160 - 90 * ((k : Int) - 159) < 160 * KL ∧
          ∀ c, evalKingEdge (Variation.of s) c = 0)) := by
  have mw := men_eq s .white; have mb := men_eq s .black
  have kw := hk .white; have kb := hk .black
  have hw := hmen .white; have hb := hmen .black
  have hocc := popcount_occ_le s
  generalize hO : popcount s.pieces.occ = O at hocc
  have hegw : (Variation.of s).egw = egwK (egwBase s + O) := by
    rw [egw_eq_egwF, hO, egwF_eq _ _ _ (by omega) (by omega) (by omega)]; rfl
  have hk512 : egwBase s + O ≤ 512 := by unfold egwBase; omega
  refine ⟨egwBase s + O, ?_⟩
  obtain ⟨f1, f2, f3, f4⟩ := egwK_facts hk512
  have hkq : ((egwBase s + O : Nat) : Rat) ≤ 512 := by
    have := Rat.natCast_le_natCast.2 hk512; simpa using this
  generalize hkk : egwBase s + O = k at *
  have sqb : ∀ (KL KH : Int), (∀ c sq, KL ≤ pieceSquare .king sq c (Variation.of s).egw ∧ pieceSquare .king sq c (Variation.of s).egw ≤ KH) →
      ∀ c, sqLow s c + KL ≤ evalSquares (Variation.of s) c ∧ evalSquares (Variation.of s) c ≤ sqHigh s c + KH := by
    intro KL KH h c
    have := evalSquares_count_bounds (Variation.of s) c KL KH (h c) (hk c)
    unfold sqLow sqHigh
    exact this
  by_cases hpos : 0 < egwK k
  · refine ⟨-50, 40, by omega, by omega, sqb _ _ (fun c sq => ?_), Or.inl ⟨f2 hpos, rfl, rfl, fun c => ?_, fun c hne => ?_⟩⟩
    · rw [hegw]; exact pieceSquare_king_A sq c (by grind) f1
    · exact evalKingEdge_small _ c (by rw [hegw]; grind) (by rw [hegw]; exact f1)
    · exact f4 (by rw [← hegw]; exact evalKingEdge_ne_zero hne)
  · have hw0 : egwK k ≤ 0 := by grind
    have h159 : 159 ≤ k := by
      apply Decidable.byContradiction; intro hc
      have : ((k : Nat) : Rat) ≤ ((158 : Nat) : Rat) := Rat.natCast_le_natCast.2 (by omega)
      simp at this
      grind
    generalize hwv : egwK k = w at *
    have c1 : 30 - 70 * w ≤ ((30 - 70 * w).ceil : Rat) := Rat.le_ceil
    have c2 : ((30 - 70 * w).ceil : Rat) < 30 - 70 * w + 1 := Rat.ceil_lt
    have d1 : ((-50 + 90 * w).floor : Rat) ≤ -50 + 90 * w := Rat.floor_le _
    have d2 : -50 + 90 * w < (((-50 + 90 * w).floor + 1 : Int) : Rat) := Rat.lt_floor_add_one _
    rw [Rat.intCast_add] at d2
    simp only [Rat.intCast_ofNat] at d2
    generalize (30 - 70 * w).ceil = KH at *
    generalize (-50 + 90 * w).floor = KL at *
    have hKH : 160 * KH < 4960 + 70 * ((k : Int) - 159) := by
      apply Rat.intCast_lt_intCast.1
      rw [Rat.intCast_add, Rat.intCast_mul, Rat.intCast_mul, Rat.intCast_sub, Rat.intCast_natCast]
      simp only [Rat.intCast_ofNat]
      grind
    have hKL : -8160 - 90 * ((k : Int) - 159) < 160 * KL := by
      apply Rat.intCast_lt_intCast.1
      rw [Rat.intCast_sub, Rat.intCast_mul, Rat.intCast_mul, Rat.intCast_sub, Rat.intCast_natCast, Rat.intCast_neg]
      simp only [Rat.intCast_ofNat]
      grind
    have hKH0 : 0 ≤ KH := by
      have : ((0 : Int) : Rat) ≤ (KH : Rat) := by simp; grind
      exact Rat.intCast_le_intCast.1 this
    have hKL0 : KL ≤ 0 := by
      have : (KL : Rat) ≤ ((0 : Int) : Rat) := by simp; grind
      exact Rat.intCast_le_intCast.1 this
    refine ⟨KL, KH, by omega, by omega, sqb _ _ (fun c sq => ?_), Or.inr ⟨h159, hKH, hKL, fun c => ?_⟩⟩
    · rw [hegw]
      exact pieceSquare_king_B sq c hw0 (by omega) (by omega) d1 c1
    · unfold evalKingEdge
      rw [if_pos (by rw [hegw, kingEdgeThreshold_eq]; grind)]


theorem pieceCount_of (s : State) (c : Color) (p : Piece) : pieceCount (Variation.of s).s c p = pieceCount s c p := rfl

/-- weight `1.0` is exact -/
theorem mulF_one {e : Int} (he : e.natAbs < 8388608) : Ev.mulF e (mkRat 1 1) = e := by
  have := Ev.mulF_mkRat_bounds e 1 1 (by decide) (by decide) (by decide) he
  eomega

/-- weight `0.8f32`: a value `≤ X` scores at most `(4X+5)/5`, a value `≥ X` at least `(4X-5)/5` -/
theorem mulF_w8 {e : Int} (he : e.natAbs < 8388608) :
    (∀ X : Int, e ≤ X → X ≤ 100000 → 5 * Ev.mulF e (mkRat 13421773 16777216) ≤ 4 * X + 5) ∧
    (∀ X : Int, X ≤ e → -100000 ≤ X → 4 * X - 5 ≤ 5 * Ev.mulF e (mkRat 13421773 16777216)) := by
  have := Ev.mulF_mkRat_bounds e 13421773 16777216 (by decide) (by decide) (by decide) he
  generalize Ev.mulF e (mkRat 13421773 16777216) = r at this
  unfold Eval at *
  constructor
  · intro X h1 h2; omega
  · intro X h1 h2; omega

/-- weight `0.2f32` -/
theorem mulF_w2 {e : Int} (he : e.natAbs < 8388608) :
    (∀ X : Int, e ≤ X → X ≤ 100000 → 5 * Ev.mulF e (mkRat 13421773 67108864) ≤ X + 5) ∧
    (∀ X : Int, X ≤ e → -100000 ≤ X → X - 5 ≤ 5 * Ev.mulF e (mkRat 13421773 67108864)) := by
  have := Ev.mulF_mkRat_bounds e 13421773 67108864 (by decide) (by decide) (by decide) he
  generalize Ev.mulF e (mkRat 13421773 67108864) = r at this
  unfold Eval at *
  constructor
  · intro X h1 h2; omega
  · intro X h1 h2; omega

/-- **The coupled bound.**  One king and at most 16 men a side: from `c`'s perspective
`score ≤ 0.95·material + 1450`, where `material` is the piece-worth difference.  (Every own man contributes at
most `0.8·max(table) + 0.05·worth ≤ 49`, every enemy man at most `0.8·max(-table) - 0.05·worth ≤ 25`; kings,
king-to-the-edge and pawn structure add less than 340 in either regime of `squares_kingedge`.) -/
theorem evalHeuristic_coupled (s : State) (c : Color) (hk : ∀ c, pieceCount s c .king = 1) (hmen : ∀ c, men s c ≤ 16) :
    20 * evalHeuristic (Variation.of s) c ≤
      19 * (evalWorths (Variation.of s) c - evalWorths (Variation.of s) c.opp) + 29000 := by
  obtain ⟨k, KL, KH, hk1, hk2, hsq, hreg⟩ := squares_kingedge s hk hmen
  have hdb := evaluator_diff_bounds (Variation.of s) (egw_bounded s) c
  rw [evalHeuristic_eq, mulF_one (by have := hdb.1; eomega), mulF_one (by have := hdb.2.2.1; eomega)]
  have r2 := (mulF_w8 (e := evalSquares (Variation.of s) c - evalSquares (Variation.of s) c.opp) (by have := hdb.2.1; eomega)).1
  have r4 := (mulF_w2 (e := evalBadPawns (Variation.of s) c - evalBadPawns (Variation.of s) c.opp) (by have := hdb.2.2.2; eomega)).1
    720 hdb.2.2.2.2 (by decide)
  clear hdb
  generalize Ev.mulF (evalSquares (Variation.of s) c - evalSquares (Variation.of s) c.opp) (mkRat 13421773 16777216) = x2 at *
  generalize Ev.mulF (evalBadPawns (Variation.of s) c - evalBadPawns (Variation.of s) c.opp) (mkRat 13421773 67108864) = x4 at *
  have hsc := (hsq c).2; have hso := (hsq c.opp).1
  have kc := hk c; have ko := hk c.opp
  have mc := hmen c; have mo := hmen c.opp
  have hmm : men s .white + men s .black = men s c + men s c.opp := by cases c <;> simp [Color.opp] <;> omega
  have hbase : egwBase s = 6 * (pieceCount s c .pawn + pieceCount s c.opp .pawn) + 16 * (pieceCount s c .queen + pieceCount s c.opp .queen) := by
    unfold egwBase; cases c <;> simp [Color.opp] <;> omega
  rw [men_eq] at mc mo
  replace hk2 : k ≤ egwBase s + (men s c + men s c.opp) := by omega
  rw [men_eq, men_eq] at hk2
  rw [hbase] at hk1 hk2
  clear hmm hbase hsq hk hmen
  rw [evalWorths_eq, evalWorths_eq]
  simp only [pieceCount_of]
  unfold sqHigh at hsc
  unfold sqLow at hso
  generalize evalSquares (Variation.of s) c = SQc at *
  generalize evalSquares (Variation.of s) c.opp = SQo at *
  generalize pieceCount s c .pawn = Pc at *
  generalize pieceCount s c .knight = Nc at *
  generalize pieceCount s c .bishop = Bc at *
  generalize pieceCount s c .rook = Rc at *
  generalize pieceCount s c .queen = Qc at *
  generalize pieceCount s c .king = Kc at *
  generalize pieceCount s c.opp .pawn = Po at *
  generalize pieceCount s c.opp .knight = No at *
  generalize pieceCount s c.opp .bishop = Bo at *
  generalize pieceCount s c.opp .rook = Ro at *
  generalize pieceCount s c.opp .queen = Qo at *
  generalize pieceCount s c.opp .king = Ko at *
  subst kc ko
  rcases hreg with ⟨hA, rfl, rfl, hke, _⟩ | ⟨hB, hKH, hKL, hke⟩
  · have kec := hke c; have keo := hke c.opp
    generalize evalKingEdge (Variation.of s) c = KEc at *
    generalize evalKingEdge (Variation.of s) c.opp = KEo at *
    have r2b := r2 (50 * (Pc : Int) + 20 * Nc + 10 * Bc + 10 * Rc + 5 * Qc + 20 * Po + 50 * No + 20 * Bo + 5 * Ro + 20 * Qo + 90)
      (by eomega) (by eomega)
    clear r2 hsc hso hke
    eomega
  · have kec := hke c; have keo := hke c.opp
    generalize evalKingEdge (Variation.of s) c = KEc at *
    generalize evalKingEdge (Variation.of s) c.opp = KEo at *
    subst kec keo
    have hkk : KH - KL ≤ (k : Int) - 78 := by omega
    have r2b := r2 (50 * (Pc : Int) + 20 * Nc + 10 * Bc + 10 * Rc + 5 * Qc + 20 * Po + 50 * No + 20 * Bo + 5 * Ro + 20 * Qo + KH - KL)
      (by eomega) (by eomega)
    clear r2 hsc hso hke hKH hKL
    eomega


/-! ## arithmetic of the term-by-term bound under the promotion potential (all `omega`, each in a small context) -/

/-- regime A (`k < 160`): the four sign combinations of material and piece-square difference -/
theorem core_A (Pc Nc Bc Rc Qc Po No Bo Ro Qo k E Bp : Nat) (m X1 X2 : Int)
    (hm : m = 100 * (Pc : Int) + 300 * Nc + 350 * Bc + 500 * Rc + 900 * Qc + 10000 * (1 : Nat)
      - (100 * (Po : Int) + 300 * No + 350 * Bo + 500 * Ro + 900 * Qo + 10000 * (1 : Nat)))
    (hX1 : X1 = 50 * (Pc : Int) + 20 * Nc + 10 * Bc + 10 * Rc + 5 * Qc + 40
      - (-20 * (Po : Int) - 50 * No - 20 * Bo - 5 * Ro - 20 * Qo + -50))
    (hX2 : X2 = 50 * (Po : Int) + 20 * No + 10 * Bo + 10 * Ro + 5 * Qo + 40
      - (-20 * (Pc : Int) - 50 * Nc - 20 * Bc - 5 * Rc - 20 * Qc + -50))
    (mc : Pc + Nc + Bc + Rc + Qc + 1 ≤ 16) (mo : Po + No + Bo + Ro + Qo + 1 ≤ 16)
    (fc : 900 * Pc + 300 * Nc + 350 * Bc + 500 * Rc + 900 * Qc < 9000)
    (fo : 900 * Po + 300 * No + 350 * Bo + 500 * Ro + 900 * Qo < 9000)
    (hk1 : 6 * (Pc + Po) + 16 * (Qc + Qo) ≤ k)
    (hE : E ≤ 120) (hE0 : 40 < k → E = 0)
    (hB : Bp ≤ 720) (hBc : Pc = 0 → Bp ≤ 400) (hBo : Po = 0 → Bp ≤ 400) (hB0 : Pc = 0 → Po = 0 → Bp = 0) :
    (m + X1 + E + Bp < 10000) ∧ (m + X2 + E + Bp < 10000) ∧ (-m + X1 + E + Bp < 10000) ∧ (-m + X2 + E + Bp < 10000) := by
  refine ⟨?_, ?_, ?_, ?_⟩ <;> omega

/-- regime B (`k ≥ 159`, king-to-the-edge vanishes, `KH - KL ≤ k - 78`) -/
theorem core_B (Pc Nc Bc Rc Qc Po No Bo Ro Qo k Bp : Nat) (KL KH m X1 X2 : Int)
    (hm : m = 100 * (Pc : Int) + 300 * Nc + 350 * Bc + 500 * Rc + 900 * Qc + 10000 * (1 : Nat)
      - (100 * (Po : Int) + 300 * No + 350 * Bo + 500 * Ro + 900 * Qo + 10000 * (1 : Nat)))
    (hX1 : X1 = 50 * (Pc : Int) + 20 * Nc + 10 * Bc + 10 * Rc + 5 * Qc + KH
      - (-20 * (Po : Int) - 50 * No - 20 * Bo - 5 * Ro - 20 * Qo + KL))
    (hX2 : X2 = 50 * (Po : Int) + 20 * No + 10 * Bo + 10 * Ro + 5 * Qo + KH
      - (-20 * (Pc : Int) - 50 * Nc - 20 * Bc - 5 * Rc - 20 * Qc + KL))
    (mc : Pc + Nc + Bc + Rc + Qc + 1 ≤ 16) (mo : Po + No + Bo + Ro + Qo + 1 ≤ 16)
    (fc : 900 * Pc + 300 * Nc + 350 * Bc + 500 * Rc + 900 * Qc < 9000)
    (fo : 900 * Po + 300 * No + 350 * Bo + 500 * Ro + 900 * Qo < 9000)
    (hk2 : k ≤ 6 * (Pc + Po) + 16 * (Qc + Qo) + (Pc + Nc + Bc + Rc + Qc + 1 + (Po + No + Bo + Ro + Qo + 1)))
    (hD : KH - KL ≤ (k : Int) - 78)
    (hB : Bp ≤ 720) (hBc : Pc = 0 → Bp ≤ 400) (hBo : Po = 0 → Bp ≤ 400) (hB0 : Pc = 0 → Po = 0 → Bp = 0) :
    (m + X1 + (0 : Nat) + Bp < 10000) ∧ (m + X2 + (0 : Nat) + Bp < 10000) ∧
    (-m + X1 + (0 : Nat) + Bp < 10000) ∧ (-m + X2 + (0 : Nat) + Bp < 10000) := by
  refine ⟨?_, ?_, ?_, ?_⟩ <;> omega

theorem ke_abs (KEc KEo : Int) (k : Nat) (kec : -60 ≤ KEc ∧ KEc ≤ 60) (keo : -60 ≤ KEo ∧ KEo ≤ 60)
    (kec0 : KEc ≠ 0 → k ≤ 40) (keo0 : KEo ≠ 0 → k ≤ 40) :
    (KEc - KEo).natAbs ≤ 120 ∧ (40 < k → (KEc - KEo).natAbs = 0) := by
  constructor
  · omega
  · intro h
    have : KEc = 0 := by
      apply Decidable.byContradiction; intro hn; have := kec0 hn; omega
    have : KEo = 0 := by
      apply Decidable.byContradiction; intro hn; have := keo0 hn; omega
    omega

theorem bp_abs (BPc BPo : Int) (Pc Po : Nat) (bc : -720 ≤ BPc ∧ BPc ≤ 0) (bo : -720 ≤ BPo ∧ BPo ≤ 0)
    (bc0 : Pc = 0 → BPc = -400) (bo0 : Po = 0 → BPo = -400) :
    (BPc - BPo).natAbs ≤ 720 ∧ (Pc = 0 → (BPc - BPo).natAbs ≤ 400) ∧ (Po = 0 → (BPc - BPo).natAbs ≤ 400) ∧
    (Pc = 0 → Po = 0 → (BPc - BPo).natAbs = 0) := by
  refine ⟨by omega, fun h => ?_, fun h => ?_, fun h1 h2 => ?_⟩
  · have := bc0 h; omega
  · have := bo0 h; omega
  · have := bc0 h1; have := bo0 h2; omega

theorem sq_abs (SQc SQo Lc Hc Lo Ho : Int) (sc1 : Lc ≤ SQc) (sc2 : SQc ≤ Hc) (so1 : Lo ≤ SQo) (so2 : SQo ≤ Ho) :
    ((SQc - SQo).natAbs : Int) ≤ Hc - Lo ∨ ((SQc - SQo).natAbs : Int) ≤ Ho - Lc := by omega

theorem abs_sum4 (m : Int) (S E B : Nat) (X1 X2 : Int) (hS : (S : Int) ≤ X1 ∨ (S : Int) ≤ X2)
    (h1 : m + X1 + E + B < 10000) (h2 : m + X2 + E + B < 10000)
    (h3 : -m + X1 + E + B < 10000) (h4 : -m + X2 + E + B < 10000) :
    m.natAbs + (S + E + B) < 10000 := by omega

theorem kdiff (k : Nat) (KL KH : Int) (hKH : 160 * KH < 4960 + 70 * ((k : Int) - 159))
    (hKL : -8160 - 90 * ((k : Int) - 159) < 160 * KL) : KH - KL ≤ (k : Int) - 78 := by omega

theorem arith_G_A (Pc Nc Bc Rc Qc Po No Bo Ro Qo k : Nat) (SQc SQo KEc KEo BPc BPo : Int)
    (mc : Pc + Nc + Bc + Rc + Qc + 1 ≤ 16) (mo : Po + No + Bo + Ro + Qo + 1 ≤ 16)
    (fc : 900 * Pc + 300 * Nc + 350 * Bc + 500 * Rc + 900 * Qc < 9000)
    (fo : 900 * Po + 300 * No + 350 * Bo + 500 * Ro + 900 * Qo < 9000)
    (hk1 : 6 * (Pc + Po) + 16 * (Qc + Qo) ≤ k)
    (sc1 : -20 * (Pc : Int) - 50 * Nc - 20 * Bc - 5 * Rc - 20 * Qc + -50 ≤ SQc)
    (sc2 : SQc ≤ 50 * (Pc : Int) + 20 * Nc + 10 * Bc + 10 * Rc + 5 * Qc + 40)
    (so1 : -20 * (Po : Int) - 50 * No - 20 * Bo - 5 * Ro - 20 * Qo + -50 ≤ SQo)
    (so2 : SQo ≤ 50 * (Po : Int) + 20 * No + 10 * Bo + 10 * Ro + 5 * Qo + 40)
    (bc : -720 ≤ BPc ∧ BPc ≤ 0) (bo : -720 ≤ BPo ∧ BPo ≤ 0)
    (bc0 : Pc = 0 → BPc = -400) (bo0 : Po = 0 → BPo = -400)
    (kec : -60 ≤ KEc ∧ KEc ≤ 60) (keo : -60 ≤ KEo ∧ KEo ≤ 60)
    (kec0 : KEc ≠ 0 → k ≤ 40) (keo0 : KEo ≠ 0 → k ≤ 40) :
    (100 * (Pc : Int) + 300 * Nc + 350 * Bc + 500 * Rc + 900 * Qc + 10000 * (1 : Nat)
      - (100 * (Po : Int) + 300 * No + 350 * Bo + 500 * Ro + 900 * Qo + 10000 * (1 : Nat))).natAbs
    + ((SQc - SQo).natAbs + (KEc - KEo).natAbs + (BPc - BPo).natAbs) < 10000 :=
  have hE := ke_abs KEc KEo k kec keo kec0 keo0
  have hB := bp_abs BPc BPo Pc Po bc bo bc0 bo0
  have hS := sq_abs SQc SQo _ _ _ _ sc1 sc2 so1 so2
  have core := core_A Pc Nc Bc Rc Qc Po No Bo Ro Qo k _ _ _ _ _ rfl rfl rfl mc mo fc fo hk1 hE.1 hE.2 hB.1 hB.2.1 hB.2.2.1 hB.2.2.2
  abs_sum4 _ _ _ _ _ _ hS core.1 core.2.1 core.2.2.1 core.2.2.2

theorem arith_G_B (Pc Nc Bc Rc Qc Po No Bo Ro Qo k : Nat) (KL KH SQc SQo BPc BPo : Int)
    (mc : Pc + Nc + Bc + Rc + Qc + 1 ≤ 16) (mo : Po + No + Bo + Ro + Qo + 1 ≤ 16)
    (fc : 900 * Pc + 300 * Nc + 350 * Bc + 500 * Rc + 900 * Qc < 9000)
    (fo : 900 * Po + 300 * No + 350 * Bo + 500 * Ro + 900 * Qo < 9000)
    (hk2 : k ≤ 6 * (Pc + Po) + 16 * (Qc + Qo) + (Pc + Nc + Bc + Rc + Qc + 1 + (Po + No + Bo + Ro + Qo + 1)))
    (hKH : 160 * KH < 4960 + 70 * ((k : Int) - 159)) (hKL : -8160 - 90 * ((k : Int) - 159) < 160 * KL)
    (sc1 : -20 * (Pc : Int) - 50 * Nc - 20 * Bc - 5 * Rc - 20 * Qc + KL ≤ SQc)
    (sc2 : SQc ≤ 50 * (Pc : Int) + 20 * Nc + 10 * Bc + 10 * Rc + 5 * Qc + KH)
    (so1 : -20 * (Po : Int) - 50 * No - 20 * Bo - 5 * Ro - 20 * Qo + KL ≤ SQo)
    (so2 : SQo ≤ 50 * (Po : Int) + 20 * No + 10 * Bo + 10 * Ro + 5 * Qo + KH)
    (bc : -720 ≤ BPc ∧ BPc ≤ 0) (bo : -720 ≤ BPo ∧ BPo ≤ 0)
    (bc0 : Pc = 0 → BPc = -400) (bo0 : Po = 0 → BPo = -400) :
    (100 * (Pc : Int) + 300 * Nc + 350 * Bc + 500 * Rc + 900 * Qc + 10000 * (1 : Nat)
      - (100 * (Po : Int) + 300 * No + 350 * Bo + 500 * Ro + 900 * Qo + 10000 * (1 : Nat))).natAbs
    + ((SQc - SQo).natAbs + 0 + (BPc - BPo).natAbs) < 10000 :=
  have hB := bp_abs BPc BPo Pc Po bc bo bc0 bo0
  have hS := sq_abs SQc SQo _ _ _ _ sc1 sc2 so1 so2
  have core := core_B Pc Nc Bc Rc Qc Po No Bo Ro Qo k _ KL KH _ _ _ rfl rfl rfl mc mo fc fo hk2 (kdiff k KL KH hKH hKL)
    hB.1 hB.2.1 hB.2.2.1 hB.2.2.2
  abs_sum4 _ _ _ _ _ _ hS core.1 core.2.1 core.2.2.1 core.2.2.2


/-! ## the promotion potential -/

/-- the promotion potential of one side: piece worths with every pawn counted as a queen (king excluded) -/
def phi (s : State) (c : Color) : Nat :=
  900 * pieceCount s c .pawn + 300 * pieceCount s c .knight + 350 * pieceCount s c .bishop
    + 500 * pieceCount s c .rook + 900 * pieceCount s c .queen

/-- **The term-by-term bound from the potential.**  One king and at most 16 men a side, and a promotion potential
below 9000 for both sides ⇒ `|Δworths| + |Δsquares| + |Δking-edge| + |Δpawns| < 10000` (all weights taken as 1).
This is the quantity `MaterialBounded` of `Wee/Proofs/MateLemmas.lean` asks to be `< 10000`. -/
theorem termwise_lt_of_potential (s : State) (c : Color) (hk : ∀ c, pieceCount s c .king = 1)
    (hmen : ∀ c, men s c ≤ 16) (hphi : ∀ c, phi s c < 9000) :
    (evalWorths (Variation.of s) c - evalWorths (Variation.of s) c.opp).natAbs +
      ((evalSquares (Variation.of s) c - evalSquares (Variation.of s) c.opp).natAbs
        + (evalKingEdge (Variation.of s) c - evalKingEdge (Variation.of s) c.opp).natAbs
        + (evalBadPawns (Variation.of s) c - evalBadPawns (Variation.of s) c.opp).natAbs) < 10000 := by
  obtain ⟨k, KL, KH, hk1, hk2, hsq, hreg⟩ := squares_kingedge s hk hmen
  have p1 := evalBadPawns_bounds (Variation.of s) c
  have p2 := evalBadPawns_bounds (Variation.of s) c.opp
  have q1 := evalBadPawns_no_pawns (Variation.of s) c
  have q2 := evalBadPawns_no_pawns (Variation.of s) c.opp
  have hsc := hsq c; have hso := hsq c.opp
  have kc := hk c; have ko := hk c.opp
  have mc := hmen c; have mo := hmen c.opp
  have fc := hphi c; have fo := hphi c.opp
  have hmm : men s .white + men s .black = men s c + men s c.opp := by cases c <;> simp [Color.opp] <;> omega
  have hbase : egwBase s = 6 * (pieceCount s c .pawn + pieceCount s c.opp .pawn) + 16 * (pieceCount s c .queen + pieceCount s c.opp .queen) := by
    unfold egwBase; cases c <;> simp [Color.opp] <;> omega
  rw [men_eq] at mc mo
  replace hk2 : k ≤ egwBase s + (men s c + men s c.opp) := by omega
  rw [men_eq, men_eq] at hk2
  rw [hbase] at hk1 hk2
  clear hmm hbase hsq hk hmen hphi
  rw [evalWorths_eq, evalWorths_eq]
  simp only [pieceCount_of] at q1 q2 ⊢
  unfold sqHigh sqLow at hsc hso
  unfold phi at fc fo
  generalize evalSquares (Variation.of s) c = SQc at *
  generalize evalSquares (Variation.of s) c.opp = SQo at *
  generalize evalBadPawns (Variation.of s) c = BPc at *
  generalize evalBadPawns (Variation.of s) c.opp = BPo at *
  generalize pieceCount s c .pawn = Pc at *
  generalize pieceCount s c .knight = Nc at *
  generalize pieceCount s c .bishop = Bc at *
  generalize pieceCount s c .rook = Rc at *
  generalize pieceCount s c .queen = Qc at *
  generalize pieceCount s c .king = Kc at *
  generalize pieceCount s c.opp .pawn = Po at *
  generalize pieceCount s c.opp .knight = No at *
  generalize pieceCount s c.opp .bishop = Bo at *
  generalize pieceCount s c.opp .rook = Ro at *
  generalize pieceCount s c.opp .queen = Qo at *
  generalize pieceCount s c.opp .king = Ko at *
  subst kc ko
  rcases hreg with ⟨hA, rfl, rfl, hke, hke0⟩ | ⟨hB, hKH, hKL, hke⟩
  · exact arith_G_A Pc Nc Bc Rc Qc Po No Bo Ro Qo k SQc SQo _ _ BPc BPo mc mo fc fo hk1 hsc.1 hsc.2 hso.1 hso.2
      p1 p2 q1 q2 (hke c) (hke c.opp) (hke0 c) (hke0 c.opp)
  · have hz : (evalKingEdge (Variation.of s) c - evalKingEdge (Variation.of s) c.opp).natAbs = 0 := by
      rw [hke c, hke c.opp]; rfl
    rw [hz]
    exact arith_G_B Pc Nc Bc Rc Qc Po No Bo Ro Qo k KL KH SQc SQo BPc BPo mc mo fc fo hk2 hKH hKL hsc.1 hsc.2 hso.1 hso.2
      p1 p2 q1 q2

end Wee

namespace Wee.C02
open Wee.C10 (DisjointBoard)

/-! ## weighted piece counts along a move -/

/-- weight of a mailbox cell for colour `c` -/
def cellW (ω : Piece → Nat) (c : Color) : Option (Color × Piece) → Nat
  | some (c', p) => if c' = c then ω p else 0
  | Option.none => 0

/-- weighted number of men of colour `c` on the squares below `N` -/
def prefW (ω : Piece → Nat) (c : Color) (f : Nat → Option (Color × Piece)) (N : Nat) : Nat :=
  ((List.range N).map (fun n => cellW ω c (f n))).sum

theorem prefW_succ (ω : Piece → Nat) (c : Color) (f : Nat → Option (Color × Piece)) (N : Nat) :
    prefW ω c f (N + 1) = prefW ω c f N + cellW ω c (f N) := by
  unfold prefW; rw [List.range_succ, List.map_append, List.sum_append]; simp

/-- writing one cell changes the weighted count by the difference of the two cell weights -/
theorem prefW_upd (ω : Piece → Nat) (c : Color) (f : Nat → Option (Color × Piece)) (sq : Nat)
    (x : Option (Color × Piece)) (N : Nat) :
    (sq < N → prefW ω c (upd f sq x) N + cellW ω c (f sq) = prefW ω c f N + cellW ω c x) ∧
    (N ≤ sq → prefW ω c (upd f sq x) N = prefW ω c f N) := by
  induction N with
  | zero => exact ⟨fun h => absurd h (by omega), fun _ => rfl⟩
  | succ N ih =>
    rw [prefW_succ, prefW_succ]
    constructor
    · intro h
      by_cases e : sq = N
      · subst e
        rw [ih.2 (Nat.le_refl _), upd_same]; omega
      · rw [upd_ne _ _ _ _ (fun e' => e e'.symm)]
        have := ih.1 (by omega); omega
    · intro h
      rw [ih.2 (by omega), upd_ne _ _ _ _ (by omega)]

theorem prefW_upd_le (ω : Piece → Nat) (c : Color) (f : Nat → Option (Color × Piece)) (sq : Nat)
    (x : Option (Color × Piece)) (N : Nat) : prefW ω c (upd f sq x) N ≤ prefW ω c f N + cellW ω c x := by
  by_cases h : sq < N
  · have := (prefW_upd ω c f sq x N).1 h; omega
  · have := (prefW_upd ω c f sq x N).2 (by omega); omega

theorem prefW_upd_none_le (ω : Piece → Nat) (c : Color) (f : Nat → Option (Color × Piece)) (sq : Nat) (N : Nat) :
    prefW ω c (upd f sq Option.none) N ≤ prefW ω c f N := by
  have := prefW_upd_le ω c f sq Option.none N
  simpa [cellW] using this

/-- number of set bits below `N` -/
def prefC (b : UInt64) (N : Nat) : Nat := ((List.range N).filter (test b)).length

theorem prefC_succ (b : UInt64) (N : Nat) : prefC b (N + 1) = prefC b N + (if test b N then 1 else 0) := by
  unfold prefC; rw [List.range_succ, List.filter_append, List.length_append]
  cases h : test b N <;> simp [h]

theorem prefC_64 (b : UInt64) : prefC b 64 = popcount b := rfl

/-- weighted sum over the six piece kinds -/
def wsum (ω : Piece → Nat) (g : Piece → Nat) : Nat :=
  ω .pawn * g .pawn + ω .knight * g .knight + ω .bishop * g .bishop + ω .rook * g .rook + ω .queen * g .queen
    + ω .king * g .king

/-- mailbox weight = weighted bit counts of the six bitboards -/
theorem prefW_eq_wsum (ω : Piece → Nat) (c : Color) {m : PieceMap} {f : Nat → Option (Color × Piece)} (hr : Repr m f)
    (N : Nat) (hN : N ≤ 64) : prefW ω c f N = wsum ω (fun p => prefC (m.get c p) N) := by
  induction N with
  | zero => simp [prefW, prefC, wsum]
  | succ N ih =>
    rw [prefW_succ, ih (by omega)]
    unfold wsum
    simp only [prefC_succ]
    have hc := hr N (by omega)
    have key : cellW ω c (f N) =
        ω .pawn * (if test (m.get c .pawn) N then 1 else 0) + ω .knight * (if test (m.get c .knight) N then 1 else 0)
        + ω .bishop * (if test (m.get c .bishop) N then 1 else 0) + ω .rook * (if test (m.get c .rook) N then 1 else 0)
        + ω .queen * (if test (m.get c .queen) N then 1 else 0) + ω .king * (if test (m.get c .king) N then 1 else 0) := by
      have t : ∀ p, test (m.get c p) N = decide (f N = some (c, p)) := by
        intro p
        have := hc c p
        cases h1 : test (m.get c p) N
        · symm; rw [decide_eq_false_iff_not]; intro e; rw [this.2 e] at h1; cases h1
        · symm; rw [decide_eq_true_eq]; exact this.1 h1
      simp only [t]
      cases hf : f N with
      | none => simp [cellW]
      | some cp =>
        obtain ⟨c', q⟩ := cp
        have hq : q ≠ Piece.none := by
          have := hr N (by omega); rw [hf] at this; exact cellIs_piece_ne_none this
        by_cases hcc : c' = c
        · subst hcc
          cases q <;> first | exact absurd rfl hq | simp [cellW]
        · have : ∀ p, ¬ (some (c', q) = some (c, p)) := by
            intro p e; exact hcc (congrArg Prod.fst (Option.some.inj e))
          simp [cellW, hcc, this]
    rw [key]
    simp only [Nat.mul_add]
    omega


theorem cellW_some (ω : Piece → Nat) (c c' : Color) (p : Piece) :
    cellW ω c (some (c', p)) = if c' = c then ω p else 0 := rfl

/-- **no move increases a weighted count** (captures remove, castling relocates, promotion replaces a pawn by a
piece that weighs no more than a pawn): the mailbox of the successor weighs at most the mailbox of `s` -/
theorem prefW_expected_le (ω : Piece → Nat) (hω : ∀ r, ω r ≤ ω .pawn) (c : Color) {s : State} {mv : Move} {p : Piece}
    (h : MFits s mv p) : prefW ω c (expectedF s mv p) 64 ≤ prefW ω c s.pieces.pieceAt 64 := by
  -- origin cleared, victim removed, mover put down
  have hmid : prefW ω c (midF s mv p) 64 ≤ prefW ω c s.pieces.pieceAt 64 := by
    unfold midF
    simp only []
    have h1 := (prefW_upd ω c s.pieces.pieceAt (Move.origin mv) Option.none 64).1 h.o_lt
    rw [h.mover] at h1
    have h1' : prefW ω c (upd s.pieces.pieceAt (Move.origin mv) Option.none) 64 + cellW ω c (some (s.turn, p)) =
        prefW ω c s.pieces.pieceAt 64 := by simpa [cellW] using h1
    have h2 : prefW ω c (if Move.isEnPassant mv = true then
          upd (upd s.pieces.pieceAt (Move.origin mv) Option.none) (Move.origin mv / 8 * 8 + Move.dest mv % 8) Option.none
        else upd s.pieces.pieceAt (Move.origin mv) Option.none) 64 ≤
        prefW ω c (upd s.pieces.pieceAt (Move.origin mv) Option.none) 64 := by
      split
      · exact prefW_upd_none_le ω c _ _ 64
      · exact Nat.le_refl _
    have h3 := prefW_upd_le ω c (if Move.isEnPassant mv = true then
          upd (upd s.pieces.pieceAt (Move.origin mv) Option.none) (Move.origin mv / 8 * 8 + Move.dest mv % 8) Option.none
        else upd s.pieces.pieceAt (Move.origin mv) Option.none) (Move.dest mv) (some (s.turn, p)) 64
    omega
  -- promotion
  have hpromo : prefW ω c (promoF s mv p) 64 ≤ prefW ω c (midF s mv p) 64 := by
    unfold promoF
    cases hpr : Move.promotion mv with
    | none => exact Nat.le_refl _
    | some r =>
      simp only []
      have hp := (h.promo r hpr).1
      subst hp
      have h1 := (prefW_upd ω c (midF s mv Piece.pawn) (Move.dest mv) (some (s.turn, r)) 64).1 h.d_lt
      rw [midF_dest, cellW_some, cellW_some] at h1
      have := hω r
      split at h1 <;> omega
  -- castling
  have hcastle : prefW ω c (expectedF s mv p) 64 ≤ prefW ω c (promoF s mv p) 64 := by
    unfold expectedF
    cases hcs : Move.castleSide mv with
    | none => exact Nat.le_refl _
    | some sd =>
      obtain ⟨hpk, hcap, hpr, ho, hsd⟩ := h.castle sd hcs
      obtain ⟨hep, _⟩ := h.quiet hcap
      have hF : promoF s mv p = upd (upd s.pieces.pieceAt (Move.origin mv) Option.none) (Move.dest mv) (some (s.turn, p)) := by
        unfold promoF midF; simp only [hpr, hep, Bool.false_eq_true, if_false]
      have ho' := homeSq_cases s.turn
      rw [← ho] at ho'
      cases sd with
      | king =>
        simp only [] at hsd ⊢
        obtain ⟨hd, hr, he⟩ := hsd
        have hg : promoF s mv p (Move.origin mv + 3) = some (s.turn, Piece.rook) := by
          rw [hF, upd_ne _ _ _ _ (by omega), upd_ne _ _ _ _ (by omega)]; exact hr
        have h1 := (prefW_upd ω c (promoF s mv p) (Move.origin mv + 3) Option.none 64).1 (by omega)
        rw [hg] at h1
        have h2 := prefW_upd_le ω c (upd (promoF s mv p) (Move.origin mv + 3) Option.none) (Move.origin mv + 1)
          (some (s.turn, Piece.rook)) 64
        have : cellW ω c (Option.none : Option (Color × Piece)) = 0 := rfl
        omega
      | queen =>
        simp only [] at hsd ⊢
        obtain ⟨hd, hr, he⟩ := hsd
        have hg : promoF s mv p (Move.origin mv - 4) = some (s.turn, Piece.rook) := by
          rw [hF, upd_ne _ _ _ _ (by omega), upd_ne _ _ _ _ (by omega)]; exact hr
        have h1 := (prefW_upd ω c (promoF s mv p) (Move.origin mv - 4) Option.none 64).1 (by omega)
        rw [hg] at h1
        have h2 := prefW_upd_le ω c (upd (promoF s mv p) (Move.origin mv - 4) Option.none) (Move.origin mv - 1)
          (some (s.turn, Piece.rook)) 64
        have : cellW ω c (Option.none : Option (Color × Piece)) = 0 := rfl
        omega
  omega

/-- the weighted count of a state -/
def stateW (ω : Piece → Nat) (s : State) (c : Color) : Nat := wsum ω (fun p => popcount (s.pieces.get c p))

theorem stateW_eq (ω : Piece → Nat) (s : State) (c : Color) (hd : DisjointBoard s.pieces) :
    stateW ω s c = prefW ω c s.pieces.pieceAt 64 := by
  rw [prefW_eq_wsum ω c (repr_pieceAt hd) 64 (Nat.le_refl _)]; rfl

/-- **weighted counts never grow along a listed legal move** (legal position without overlaps) -/
theorem stateW_succ_le (ω : Piece → Nat) (hω : ∀ r, ω r ≤ ω .pawn) (s : State) (hl : LegalPos s = true)
    (hd : DisjointBoard s.pieces) (r : Move × State) (hr : r ∈ legalMoves s) (c : Color) :
    stateW ω r.2 c ≤ stateW ω s c := by
  obtain ⟨sm, hfit⟩ := C02_generatedMovesFit s hl hd r hr
  obtain ⟨p, hm, _⟩ := fits_model hfit
  obtain ⟨map, hpm, hrep⟩ := perform_repr hm
  have hperf := mem_legalMoves hr
  rw [hpm] at hperf
  simp only [Option.some.injEq, Except.ok.injEq] at hperf
  have hmap : r.2.pieces = map := by rw [← hperf]; rfl
  have h1 : stateW ω r.2 c = prefW ω c (expectedF s r.1 p) 64 := by
    rw [prefW_eq_wsum ω c hrep 64 (Nat.le_refl _), ← hmap]; rfl
  rw [h1, stateW_eq ω s c hd]
  exact prefW_expected_le ω hω c hm


theorem popcount_bit : ∀ q : Fin 64, popcount (bit q.val) = 1 := by decide

/-- a legal position without overlaps has exactly one king of either colour, as a bit count -/
theorem oneKingEach_of_legal (s : State) (hl : LegalPos s = true) (hd : DisjointBoard s.pieces) (c : Color) :
    popcount (s.pieces.get c .king) = 1 := by
  have hl' := hl
  unfold LegalPos Spec.LegalPos at hl'
  simp only [Bool.and_eq_true, beq_iff_eq] at hl'
  obtain ⟨⟨⟨⟨⟨⟨⟨⟨⟨_, hw⟩, hb⟩, _⟩, _⟩, _⟩, _⟩, _⟩, _⟩, _⟩ := hl'
  have hc : Spec.count (abs s) (absColor c) Spec.Kind.king = 1 := by
    cases c
    · exact hw
    · exact hb
  obtain ⟨q, hq, hat, huniq⟩ := (count_eq_one_iff _ _ _).1 hc
  have key : ∀ n, n < 64 → (test (s.pieces.get c .king) n = true ↔ (abs s).at n = some (absColor c, Spec.Kind.king)) := by
    intro n _
    rw [C10.abs_at, C10.absCell_iff hd]
    constructor
    · intro ht; exact ⟨Piece.king, rfl, ht⟩
    · rintro ⟨p, hp, ht⟩
      have : p = Piece.king := by cases p <;> simp [absKind] at hp ⊢
      subst this; exact ht
  have hb : s.pieces.get c .king = bit q := by
    apply ext
    intro n hn
    rw [test_bit q n hq]
    cases ht : test (s.pieces.get c .king) n
    · symm; rw [decide_eq_false_iff_not]; intro e; subst e
      rw [(key q hq).2 hat] at ht; cases ht
    · symm; rw [decide_eq_true_eq]
      exact (huniq n hn ((key n hn).1 ht)).symm
  rw [hb]
  exact popcount_bit ⟨q, hq⟩

end Wee.C02
