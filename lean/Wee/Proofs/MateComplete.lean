import Wee.Proofs.MateRoot
/-!
# C06 completeness, part 1: forced mates that avoid the recorded positions; the node-level induction

`analyze_recursive` values every non-root node whose key is recorded in the state history as a draw.  A forced mate
is therefore only *visible* to the search if its strategy tree avoids recorded keys: `fmH K H n s` / `liH K H n s`
are the solver `forcedMate n` / `lostIn n` of `Spec/Outcome.lean` with that extra condition on every successor.

The induction (`searchNode_complete`) shows, for a fail-hard node with window `(α, β)` and remaining depth `rem`:

* `fmH rem s`  ⇒ the value is `≥ min β POS_INF`;
* `liH rem s`  ⇒ the value is `≤ max α NEG_INF`;

given the table invariant `CompleteTT` (which every write of the node re-establishes).
-/
namespace Wee.C06
open Wee Wee.Search Wee.Outcome

/-! ## 1. the history-aware solver -/

/-- the key of `s` is recorded in the history `H` -/
def inHist (K : Keys) (H : List UInt64) (s : State) : Bool := H.contains (hash K s)

mutual
/-- the side to move can force checkmate within `n` plies by a strategy none of whose positions (after the first
move) has a recorded key -/
def fmH (K : Keys) (H : List UInt64) : Nat → State → Bool
  | 0, _ => false
  | n+1, s => (legalMoves s).any fun r => !inHist K H r.2 && liH K H n r.2
/-- the side to move is checkmated, or every legal move leads to an unrecorded position in which the opponent
forces mate (avoiding recorded positions) within `n` plies -/
def liH (K : Keys) (H : List UInt64) : Nat → State → Bool
  | 0, s => isMated s
  | n+1, s =>
    let ms := legalMoves s
    if ms.isEmpty then s.isCheck else ms.all fun r => !inHist K H r.2 && fmH K H n r.2
end

section solver
variable (K : Keys) (H : List UInt64)

theorem fmH_succ_iff (n : Nat) (s : State) :
    fmH K H (n+1) s = true ↔ ∃ r ∈ legalMoves s, inHist K H r.2 = false ∧ liH K H n r.2 = true := by
  rw [fmH.eq_2, List.any_eq_true]
  constructor
  · rintro ⟨r, hr, h⟩
    rw [Bool.and_eq_true, Bool.not_eq_true'] at h
    exact ⟨r, hr, h.1, h.2⟩
  · rintro ⟨r, hr, h1, h2⟩
    exact ⟨r, hr, by rw [h1, h2]; rfl⟩

theorem liH_succ_child {n : Nat} {s : State} (h : liH K H (n+1) s = true) {r : Move × State}
    (hr : r ∈ legalMoves s) : inHist K H r.2 = false ∧ fmH K H n r.2 = true := by
  rw [liH.eq_2] at h
  have hne : ¬ (legalMoves s).isEmpty = true := by
    intro he
    rw [List.isEmpty_iff] at he
    rw [he] at hr; exact nomatch hr
  simp only [if_neg hne, List.all_eq_true] at h
  have := h r hr
  rw [Bool.and_eq_true, Bool.not_eq_true'] at this
  exact this

theorem liH_succ_of_children {n : Nat} {s : State} (hne : legalMoves s ≠ [])
    (h : ∀ r ∈ legalMoves s, inHist K H r.2 = false ∧ fmH K H n r.2 = true) : liH K H (n+1) s = true := by
  rw [liH.eq_2]
  have hne' : ¬ (legalMoves s).isEmpty = true := by
    intro he; exact hne (List.isEmpty_iff.1 he)
  simp only [if_neg hne', List.all_eq_true]
  intro r hr
  rw [(h r hr).1, (h r hr).2]; rfl

/-- a lost position without a legal move is in check (mated) -/
theorem liH_nomoves {n : Nat} {s : State} (h : liH K H n s = true) (he : legalMoves s = []) :
    s.isCheck = true := by
  cases n with
  | zero =>
    rw [liH.eq_1] at h
    unfold isMated at h
    rw [Bool.and_eq_true] at h
    exact h.2
  | succ n =>
    rw [liH.eq_2] at h
    simp only [he, List.isEmpty_nil, if_true] at h
    exact h

theorem liH_zero_nomoves {s : State} (h : liH K H 0 s = true) : legalMoves s = [] := by
  rw [liH.eq_1] at h
  unfold isMated at h
  rw [Bool.and_eq_true] at h
  exact List.isEmpty_iff.1 h.1

theorem fmH_moves {n : Nat} {s : State} (h : fmH K H n s = true) : legalMoves s ≠ [] := by
  cases n with
  | zero => rw [fmH.eq_1] at h; cases h
  | succ n =>
    obtain ⟨r, hr, _⟩ := (fmH_succ_iff K H n s).1 h
    intro he; rw [he] at hr; exact nomatch hr

theorem solverH_mono (n : Nat) : ∀ s, (fmH K H n s = true → fmH K H (n+1) s = true) ∧
    (liH K H n s = true → liH K H (n+1) s = true) := by
  induction n with
  | zero =>
    intro s
    refine ⟨fun h => ?_, fun h => ?_⟩
    · rw [fmH.eq_1] at h; cases h
    · have he := liH_zero_nomoves K H h
      have hc := liH_nomoves K H h he
      rw [liH.eq_2]
      simp only [he, List.isEmpty_nil, if_true]
      exact hc
  | succ n ih =>
    intro s
    refine ⟨fun h => ?_, fun h => ?_⟩
    · obtain ⟨r, hr, h1, h2⟩ := (fmH_succ_iff K H n s).1 h
      exact (fmH_succ_iff K H (n+1) s).2 ⟨r, hr, h1, (ih r.2).2 h2⟩
    · by_cases he : legalMoves s = []
      · have hc := liH_nomoves K H h he
        rw [liH.eq_2]
        simp only [he, List.isEmpty_nil, if_true]
        exact hc
      · exact liH_succ_of_children K H he fun r hr =>
          ⟨(liH_succ_child K H h hr).1, (ih r.2).1 (liH_succ_child K H h hr).2⟩

theorem fmH_le {n m : Nat} (hnm : n ≤ m) {s : State} (h : fmH K H n s = true) : fmH K H m s = true := by
  induction hnm with
  | refl => exact h
  | step _ ih => exact (solverH_mono K H _ s).1 ih

theorem liH_le {n m : Nat} (hnm : n ≤ m) {s : State} (h : liH K H n s = true) : liH K H m s = true := by
  induction hnm with
  | refl => exact h
  | step _ ih => exact (solverH_mono K H _ s).2 ih

/-- the history-aware solver only finds true forced mates -/
theorem solverH_sub (n : Nat) : ∀ s, (fmH K H n s = true → forcedMate n s = true) ∧
    (liH K H n s = true → lostIn n s = true) := by
  induction n with
  | zero =>
    intro s
    refine ⟨fun h => ?_, fun h => ?_⟩
    · rw [fmH.eq_1] at h; cases h
    · rw [liH.eq_1] at h; rw [lostIn.eq_1]; exact h
  | succ n ih =>
    intro s
    refine ⟨fun h => ?_, fun h => ?_⟩
    · obtain ⟨r, hr, _, h2⟩ := (fmH_succ_iff K H n s).1 h
      rw [forcedMate.eq_2, List.any_eq_true]
      exact ⟨r, hr, (ih r.2).2 h2⟩
    · rw [lostIn.eq_2]
      by_cases he : legalMoves s = []
      · have hc := liH_nomoves K H h he
        simp only [he, List.isEmpty_nil, if_true]
        exact hc
      · have hne' : ¬ (legalMoves s).isEmpty = true := fun h' => he (List.isEmpty_iff.1 h')
        simp only [if_neg hne', List.all_eq_true]
        exact fun r hr => (ih r.2).1 (liH_succ_child K H h hr).2

end solver

/-! ### facts about the plain solver -/

theorem forcedMate_le {n m : Nat} (hnm : n ≤ m) {s : State} (h : forcedMate n s = true) : forcedMate m s = true := by
  induction hnm with
  | refl => exact h
  | step _ ih => exact (solver_mono _ s).1 ih

theorem lostIn_le {n m : Nat} (hnm : n ≤ m) {s : State} (h : lostIn n s = true) : lostIn m s = true := by
  induction hnm with
  | refl => exact h
  | step _ ih => exact (solver_mono _ s).2 ih

theorem lostIn_succ_child {n : Nat} {s : State} (h : lostIn (n+1) s = true) {r : Move × State}
    (hr : r ∈ legalMoves s) : forcedMate n r.2 = true := by
  rw [lostIn.eq_2] at h
  have hne : ¬ (legalMoves s).isEmpty = true := by
    intro he
    rw [List.isEmpty_iff] at he
    rw [he] at hr; exact nomatch hr
  simp only [if_neg hne, List.all_eq_true] at h
  exact h r hr

theorem lostIn_zero_nomoves {s : State} (h : lostIn 0 s = true) : legalMoves s = [] := by
  rw [lostIn.eq_1] at h
  unfold isMated at h
  rw [Bool.and_eq_true] at h
  exact List.isEmpty_iff.1 h.1

/-- nobody both wins and loses -/
theorem win_lost_excl : ∀ (n m : Nat) (s : State), forcedMate n s = true → lostIn m s = true → False := by
  intro n
  induction n with
  | zero => intro m s h _; rw [forcedMate.eq_1] at h; cases h
  | succ n ih =>
    intro m s hw hl
    rw [forcedMate.eq_2, List.any_eq_true] at hw
    obtain ⟨r, hr, hrl⟩ := hw
    cases m with
    | zero =>
      have := lostIn_zero_nomoves hl
      rw [this] at hr; exact nomatch hr
    | succ m =>
      have hc := lostIn_succ_child hl hr
      -- `r.2` is won within `m` and lost within `n`: swap roles
      cases m with
      | zero => rw [forcedMate.eq_1] at hc; cases hc
      | succ m =>
        rw [forcedMate.eq_2, List.any_eq_true] at hc
        obtain ⟨r', hr', hrl'⟩ := hc
        cases n with
        | zero =>
          have := lostIn_zero_nomoves hrl
          rw [this] at hr'; exact nomatch hr'
        | succ n =>
          have hc' := lostIn_succ_child hrl hr'
          exact ih m r'.2 (forcedMate_le (Nat.le_succ n) hc') hrl'

/-! ## 2. complete values, complete table entries -/

/-- what completeness asks of a value returned for a node with window `(α, β)` and remaining depth `rem`:
a visible forced mate within `rem` plies is reported as a fail-high or a winning score, a visible forced loss
within `rem` plies as a fail-low or a losing score -/
def CVal (K : Keys) (H : List UInt64) (s : State) (rem : Nat) (α β r : Eval) : Prop :=
  (fmH K H rem s = true → β ≤ r ∨ 10000 ≤ r) ∧ (liH K H rem s = true → r ≤ α ∨ r ≤ -10000)

/-- what completeness asks of a stored entry `e` for a position `s` with its key (`R = e.maxDepth - e.depth` is the
remaining depth it was searched with; only depths up to the bound `B` are constrained): an `Exact` (or `UpperBound`)
value is winning when `s` is a visible forced mate within `R`; an `Exact` or `LowerBound` value is losing when `s` is
a visible forced loss within `R` (a cut-off `ev ≥ β` in a lost position can only happen with `β ≤ NEG_INF`). -/
def CompleteEntry (K : Keys) (H : List UInt64) (B : Nat) (s : State) (e : TT.Entry) : Prop :=
  ∀ k, k ≤ e.maxDepth - e.depth → k ≤ B →
    ((e.kind = kindExact ∨ e.kind = kindUpper) → fmH K H k s = true → 10000 ≤ e.eval) ∧
    (e.kind ≠ kindUpper → liH K H k s = true → e.eval ≤ -10000)

/-- every entry found under the key of a position of the domain is complete for that position -/
def CompleteTT (K : Keys) (H : List UInt64) (D : State → Prop) (B : Nat) (tt : TT.Access) : Prop :=
  ∀ s e, D s → tt.find (hash K s).toNat = some e → CompleteEntry K H B s e

/-- no harmful key collision for completeness: positions of the domain with the same key have the same visible mate
distances up to `B` -/
def CollH (K : Keys) (H : List UInt64) (D : State → Prop) (B : Nat) : Prop :=
  ∀ s s', D s → D s' → hash K s = hash K s' → ∀ n, n ≤ B →
    fmH K H n s = fmH K H n s' ∧ liH K H n s = liH K H n s'

theorem CompleteEntry.transfer {K : Keys} {H : List UInt64} {D : State → Prop} {B : Nat} (coll : CollH K H D B)
    {s s' : State} (hs : D s) (hs' : D s') (hk : hash K s = hash K s') {e : TT.Entry}
    (he : CompleteEntry K H B s e) : CompleteEntry K H B s' e := by
  intro k hk1 hk2
  obtain ⟨c1, c2⟩ := coll s s' hs hs' hk k hk2
  rw [← c1, ← c2]
  exact he k hk1 hk2

/-- shape invariant of the table plus completeness of its entries -/
def CInv (K : Keys) (H : List UInt64) (D : State → Prop) (B L nT nB : Nat) (st : St) : Prop :=
  TT.AInv L nT nB st.tt ∧ CompleteTT K H D B st.tt

theorem CInv.insert {K : Keys} {H : List UInt64} {D : State → Prop} {B L nT nB : Nat} (g : Geo L nT nB)
    (coll : CollH K H D B) {st : St} (h : CInv K H D B L nT nB st) {s : State} (hs : D s) {e : TT.Entry}
    (he : CompleteEntry K H B s e) :
    CInv K H D B L nT nB { st with tt := st.tt.insert (hash K s).toNat e } := by
  refine ⟨h.1.insert g.hL g.hT g.hB _ _, fun s' e' hs' hf => ?_⟩
  by_cases hk : (hash K s').toNat = (hash K s).toNat
  · change (st.tt.insert (hash K s).toNat e).find (hash K s').toNat = some e' at hf
    rw [hk, h.1.find_insert_self g.hL g.hT g.hB] at hf
    cases hf
    exact he.transfer coll hs hs' (UInt64.toNat_inj.1 hk.symm)
  · change (st.tt.insert (hash K s).toNat e).find (hash K s').toNat = some e' at hf
    rcases h.1.find_insert_other g.hL g.hT g.hB (hash K s).toNat e _ hk with h1 | h1
    · rw [h1] at hf; cases hf
    · rw [h1] at hf; exact h.2 s' e' hs' hf

/-! ## 3. helpers for triples -/

theorem Triple.pre_pure {α : Type} {P : St → Prop} {x : M α} {Q : α → St → Prop} {φ : Prop}
    (hφ : ∀ st, P st → φ) (h : φ → Triple P x Q) : Triple P x Q := fun st hp => h (hφ st hp) st hp

/-- the static evaluation of a checkmated position -/
theorem evaluate_mated {s : State} {d : Nat} {e : Eval} (hl : legalMoves? s = some []) (hc : s.isCheck = true)
    (h : evaluate s s.turn d = some e) : e = - Ev.mateInPly d := by
  unfold evaluate at h
  cases hk : kingHasMove s with
  | none => rw [hk] at h; cases h
  | some khm =>
    rw [hk] at h
    simp only [hc, Bool.or_true, if_true, hl, List.isEmpty_nil, Bool.and_self, beq_self_eq_true] at h
    exact (Option.some.inj h).symm

theorem neg_mate_le (d : Nat) : - Ev.mateInPly d ≤ (-10000 : Eval) := by
  have := mateInPly_ge d
  eomega

/-! ## 4. the move loop -/

/-- invariant of the running `alpha` / `best_move` of the move loop (completeness part) -/
def CLoopInv (K : Keys) (H : List UInt64) (s : State) (rem' : Nat) (α₀ β alpha : Eval) (best : Option Move) : Prop :=
  α₀ ≤ alpha ∧ alpha < β ∧ (best ≠ Option.none → α₀ < alpha) ∧
  (liH K H (rem'+1) s = true → alpha ≤ α₀ ∨ alpha ≤ -10000)

/-- postcondition of the move loop over the moves `l`, started with `alpha` and at least `m` counted nodes -/
def CLoopPost (K : Keys) (H : List UInt64) (D : State → Prop) (B L nT nB : Nat) (s : State) (rem' : Nat)
    (α₀ β : Eval) (l : List Move) (alpha : Eval) (m : Nat) :
    Except Eval (Eval × Option Move × Nat) → St → Prop
  | .error b, st' => CInv K H D B L nT nB st' ∧ m ≤ st'.nodes ∧ b = β ∧ (liH K H (rem'+1) s = true → β ≤ -10000)
  | .ok (alpha', best', _), st' => CInv K H D B L nT nB st' ∧ m ≤ st'.nodes ∧
      ((∃ mv ∈ l, ∃ r, tryAsLegal s mv = some (some r)) → m < st'.nodes) ∧ alpha ≤ alpha' ∧
      CLoopInv K H s rem' α₀ β alpha' best' ∧
      ((∃ r ∈ legalMoves s, r.1 ∈ l ∧ inHist K H r.2 = false ∧ liH K H rem' r.2 = true) → 10000 ≤ alpha')

/-- what the induction provides for a child call: the table invariant, at least one more counted node, and — unless
the child is cut by the history — a complete value -/
def ChildSpec (K : Keys) (H : List UInt64) (D : State → Prop) (B L nT nB : Nat) (rem' : Nat)
    (child : NodeArgs → M Eval) : Prop :=
  ∀ args : NodeArgs, D args.s → args.alpha < args.beta → args.maxDepth = args.curDepth + rem' →
    args.prioritized = Option.none → 0 < args.curDepth → ∀ n,
    Triple (fun st => CInv K H D B L nT nB st ∧ n ≤ st.nodes) (child args)
      (fun r st' => CInv K H D B L nT nB st' ∧ n < st'.nodes ∧
        (inHist K H args.s = false → CVal K H args.s rem' args.alpha args.beta r))

theorem kindLower_ne : ¬ (kindLower = kindExact ∨ kindLower = kindUpper) := by decide

theorem childLoop_complete {K : Keys} {H : List UInt64} {D : State → Prop} {B L nT nB : Nat} (g : Geo L nT nB)
    (dom : Domain K D) (coll : CollH K H D B) (ctx : Ctx) (child : NodeArgs → M Eval) (a : NodeArgs) (rem' : Nat)
    (α₀ : Eval) (hD : D a.s) (hrem : a.maxDepth = a.curDepth + (rem' + 1))
    (hchild : ChildSpec K H D B L nT nB rem' child) :
    ∀ (l : List Move) (alpha : Eval) (best : Option Move) (kind : Nat) (m : Nat),
      (∀ mv ∈ l, ∀ r, tryAsLegal a.s mv = some (some r) → r ∈ legalMoves a.s) →
      CLoopInv K H a.s rem' α₀ a.beta alpha best →
      Triple (fun st => CInv K H D B L nT nB st ∧ m ≤ st.nodes)
        (childLoop ctx child a (hash K a.s) l alpha best kind)
        (CLoopPost K H D B L nT nB a.s rem' α₀ a.beta l alpha m) := by
  obtain ⟨ms, hms⟩ := dom.gen hD
  intro l
  induction l with
  | nil =>
    intro alpha best kind m _ hinv
    rw [childLoop.eq_1]
    refine Triple.pure fun st hp => ⟨hp.1, hp.2, ?_, Int.le_refl _, hinv, ?_⟩
    · rintro ⟨mv, hmv, _⟩; exact nomatch hmv
    · rintro ⟨r, _, hr, _⟩; exact nomatch hr
  | cons mv rest ih =>
    intro alpha best kind m hleg hinv
    have hleg' : ∀ mv ∈ rest, ∀ r, tryAsLegal a.s mv = some (some r) → r ∈ legalMoves a.s :=
      fun mv' h' => hleg mv' (List.mem_cons_of_mem _ h')
    rw [childLoop.eq_2]
    cases ht : tryAsLegal a.s mv with
    | none => exact Triple.throw
    | some o =>
      cases o with
      | none =>
        simp only
        refine (ih alpha best kind m hleg' hinv).conseq (fun _ hp => hp) ?_
        rintro (b | ⟨alpha', best', kind'⟩) st' hp
        · exact hp
        · obtain ⟨p1, p2, p3, p4, p5, p6⟩ := hp
          refine ⟨p1, p2, ?_, p4, p5, ?_⟩
          · rintro ⟨mv', hmv', r, hr⟩
            rcases List.mem_cons.1 hmv' with h1 | h1
            · rw [h1, ht] at hr; cases hr
            · exact p3 ⟨mv', h1, r, hr⟩
          · rintro ⟨r, hr, hmem, h1, h2⟩
            rcases List.mem_cons.1 hmem with h3 | h3
            · have := try_of_legal hms hr
              rw [h3, ht] at this; cases this
            · exact p6 ⟨r, hr, h3, h1, h2⟩
      | some mn =>
        obtain ⟨mm, next⟩ := mn
        simp only
        have hr : (mm, next) ∈ legalMoves a.s := hleg mv List.mem_cons_self _ ht
        obtain ⟨h0, hβ, hbest, hlost⟩ := hinv
        -- every legal move with move word `mv` is `(mm, next)`
        have huniq : ∀ r ∈ legalMoves a.s, r.1 = mv → r = (mm, next) := by
          intro r hr' h1
          have := try_of_legal hms hr'
          rw [h1, ht] at this
          cases this; rfl
        have hacc : ∃ mv' ∈ mv :: rest, ∃ r, tryAsLegal a.s mv' = some (some r) :=
          ⟨mv, List.mem_cons_self, _, ht⟩
        refine Triple.bind (hchild _ (dom.closed _ hD _ hr) (by show -a.beta < -alpha; eomega)
          (by show a.maxDepth + _ = a.curDepth + 1 + _ + rem'; omega) rfl (by show 0 < a.curDepth + 1 + _; omega) m) ?_
        intro v
        -- facts about the child's value, available once the child is known not to be cut by the history
        refine Triple.pre_pure (φ := inHist K H next = false → CVal K H next rem' (-a.beta) (-alpha) v)
          (fun st hp => hp.2.2) fun hv => ?_
        -- a visible loss of this node makes the child a visible win, so `ev ≤ max alpha NEG_INF`
        have hL : liH K H (rem'+1) a.s = true → -v ≤ alpha ∨ -v ≤ -10000 := by
          intro hl
          obtain ⟨c1, c2⟩ := liH_succ_child K H hl hr
          rcases (hv c1).1 c2 with h | h
          · left; eomega
          · right; eomega
        -- if this move is the strategy move the child is a visible loss, so `ev ≥ min beta POS_INF`
        have hW : inHist K H next = false → liH K H rem' next = true → a.beta ≤ -v ∨ 10000 ≤ -v := by
          intro c1 c2
          rcases (hv c1).2 c2 with h | h
          · left; eomega
          · right; eomega
        by_cases hcut : -v ≥ a.beta
        · rw [if_pos hcut]
          have hβlost : liH K H (rem'+1) a.s = true → a.beta ≤ -10000 := by
            intro hl
            have h1 := hL hl
            have h2 := hlost hl
            eomega
          refine Triple.bind (R := fun _ st' => CInv K H D B L nT nB st' ∧ m ≤ st'.nodes)
            (Triple.modify fun st hp => ⟨CInv.insert g coll hp.1 hD ?_, Nat.le_of_lt hp.2.1⟩)
            fun _ => Triple.pure fun st hp => ⟨hp.1, hp.2, rfl, hβlost⟩
          intro k hk1 hk2
          refine ⟨fun hk => absurd hk kindLower_ne, fun _ hl => hβlost (liH_le K H ?_ hl)⟩
          have : k ≤ a.maxDepth - a.curDepth := hk1
          omega
        · rw [if_neg hcut]
          by_cases hgt : -v > alpha
          · rw [if_pos hgt]
            refine (ih (-v) (some mm) kindExact (m + 1) hleg'
              ⟨by eomega, by eomega, fun _ => by eomega, fun hl => ?_⟩).conseq
              (fun st hp => ⟨hp.1, hp.2.1⟩) ?_
            · have := hL hl; right; eomega
            · rintro (b | ⟨alpha', best', kind'⟩) st' hp
              · exact ⟨hp.1, by have := hp.2.1; omega, hp.2.2⟩
              · obtain ⟨p1, p2, p3, p4, p5, p6⟩ := hp
                refine ⟨p1, by omega, fun _ => by omega, by eomega, p5, ?_⟩
                rintro ⟨r, hr', hmem, h1, h2⟩
                rcases List.mem_cons.1 hmem with h3 | h3
                · have hre := huniq r hr' h3
                  subst hre
                  have := hW h1 h2
                  eomega
                · exact p6 ⟨r, hr', h3, h1, h2⟩
          · rw [if_neg hgt]
            refine (ih alpha best kind (m + 1) hleg' ⟨h0, hβ, hbest, hlost⟩).conseq
              (fun st hp => ⟨hp.1, hp.2.1⟩) ?_
            rintro (b | ⟨alpha', best', kind'⟩) st' hp
            · exact ⟨hp.1, by have := hp.2.1; omega, hp.2.2⟩
            · obtain ⟨p1, p2, p3, p4, p5, p6⟩ := hp
              refine ⟨p1, by omega, fun _ => by omega, p4, p5, ?_⟩
              rintro ⟨r, hr', hmem, h1, h2⟩
              rcases List.mem_cons.1 hmem with h3 | h3
              · have hre := huniq r hr' h3
                subst hre
                have := hW h1 h2
                eomega
              · exact p6 ⟨r, hr', h3, h1, h2⟩

/-! ## 5. the node after the table probe -/

/-- quiescence at remaining depth 0: only "checkmated now" has to be recognised -/
theorem tail_leaf_complete {K : Keys} {H : List UInt64} {D : State → Prop} {B L nT nB : Nat} (dom : Domain K D)
    (ctx : Ctx) (a : NodeArgs) (hash : UInt64) (alpha beta : Eval) (hD : D a.s) (m : Nat) :
    Triple (fun st => CInv K H D B L nT nB st ∧ m ≤ st.nodes) (tail ctx a hash alpha beta Option.none)
      (fun r st' => CInv K H D B L nT nB st' ∧ m ≤ st'.nodes ∧ CVal K H a.s 0 alpha beta r) := by
  obtain ⟨ms, hms⟩ := dom.gen hD
  unfold tail
  cases hq : quiesce evaluate (quiesceFuel a.s) a.s a.curDepth alpha beta with
  | error e => exact Triple.throw
  | ok v =>
    refine Triple.pure fun st hp => ⟨hp.1, hp.2, fun h => ?_, fun h => ?_⟩
    · rw [fmH.eq_1] at h; cases h
    · have he := liH_zero_nomoves K H h
      have hc := liH_nomoves K H h he
      rw [legalMoves_of_some hms] at he
      subst he
      unfold quiesceFuel at hq
      rw [quiesce.eq_2, hms] at hq
      simp only [List.isEmpty_nil, if_true] at hq
      cases hev : evaluate a.s a.s.turn a.curDepth with
      | none => rw [hev] at hq; cases hq
      | some e =>
        rw [hev] at hq
        cases hq
        rw [evaluate_mated hms hc hev]
        exact Or.inr (neg_mate_le _)

theorem tail_loop_complete {K : Keys} {H : List UInt64} {D : State → Prop} {B L nT nB : Nat} (g : Geo L nT nB)
    (dom : Domain K D) (coll : CollH K H D B) (ctx : Ctx) (a : NodeArgs) (rem' : Nat) (alpha beta : Eval)
    (hD : D a.s) (hab : alpha < beta) (hrem : a.maxDepth = a.curDepth + (rem' + 1)) (hprio : PrioOK a)
    (child : NodeArgs → M Eval) (hchild : ChildSpec K H D B L nT nB rem' child) (m : Nat) :
    Triple (fun st => CInv K H D B L nT nB st ∧ m ≤ st.nodes) (tail ctx a (hash K a.s) alpha beta (some child))
      (fun r st' => CInv K H D B L nT nB st' ∧ m ≤ st'.nodes ∧ CVal K H a.s (rem'+1) alpha beta r) := by
  obtain ⟨ms, hms⟩ := dom.gen hD
  obtain ⟨ps, hps⟩ := pseudo_of_legal hms
  have hlm := legalMoves_of_some hms
  unfold tail
  rw [hps]
  simp only
  have hrng : ∀ (st : St) (r : Rng.ChaCha8), (CInv K H D B L nT nB st ∧ m ≤ st.nodes) →
      (CInv K H D B L nT nB { st with rng := r } ∧ m ≤ ({ st with rng := r } : St).nodes) := fun st r hi => hi
  refine Triple.bind (Triple.of_holds
    (sort_holds ps _ fun x => Holds.bind (jitter_holds hrng) fun _ _ => Holds.pure trivial)) fun sorted => ?_
  refine Triple.pre_pure (φ := ∀ x, x ∈ sorted ↔ x ∈ ps) (fun _ hp => hp.2) fun hsorted => ?_
  refine Triple.bind (R := fun st0 st' => (CInv K H D B L nT nB st' ∧ m ≤ st'.nodes) ∧ st'.nodes = st0.nodes)
    (Triple.get fun st hp => ⟨hp.1, rfl⟩) fun st0 => ?_
  refine Triple.pre_pure (φ := m ≤ st0.nodes) (fun st hp => by have := hp.1.2; have := hp.2; omega) fun hm0 => ?_
  have hleg : ∀ mv ∈ (match a.prioritized with | some m => sorted ++ [m] | Option.none => sorted).reverse,
      ∀ r, tryAsLegal a.s mv = some (some r) → r ∈ legalMoves a.s := by
    intro mv hmv r ht
    rcases (mem_buffer _ _ _).1 hmv with h | h
    · rw [hlm]; exact (legal_iff hms hps r).2 ⟨mv, (hsorted mv).1 h, ht⟩
    · obtain ⟨r0, hr0, h0⟩ := hprio mv h
      have := try_of_legal hms hr0
      rw [h0, ht] at this
      cases this; exact hr0
  -- every legal move is in the buffer
  have hbuf : ∀ r ∈ legalMoves a.s,
      r.1 ∈ (match a.prioritized with | some m => sorted ++ [m] | Option.none => sorted).reverse := by
    intro r hr
    refine (mem_buffer _ _ _).2 (Or.inl ((hsorted _).2 ?_))
    rw [hlm] at hr
    obtain ⟨mv, hmv, ht⟩ := (legal_iff hms hps r).1 hr
    rw [tryAsLegal_fst ht]; exact hmv
  refine Triple.bind ((childLoop_complete g dom coll ctx child { a with alpha := alpha, beta := beta } rem' alpha hD hrem
    hchild _ alpha Option.none kindUpper st0.nodes hleg
    ⟨Int.le_refl _, hab, fun h => absurd rfl h, fun _ => Or.inl (Int.le_refl _)⟩).conseq
    (fun st hp => ⟨hp.1.1, by have := hp.2; omega⟩) fun _ _ h => h) fun res => ?_
  rcases res with b | ⟨alpha', best, kind⟩
  · simp only
    refine Triple.pure fun st hp => ?_
    obtain ⟨p1, p2, p3, p4⟩ := hp
    replace p3 : b = beta := p3
    subst p3
    exact ⟨p1, by omega, fun _ => Or.inl (Int.le_refl _), fun hl => Or.inr (p4 hl)⟩
  · simp only
    refine Triple.bind (R := fun st1 st' => CLoopPost K H D B L nT nB a.s rem' alpha beta
        (match a.prioritized with | some m => sorted ++ [m] | Option.none => sorted).reverse alpha st0.nodes
        (.ok (alpha', best, kind)) st' ∧ st'.nodes = st1.nodes) (Triple.get fun st hp => ⟨hp, rfl⟩) fun st1 => ?_
    -- the value `alpha'` is complete
    have hfinal : ∀ st', CLoopPost K H D B L nT nB a.s rem' alpha beta
        (match a.prioritized with | some m => sorted ++ [m] | Option.none => sorted).reverse alpha st0.nodes
        (.ok (alpha', best, kind)) st' →
        (fmH K H (rem'+1) a.s = true → 10000 ≤ alpha') ∧
        (liH K H (rem'+1) a.s = true → alpha' ≤ alpha ∨ alpha' ≤ -10000) ∧ (best ≠ Option.none → alpha < alpha') := by
      intro st' hp
      obtain ⟨_, _, _, _, p5, p6⟩ := hp
      refine ⟨fun hw => ?_, p5.2.2.2, p5.2.2.1⟩
      obtain ⟨r, hr, h1, h2⟩ := (fmH_succ_iff K H rem' a.s).1 hw
      exact p6 ⟨r, hr, hbuf r hr, h1, h2⟩
    by_cases hn : (st1.nodes == st0.nodes) = true
    · rw [if_pos hn]
      have hn' : st1.nodes = st0.nodes := beq_iff_eq.1 hn
      cases he : evaluate a.s a.s.turn a.curDepth with
      | none => exact triple_throw_bind
      | some e =>
        simp only
        refine Triple.pure fun st hp => ?_
        obtain ⟨⟨p1, p2, p3, p4, p5, p6⟩, p7⟩ := hp
        -- the node counter did not move: there is no legal move
        have hemp : ms = [] := by
          cases hms' : ms with
          | nil => rfl
          | cons r0 _ =>
            exfalso
            have hr0 : r0 ∈ legalMoves a.s := by rw [hlm, hms']; exact List.mem_cons_self
            have := p3 ⟨r0.1, hbuf r0 hr0, r0, try_of_legal hms hr0⟩
            omega
        subst hemp
        refine ⟨p1, by omega, fun hw => ?_, fun hl => ?_⟩
        · exact absurd hlm (fmH_moves K H hw)
        · have hc := liH_nomoves K H hl hlm
          rw [evaluate_mated hms hc he]
          exact Or.inr (neg_mate_le _)
    · rw [if_neg hn]
      cases best with
      | none =>
        refine Triple.pure fun st hp => ?_
        obtain ⟨hp, _⟩ := hp
        obtain ⟨f1, f2, _⟩ := hfinal st hp
        refine ⟨hp.1, by have := hp.2.1; omega, fun hw => Or.inr (f1 hw), f2⟩
      | some mm =>
        simp only
        refine Triple.bind (R := fun _ st' => (CInv K H D B L nT nB st' ∧ m ≤ st'.nodes) ∧
          (fmH K H (rem'+1) a.s = true → 10000 ≤ alpha') ∧
          (liH K H (rem'+1) a.s = true → alpha' ≤ alpha ∨ alpha' ≤ -10000)) (Triple.modify fun st hp => ?_)
          fun _ => Triple.pure fun st hp => ⟨hp.1.1, hp.1.2, fun hw => Or.inr (hp.2.1 hw), hp.2.2⟩
        obtain ⟨hp, _⟩ := hp
        obtain ⟨f1, f2, f3⟩ := hfinal st hp
        refine ⟨⟨CInv.insert g coll hp.1 hD ?_, by show m ≤ st.nodes; have := hp.2.1; omega⟩, f1, f2⟩
        intro k hk1 hk2
        have hk : k ≤ rem' + 1 := by
          have : k ≤ a.maxDepth - a.curDepth := hk1
          omega
        refine ⟨fun _ hw => f1 (fmH_le K H hk hw), fun _ hl => ?_⟩
        have h1 := f2 (liH_le K H hk hl)
        have h2 := f3 (fun h => nomatch h)
        show alpha' ≤ -10000
        eomega

/-! ## 6. the table probe, the whole node -/

/-- what the induction hypothesis says about the recursive call of a node with remaining depth `rem` -/
def RecSpec (K : Keys) (H : List UInt64) (D : State → Prop) (B L nT nB : Nat) (rem : Nat) :
    Option (NodeArgs → M Eval) → Prop
  | Option.none => rem = 0
  | some child => ∃ rem', rem = rem' + 1 ∧ ChildSpec K H D B L nT nB rem' child

theorem kindExact_ne_upper : kindExact ≠ kindUpper := by decide

theorem probe_complete {K : Keys} {H : List UInt64} {D : State → Prop} {B L nT nB : Nat} (g : Geo L nT nB)
    (dom : Domain K D) (coll : CollH K H D B) (ctx : Ctx) (a : NodeArgs) (rem : Nat)
    (hD : D a.s) (hab : a.alpha < a.beta) (hrem : a.maxDepth = a.curDepth + rem) (hB : rem ≤ B) (hprio : PrioOK a)
    (rec : Option (NodeArgs → M Eval)) (hrec : RecSpec K H D B L nT nB rem rec) (m : Nat) :
    Triple (fun st => CInv K H D B L nT nB st ∧ m ≤ st.nodes) (probe ctx a (hash K a.s) rec)
      (fun r st' => CInv K H D B L nT nB st' ∧ m ≤ st'.nodes ∧ CVal K H a.s rem a.alpha a.beta r) := by
  have htail : ∀ alpha beta, alpha < beta → Triple (fun st => CInv K H D B L nT nB st ∧ m ≤ st.nodes)
      (tail ctx a (hash K a.s) alpha beta rec)
      (fun r st' => CInv K H D B L nT nB st' ∧ m ≤ st'.nodes ∧ CVal K H a.s rem alpha beta r) := by
    intro alpha beta h
    cases rec with
    | none =>
      have h0 : rem = 0 := hrec
      subst h0
      exact tail_leaf_complete dom ctx a _ alpha beta hD m
    | some child =>
      obtain ⟨rem', h0, hc⟩ := hrec
      subst h0
      exact tail_loop_complete g dom coll ctx a rem' alpha beta hD h hrem hprio child hc m
  unfold probe
  refine Triple.bind (R := fun s st' => st' = s ∧ (CInv K H D B L nT nB s ∧ m ≤ s.nodes))
    (Triple.get fun st hp => ⟨rfl, hp⟩) fun st => ?_
  have hpre : ∀ st', (st' = st ∧ (CInv K H D B L nT nB st ∧ m ≤ st.nodes)) →
      (CInv K H D B L nT nB st' ∧ m ≤ st'.nodes) := fun st' hp => hp.1 ▸ hp.2
  cases hf : st.tt.find (hash K a.s).toNat with
  | none => exact (htail _ _ hab).conseq hpre fun _ _ h => h
  | some e =>
    simp only
    refine Triple.pre_pure (φ := CInv K H D B L nT nB st ∧ m ≤ st.nodes) (fun _ hp => hp.2) fun hst => ?_
    have hce := hst.1.2 a.s e hD hf
    by_cases hu : a.maxDepth < a.curDepth ∨ e.maxDepth < e.depth
    · rw [if_pos hu]; exact triple_throw_bind
    · rw [if_neg hu]
      by_cases hd : e.maxDepth - e.depth ≥ a.maxDepth - a.curDepth
      · rw [if_pos hd]
        have hk : rem ≤ e.maxDepth - e.depth := by omega
        obtain ⟨cW, cL⟩ := hce rem hk hB
        by_cases hx : (e.kind == kindExact) = true
        · rw [if_pos hx]
          have hx' : e.kind = kindExact := beq_iff_eq.1 hx
          refine Triple.pure fun st' hp => ⟨(hpre st' hp).1, (hpre st' hp).2, fun hw => Or.inr (cW (Or.inl hx') hw),
            fun hl => Or.inr (cL (by rw [hx']; exact kindExact_ne_upper) hl)⟩
        · rw [if_neg hx]
          by_cases hup : (e.kind == kindUpper) = true
          · rw [if_pos hup]
            have hup' : e.kind = kindUpper := beq_iff_eq.1 hup
            by_cases hc : a.alpha ≥ min a.beta e.eval
            · rw [if_pos hc]
              refine Triple.pure fun st' hp => ⟨(hpre st' hp).1, (hpre st' hp).2,
                fun hw => Or.inr (cW (Or.inr hup') hw), fun _ => Or.inl ?_⟩
              eomega
            · rw [if_neg hc]
              refine (htail _ _ (by eomega)).conseq hpre fun r st' hp => ⟨hp.1, hp.2.1, fun hw => ?_, hp.2.2.2⟩
              have h1 := cW (Or.inr hup') hw
              have h2 := hp.2.2.1 hw
              eomega
          · rw [if_neg hup]
            have hup' : e.kind ≠ kindUpper := fun h => hup (beq_iff_eq.2 h)
            by_cases hc : max a.alpha e.eval ≥ a.beta
            · rw [if_pos hc]
              refine Triple.pure fun st' hp => ⟨(hpre st' hp).1, (hpre st' hp).2, fun _ => Or.inl ?_,
                fun hl => Or.inr (cL hup' hl)⟩
              eomega
            · rw [if_neg hc]
              refine (htail _ _ (by eomega)).conseq hpre fun r st' hp => ⟨hp.1, hp.2.1, hp.2.2.1, fun hl => ?_⟩
              have h1 := cL hup' hl
              have h2 := hp.2.2.2 hl
              eomega
      · rw [if_neg hd]; exact (htail _ _ hab).conseq hpre fun _ _ h => h

/-- postcondition of a node: the table invariant, one more counted node, a complete value unless the node was cut
by the history — and in that case the value `0` -/
def NodePost (K : Keys) (H : List UInt64) (D : State → Prop) (B L nT nB : Nat) (a : NodeArgs) (rem n : Nat)
    (r : Eval) (st' : St) : Prop :=
  CInv K H D B L nT nB st' ∧ n < st'.nodes ∧
  ((a.curDepth = 0 ∨ inHist K H a.s = false) → CVal K H a.s rem a.alpha a.beta r) ∧
  (0 < a.curDepth → inHist K H a.s = true → r = 0)

theorem nodeBody_complete {K : Keys} {H : List UInt64} {D : State → Prop} {B L nT nB : Nat} (g : Geo L nT nB)
    (dom : Domain K D) (coll : CollH K H D B) (ctx : Ctx) (hK : ctx.keys = K) (hH : ctx.history = H)
    (a : NodeArgs) (rem : Nat)
    (hD : D a.s) (hab : a.alpha < a.beta) (hrem : a.maxDepth = a.curDepth + rem) (hB : rem ≤ B) (hprio : PrioOK a)
    (rec : Option (NodeArgs → M Eval)) (hrec : RecSpec K H D B L nT nB rem rec) (n : Nat) :
    Triple (fun st => CInv K H D B L nT nB st ∧ n ≤ st.nodes) (nodeBody ctx rec a)
      (NodePost K H D B L nT nB a rem n) := by
  subst hK
  subst hH
  unfold nodeBody
  refine Triple.bind (R := fun _ st => CInv ctx.keys ctx.history D B L nT nB st ∧ n + 1 ≤ st.nodes)
    (Triple.modify fun st hp => ⟨hp.1, Nat.succ_le_succ hp.2⟩) fun _ => ?_
  refine Triple.bind (R := fun s st' => (CInv ctx.keys ctx.history D B L nT nB st' ∧ n + 1 ≤ st'.nodes) ∧
      (CInv ctx.keys ctx.history D B L nT nB s ∧ n + 1 ≤ s.nodes)) (Triple.get fun st hp => ⟨hp, hp⟩) fun st => ?_
  simp only
  have hrest : Triple (fun st => CInv ctx.keys ctx.history D B L nT nB st ∧ n + 1 ≤ st.nodes)
      (if (decide (a.curDepth > 0) && ctx.history.contains (hash ctx.keys a.s)) = true then pure 0
        else probe ctx a (hash ctx.keys a.s) rec) (NodePost ctx.keys ctx.history D B L nT nB a rem n) := by
    split
    · rename_i hc
      rw [Bool.and_eq_true, decide_eq_true_eq] at hc
      refine Triple.pure fun st hp => ⟨hp.1, hp.2, fun h => ?_, fun _ _ => rfl⟩
      exfalso
      rcases h with h | h
      · omega
      · unfold inHist at h; rw [hc.2] at h; cases h
    · rename_i hc
      refine (probe_complete g dom coll ctx a rem hD hab hrem hB hprio rec hrec (n + 1)).conseq (fun _ hp => hp)
        fun r st' hp => ⟨hp.1, hp.2.1, fun _ => hp.2.2, fun h1 h2 => ?_⟩
      exfalso
      apply hc
      rw [Bool.and_eq_true, decide_eq_true_eq]
      exact ⟨h1, h2⟩
  split
  · refine Triple.bind (R := fun _ st => CInv ctx.keys ctx.history D B L nT nB st ∧ n + 1 ≤ st.nodes)
      (Triple.set fun st' hp => hp.2) fun _ => ?_
    split
    · split
      · exact triple_throw_bind
      · exact hrest
    · rw [if_neg (by decide)]; exact hrest
  · exact hrest.conseq (fun st hp => hp.1) fun _ _ h => h

/-- **`analyze_recursive` is complete.**  For every remaining depth `rem ≤ B`, every node whose position lies in the
domain, with window `alpha < beta`, depth bookkeeping `max_depth = current_depth + rem` and a legal (or no)
prioritised move, every generator state, poll counter and cancellation point: if the call returns, the table
invariant `CInv` (shape + `CompleteTT`) holds again, at least one more node has been counted, and — for the root
(`current_depth = 0`) and for every node whose key is not recorded — the value is `CVal`: a visible forced mate
within `rem` plies is reported as `≥ min beta POS_INF`, a visible forced loss as `≤ max alpha NEG_INF`. -/
theorem searchNode_complete {K : Keys} {H : List UInt64} {D : State → Prop} {B L nT nB : Nat} (g : Geo L nT nB)
    (dom : Domain K D) (coll : CollH K H D B) (ctx : Ctx) (hK : ctx.keys = K) (hH : ctx.history = H) :
    ∀ (rem : Nat) (a : NodeArgs), D a.s → a.alpha < a.beta → a.maxDepth = a.curDepth + rem → rem ≤ B → PrioOK a →
      ∀ n, Triple (fun st => CInv K H D B L nT nB st ∧ n ≤ st.nodes) (searchNode ctx rem a)
        (NodePost K H D B L nT nB a rem n) := by
  intro rem
  induction rem with
  | zero =>
    intro a hD hab hrem hB hp n
    rw [searchNode_zero]
    exact nodeBody_complete g dom coll ctx hK hH a 0 hD hab hrem hB hp Option.none rfl n
  | succ rem ih =>
    intro a hD hab hrem hB hp n
    rw [searchNode_succ]
    refine nodeBody_complete g dom coll ctx hK hH a (rem+1) hD hab hrem hB hp (some (searchNode ctx rem))
      (show ∃ rem', rem + 1 = rem' + 1 ∧ ChildSpec K H D B L nT nB rem' (searchNode ctx rem) from ⟨rem, rfl, ?_⟩) n
    intro args hDa haba hrema hpa hcur n'
    refine (ih args hDa haba hrema (by omega) (fun m hm => by rw [hpa] at hm; cases hm) n').conseq (fun _ h => h)
      fun r st' hp' => ⟨hp'.1, hp'.2.1, fun h => hp'.2.2.1 (Or.inr h)⟩

end Wee.C06
