import Wee.Proofs.GenMovesBridge1
/-!
# Bridge, stage 3a, part 2: `GameStateHelper`, `expand_moves`, knight / king (incl. castling) / slider generators

Every generator of `movegen.rs` appends to the buffer it is given; the theorems have the form
`generated (stateOf s) r = some (r ++ (model (Helper.of s)).toArray)` — same moves, SAME ORDER, no panic.
Axioms: `propext`, `Classical.choice`, `Quot.sound` only.
-/
set_option linter.unusedSimpArgs false
namespace Wee
namespace GenFns
open Wee.Gen

/-! ## loops that append to a buffer -/

theorem bind_eq_of2 {α β : Type} {X : Option α} {K : α → Option β} {R : Option β} (X' : Option α) (h1 : X = X')
    (h2 : (X' >>= K) = R) : (X >>= K) = R := by
  rw [h1]; exact h2

/-- a loop whose body appends the list `g x` -/
theorem foldlM_append {α β γ : Type} (f : Array β → γ → Option (Array β)) (m : α → γ) (g : α → List β) (l : List α)
    (r : Array β) (h : ∀ x ∈ l, ∀ acc, f acc (m x) = some (acc ++ (g x).toArray)) :
    List.foldlM f r (l.map m) = some (r ++ (l.flatMap g).toArray) := by
  induction l generalizing r with
  | nil => simp
  | cons x t ih =>
    rw [List.map_cons, List.foldlM_cons, h x (List.mem_cons_self) r, some_bind',
      ih _ (fun y hy acc => h y (List.mem_cons_of_mem _ hy) acc)]
    simp [Array.append_assoc]

theorem flatMap_single {α β : Type} (g : α → β) (l : List α) : l.flatMap (fun x => [g x]) = l.map g := by
  induction l with
  | nil => rfl
  | cons x t ih => simp [List.flatMap_cons, ih]

theorem arr_app {β : Type} (r : Array β) (a b : List β) : r ++ a.toArray ++ b.toArray = r ++ (a ++ b).toArray := by
  simp [Array.append_assoc]

/-- a loop whose body pushes `g x` -/
theorem foldlM_push {α β γ : Type} (f : Array β → γ → Option (Array β)) (m : α → γ) (g : α → β) (l : List α)
    (r : Array β) (h : ∀ x ∈ l, ∀ acc, f acc (m x) = some (acc.push (g x))) :
    List.foldlM f r (l.map m) = some (r ++ (l.map g).toArray) := by
  rw [foldlM_append f m (fun x => [g x]) l r (by intro x hx acc; rw [h x hx acc]; simp), flatMap_single]

/-- a loop whose body appends the list `g x`, or panics when `g x` is `none` -/
theorem foldlM_append_opt {α β γ : Type} (f : Array β → γ → Option (Array β)) (m : α → γ) (g : α → Option (List β))
    (l : List α) (r : Array β) (h : ∀ x ∈ l, ∀ acc, f acc (m x) = (g x).map (fun ys => acc ++ ys.toArray)) :
    List.foldlM f r (l.map m) = (l.mapM g).map (fun yss => r ++ yss.flatten.toArray) := by
  induction l generalizing r with
  | nil => simp
  | cons x t ih =>
    rw [List.map_cons, List.foldlM_cons, h x (List.mem_cons_self) r, List.mapM_cons]
    cases hg : g x with
    | none => rfl
    | some ys =>
      simp only [Option.map_some, some_bind']
      rw [ih _ (fun y hy acc => h y (List.mem_cons_of_mem _ hy) acc)]
      cases t.mapM g with
      | none => rfl
      | some yss => simp [Array.append_assoc]

/-- a loop whose body pushes `g x`, or panics when `g x` is `none` -/
theorem foldlM_push_opt {α β γ : Type} (f : Array β → γ → Option (Array β)) (m : α → γ) (g : α → Option β)
    (l : List α) (r : Array β) (h : ∀ x ∈ l, ∀ acc, f acc (m x) = (g x).map (fun y => acc.push y)) :
    List.foldlM f r (l.map m) = (l.mapM g).map (fun ys => r ++ ys.toArray) := by
  induction l generalizing r with
  | nil => simp
  | cons x t ih =>
    rw [List.map_cons, List.foldlM_cons, h x (List.mem_cons_self) r, List.mapM_cons]
    cases hg : g x with
    | none => rfl
    | some y =>
      simp only [Option.map_some, some_bind']
      rw [ih _ (fun y hy acc => h y (List.mem_cons_of_mem _ hy) acc)]
      cases t.mapM g with
      | none => rfl
      | some ys => simp

theorem foldlM_id_map {α β : Type} (f : β → α → Option β) (l : List α) (b : β) :
    List.foldlM f b l = List.foldlM f b (l.map id) := by simp

theorem flatMap_toList {α β : Type} (l : List α) (o : α → Option β) : l.flatMap (fun a => (o a).toList) = l.filterMap o := by
  induction l with
  | nil => rfl
  | cons x t ih =>
    rw [List.flatMap_cons, List.filterMap_cons, ih]
    cases o x <;> rfl

/-! ## squares produced by `iter_ones()` -/

theorem from_u32_nat (t : Nat) (h : t < 64) : Square.from_u32 (Nat.toUInt32 t) = Nat.toUInt8 t := by
  apply UInt8.toNat_inj.1
  have hz : (t.toUInt32).toNat = t := nat_toUInt32_toNat _ (by omega)
  rw [Square.from_u32_toNat _ (by rw [hz]; omega), hz, nat_toUInt8_toNat t (by omega)]

theorem u8_nat (t : Nat) (h : t < 64) : (Nat.toUInt8 t).toNat = t := nat_toUInt8_toNat t (by omega)

/-! ## `GameStateHelper` on the Rust-side value of a model state -/

theorem helper_turn (s : Wee.State) : State.turn_to_move (stateOf s) = s.turn := rfl
theorem helper_board (s : Wee.State) : State.board (stateOf s) = boardOf s.pieces := rfl

theorem GameStateHelper.to_own_piece_eq (s : Wee.State) (p : Piece) :
    GameStateHelper.to_own_piece (stateOf s) p = PieceIndex.new s.turn p := rfl

theorem GameStateHelper.own_piece_eq (s : Wee.State) (p : Piece) :
    GameStateHelper.own_piece (stateOf s) p = some (s.pieces.get s.turn p) := by
  unfold GameStateHelper.own_piece
  rw [GameStateHelper.to_own_piece_eq]
  exact Board.piece_occupancy_stateOf s s.turn p

theorem GameStateHelper.own_pieces_eq (s : Wee.State) :
    GameStateHelper.own_pieces (stateOf s) = some (Helper.of s).own :=
  Board.colored_occupancy_stateOf s s.turn

theorem GameStateHelper.opposing_pieces_eq (s : Wee.State) :
    GameStateHelper.opposing_pieces (stateOf s) = some (Helper.of s).opp := by
  unfold GameStateHelper.opposing_pieces
  rw [helper_turn, Color.opposing_color_eq]
  exact Board.colored_occupancy_stateOf s s.turn.opp

theorem GameStateHelper.opposing_attacks_eq (s : Wee.State) :
    GameStateHelper.opposing_attacks (stateOf s) = some (Helper.of s).oppAtt := by
  unfold GameStateHelper.opposing_attacks
  rw [helper_turn, Color.opposing_color_eq, helper_board]
  exact Board.colored_attacks_eq s.pieces s.turn.opp

theorem GameStateHelper.own_castle_rights_eq (s : Wee.State) :
    GameStateHelper.own_castle_rights (stateOf s) = some (crOf (s.castle s.turn)) :=
  State.castle_rights_stateOf s s.turn

theorem GameStateHelper.own_backrank_mask_eq (s : Wee.State) :
    GameStateHelper.own_backrank_mask (stateOf s) = some (backrankMask s.turn) := by
  unfold GameStateHelper.own_backrank_mask
  rw [helper_turn]
  cases s.turn <;> rfl

theorem GameStateHelper.own_pawn_home_rank_mask_eq (s : Wee.State) :
    GameStateHelper.own_pawn_home_rank_mask (stateOf s) = some (homeRankMask s.turn) := by
  unfold GameStateHelper.own_pawn_home_rank_mask
  rw [helper_turn]
  cases s.turn <;> rfl

theorem helper_vacancy (s : Wee.State) : Board.vacancy (State.board (stateOf s)) = (Helper.of s).vac := rfl
theorem helper_occupancy (s : Wee.State) : Board.occupancy (State.board (stateOf s)) = (Helper.of s).occ := rfl

/-- `helper.board().piece_at(target)` followed by `.piece()` is the model's `capturedAt` -/
theorem piece_at_stateOf (s : Wee.State) (t : Nat) (ht : t < 64) :
    Board.piece_at (State.board (stateOf s)) (Nat.toUInt8 t)
      = some ((s.pieces.pieceAt t).map fun cp => PieceIndex.new cp.1 cp.2) := by
  rw [helper_board, Board.piece_at_eq _ _ (by rw [u8_nat t ht]; exact ht), u8_nat t ht]

/-! ## `GameStateHelper::expand_moves` -/

theorem GameStateHelper.expand_moves_eq (s : Wee.State) (o : Square) (dests : BitBoard) (p : Piece)
    (r : Array PseudoLegalMove) (ho : o.toNat < 64) :
    GameStateHelper.expand_moves (stateOf s) o dests p r
      = some (r ++ (expandMoves (Helper.of s) o.toNat dests p).toArray) := by
  unfold GameStateHelper.expand_moves
  simp only [iter_ones_collect_65, some_bind', GameStateHelper.to_own_piece_eq]
  refine Eq.trans (foldlM_push _ _ (fun t =>
      match capturedAt s t with
      | some cap => Wee.Move.byCapturing s.turn p o.toNat t cap
      | Option.none => Wee.Move.byMoving s.turn p o.toNat t) _ _ ?_) rfl
  intro t ht acc
  have h64 := bitsOf_lt _ _ ht
  have e := u8_nat t h64
  simp only [from_u32_nat t h64, piece_at_stateOf s t h64, some_bind']
  unfold capturedAt
  cases hp : s.pieces.pieceAt t with
  | none =>
    simp only [Option.map_none, Move.by_moving_eq _ _ _ _ ho (by rw [e]; exact h64), some_bind', e]
    rfl
  | some cp =>
    simp only [Option.map_some, PieceIndex.piece_new, some_bind',
      Move.by_capturing_eq _ _ _ _ _ ho (by rw [e]; exact h64), e]
    rfl

/-! ## knights -/

theorem MoveGenerator.compute_knight_moves_eq (s : Wee.State) (r : Array PseudoLegalMove) :
    MoveGenerator.compute_knight_moves (stateOf s) r = some (r ++ (knightMoves (Helper.of s)).toArray) := by
  unfold MoveGenerator.compute_knight_moves
  simp only [GameStateHelper.own_piece_eq, some_bind', iter_ones_collect_65]
  refine Eq.trans (foldlM_append _ _ (fun sq =>
      expandMoves (Helper.of s) sq (knightAttacks sq &&& ((Helper.of s).opp ||| (Helper.of s).vac)) .knight) _ _ ?_) rfl
  intro t ht acc
  have h64 := bitsOf_lt _ _ ht
  have e := u8_nat t h64
  simp only [from_u32_nat t h64, AttackGenerator.compute_knight_attacks_eq _ (by rw [e]; exact h64),
    GameStateHelper.opposing_pieces_eq, some_bind', helper_vacancy, BitBoard.bitand_eq, BitBoard.bitor_eq,
    GameStateHelper.expand_moves_eq s _ _ _ _ (by rw [e]; exact h64), e]
  rfl

/-! ## sliders -/

theorem MoveGenerator.compute_bishop_moves_eq (s : Wee.State) (r : Array PseudoLegalMove) :
    MoveGenerator.compute_bishop_moves (stateOf s) r
      = some (r ++ (sliderMoves (Helper.of s) .bishop bishopAttacks).toArray) := by
  unfold MoveGenerator.compute_bishop_moves
  simp only [GameStateHelper.own_piece_eq, some_bind', GameStateHelper.own_pieces_eq, iter_ones_collect_65]
  refine Eq.trans (foldlM_append _ _ (fun sq =>
      expandMoves (Helper.of s) sq (bishopAttacks sq (Helper.of s).occ &&& ~~~(Helper.of s).own) .bishop) _ _ ?_) rfl
  intro t ht acc
  have h64 := bitsOf_lt _ _ ht
  have e := u8_nat t h64
  simp only [from_u32_nat t h64, helper_occupancy, AttackGenerator.compute_bishop_attacks_eq _ _ (by rw [e]; exact h64),
    some_bind', BitBoard.bitand_eq, BitBoard.not_eq,
    GameStateHelper.expand_moves_eq s _ _ _ _ (by rw [e]; exact h64), e]
  rfl

theorem MoveGenerator.compute_rook_moves_eq (s : Wee.State) (r : Array PseudoLegalMove) :
    MoveGenerator.compute_rook_moves (stateOf s) r
      = some (r ++ (sliderMoves (Helper.of s) .rook rookAttacks).toArray) := by
  unfold MoveGenerator.compute_rook_moves
  simp only [GameStateHelper.own_piece_eq, some_bind', GameStateHelper.own_pieces_eq, iter_ones_collect_65]
  refine Eq.trans (foldlM_append _ _ (fun sq =>
      expandMoves (Helper.of s) sq (rookAttacks sq (Helper.of s).occ &&& ~~~(Helper.of s).own) .rook) _ _ ?_) rfl
  intro t ht acc
  have h64 := bitsOf_lt _ _ ht
  have e := u8_nat t h64
  simp only [from_u32_nat t h64, helper_occupancy, AttackGenerator.compute_rook_attacks_eq _ _ (by rw [e]; exact h64),
    some_bind', BitBoard.bitand_eq, BitBoard.not_eq,
    GameStateHelper.expand_moves_eq s _ _ _ _ (by rw [e]; exact h64), e]
  rfl

theorem MoveGenerator.compute_queen_moves_eq (s : Wee.State) (r : Array PseudoLegalMove) :
    MoveGenerator.compute_queen_moves (stateOf s) r
      = some (r ++ (sliderMoves (Helper.of s) .queen queenAttacks).toArray) := by
  unfold MoveGenerator.compute_queen_moves
  simp only [GameStateHelper.own_piece_eq, some_bind', GameStateHelper.own_pieces_eq, iter_ones_collect_65]
  refine Eq.trans (foldlM_append _ _ (fun sq =>
      expandMoves (Helper.of s) sq (queenAttacks sq (Helper.of s).occ &&& ~~~(Helper.of s).own) .queen) _ _ ?_) rfl
  intro t ht acc
  have h64 := bitsOf_lt _ _ ht
  have e := u8_nat t h64
  simp only [from_u32_nat t h64, helper_occupancy, AttackGenerator.compute_queen_attacks_eq _ _ (by rw [e]; exact h64),
    some_bind', BitBoard.bitand_eq, BitBoard.not_eq,
    GameStateHelper.expand_moves_eq s _ _ _ _ (by rw [e]; exact h64), e]
  rfl

/-! ## king steps and castling -/

theorem castle_path_mask (side : Side) (c : Color) :
    (ArrayMap.index common.CASTLE_PATH_MASKS (Index.from_Side side) >>= fun a => ArrayMap.index a (Index.from_Color c))
      = some ((castlePathMasks[side.idx]!)[c.idx]!) := by
  cases side <;> cases c <;> rfl

theorem castle_check_mask (side : Side) (c : Color) :
    (ArrayMap.index common.CASTLE_CHECK_MASKS (Index.from_Side side) >>= fun a => ArrayMap.index a (Index.from_Color c))
      = some ((castleCheckMasks[side.idx]!)[c.idx]!) := by
  cases side <;> cases c <;> rfl

/-- the castling move of one side, if it is generated (the model's `filterMap` body) -/
def castleOpt (h : Helper) (side : Side) : Option Wee.Move :=
  if (h.s.castle h.us).forSide side then
    let blocks := h.occ &&& (castlePathMasks[side.idx]!)[h.us.idx]!
    let checks := h.oppAtt &&& (castleCheckMasks[side.idx]!)[h.us.idx]!
    if bbNone blocks && bbNone checks then some (Wee.Move.byCastling h.us side) else Option.none
  else Option.none

theorem MoveGenerator.compute_king_moves_eq (s : Wee.State) (r : Array PseudoLegalMove) :
    MoveGenerator.compute_king_moves (stateOf s) r = some (r ++ (kingMoves (Helper.of s)).toArray) := by
  unfold MoveGenerator.compute_king_moves
  simp only [GameStateHelper.own_piece_eq, some_bind', iter_ones_collect_65]
  refine bind_eq_of _ (foldlM_append _ _ (fun sq =>
      expandMoves (Helper.of s) sq
        (kingAttacks sq &&& ((Helper.of s).opp ||| (Helper.of s).vac) &&& ~~~(Helper.of s).oppAtt) .king) _ _ ?_) ?_
  · intro t ht acc
    have h64 := bitsOf_lt _ _ ht
    have e := u8_nat t h64
    simp only [from_u32_nat t h64, AttackGenerator.compute_king_attacks_eq _ (by rw [e]; exact h64),
      GameStateHelper.opposing_pieces_eq, GameStateHelper.opposing_attacks_eq, some_bind', helper_vacancy,
      BitBoard.bitand_eq, BitBoard.bitor_eq, BitBoard.not_eq,
      GameStateHelper.expand_moves_eq s _ _ _ _ (by rw [e]; exact h64), e]
    rfl
  · rw [Side.ALL_eq, foldlM_id_map]
    refine Eq.trans (foldlM_append _ id (fun side => (castleOpt (Helper.of s) side).toList) _ _ ?_) ?_
    · intro side _ acc
      simp only [id, GameStateHelper.own_castle_rights_eq, some_bind', CastleRights.for_side_crOf, helper_turn]
      unfold castleOpt
      have hs : (Helper.of s).s = s := rfl
      have hu : (Helper.of s).us = s.turn := rfl
      rw [hs, hu]
      by_cases hr : (s.castle s.turn).forSide side = true
      · simp only [hr, if_true]
        have e1 := castle_path_mask side s.turn
        have e2 := castle_check_mask side s.turn
        simp only [bind, Option.bind] at e1 e2 ⊢
        cases h1 : ArrayMap.index common.CASTLE_PATH_MASKS (Index.from_Side side) with
        | none => rw [h1] at e1; cases e1
        | some a1 =>
          rw [h1] at e1
          simp only at e1
          cases h2 : ArrayMap.index common.CASTLE_CHECK_MASKS (Index.from_Side side) with
          | none => rw [h2] at e2; cases e2
          | some a2 =>
            rw [h2] at e2
            simp only at e2
            simp only [e1, e2, GameStateHelper.opposing_attacks_eq, helper_occupancy, BitBoard.bitand_eq, BitBoard.none_eq,
              Move.by_castling_eq]
            generalize bbNone ((Helper.of s).occ &&& (castlePathMasks[side.idx]!)[s.turn.idx]!) = b1
            generalize bbNone ((Helper.of s).oppAtt &&& (castleCheckMasks[side.idx]!)[s.turn.idx]!) = b2
            cases b1 <;> cases b2 <;> simp
      · simp [hr]
    · rw [flatMap_toList, arr_app]
      rfl

end GenFns
end Wee
