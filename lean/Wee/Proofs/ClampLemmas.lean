import Wee.Model.Eval
/-!
# `clampHeuristic` — the clamp at the end of `Evaluator::evaluate` (repair of defect F10)

`eval.clamp(Evaluation(NEG_INF.0 + 1), Evaluation(POS_INF.0 - 1))` is applied to the HEURISTIC result
only.  Facts: closed form, range, oddness (the bounds are symmetric), monotonicity, identity on
`(−10000, 10000)`, "never terminal", and the case analysis of `evaluate` for any perspective.
-/
namespace Wee

theorem Ev.posInf_val : Ev.posInf = 10000 := rfl
theorem Ev.negInf_val : Ev.negInf = -10000 := rfl

/-- closed form: `clamp(e, −9999, 9999)` -/
theorem clampHeuristic_eq (e : Eval) : clampHeuristic e = max (-9999) (min 9999 e) := rfl

/-- range: the clamped score lies in `[−9999, 9999]` -/
theorem clampHeuristic_range (e : Eval) : -9999 ≤ clampHeuristic e ∧ clampHeuristic e ≤ 9999 := by
  rw [clampHeuristic_eq]; unfold Eval at *; omega

/-- range in terms of the engine's constants: strictly inside `(NEG_INF, POS_INF)` -/
theorem clampHeuristic_strict (e : Eval) : Ev.negInf < clampHeuristic e ∧ clampHeuristic e < Ev.posInf := by
  have := clampHeuristic_range e
  rw [Ev.posInf_val, Ev.negInf_val]; unfold Eval at *; omega

/-- oddness: the bounds `NEG_INF + 1 = −(POS_INF − 1)` are symmetric, so clamping commutes with negation -/
theorem clampHeuristic_neg (e : Eval) : clampHeuristic (-e) = - clampHeuristic e := by
  rw [clampHeuristic_eq, clampHeuristic_eq]; unfold Eval at *; omega

/-- monotonicity -/
theorem clampHeuristic_mono {a b : Eval} (h : a ≤ b) : clampHeuristic a ≤ clampHeuristic b := by
  rw [clampHeuristic_eq, clampHeuristic_eq]; unfold Eval at *; omega

/-- identity strictly inside `(−10000, 10000)` -/
theorem clampHeuristic_id {e : Eval} (h1 : -10000 < e) (h2 : e < 10000) : clampHeuristic e = e := by
  rw [clampHeuristic_eq]; unfold Eval at *; omega

/-- identity in `natAbs` form -/
theorem clampHeuristic_id_natAbs {e : Eval} (h : e.natAbs < 10000) : clampHeuristic e = e :=
  clampHeuristic_id (by unfold Eval at *; omega) (by unfold Eval at *; omega)

/-- saturation above and below -/
theorem clampHeuristic_sat_hi {e : Eval} (h : 9999 ≤ e) : clampHeuristic e = 9999 := by
  rw [clampHeuristic_eq]; unfold Eval at *; omega
theorem clampHeuristic_sat_lo {e : Eval} (h : e ≤ -9999) : clampHeuristic e = -9999 := by
  rw [clampHeuristic_eq]; unfold Eval at *; omega

/-- idempotent -/
theorem clampHeuristic_idem (e : Eval) : clampHeuristic (clampHeuristic e) = clampHeuristic e := by
  obtain ⟨h1, h2⟩ := clampHeuristic_range e
  exact clampHeuristic_id (by unfold Eval at *; omega) (by unfold Eval at *; omega)

/-- clamping never increases the modulus -/
theorem clampHeuristic_natAbs_le (e : Eval) : (clampHeuristic e).natAbs ≤ e.natAbs := by
  rw [clampHeuristic_eq]; unfold Eval at *; omega

/-- the modulus of a clamped score is below `POS_INF` -/
theorem clampHeuristic_natAbs_lt (e : Eval) : (clampHeuristic e).natAbs < 10000 := by
  have := clampHeuristic_range e; unfold Eval at *; omega

/-- **a clamped heuristic score never looks like a mate score** -/
theorem clampHeuristic_not_terminal (e : Eval) : Ev.isTerminal (clampHeuristic e) = false := by
  obtain ⟨h1, h2⟩ := clampHeuristic_strict e
  unfold Ev.isTerminal
  simp only [Bool.or_eq_false_iff, decide_eq_false_iff_not]
  unfold Eval at *; omega

/-! ## the results of `evaluate`, any perspective -/

/-- the three kinds of result of `Evaluator::evaluate(state, perspective, depth)`: the mate branch, the stalemate
branch, or the CLAMPED heuristic sum -/
theorem evaluate_cases_any {s : State} {c : Color} {d : Nat} {e : Eval} (h : evaluate s c d = some e) :
    (legalMoves? s = some [] ∧ s.isCheck = true ∧
        e = (if s.turn = c then - Ev.mateInPly d else Ev.mateInPly d)) ∨
    (legalMoves? s = some [] ∧ s.isCheck = false ∧ e = 0) ∨
    e = clampHeuristic (evalHeuristic (Variation.of s) c) := by
  unfold evaluate at h
  cases hk : kingHasMove s with
  | none => rw [hk] at h; cases h
  | some khm =>
    rw [hk] at h
    simp only at h
    by_cases hc : (!khm || s.isCheck) = true
    · rw [if_pos hc] at h
      cases hl : legalMoves? s with
      | none => rw [hl] at h; cases h
      | some ms =>
        rw [hl] at h
        simp only at h
        cases ms with
        | cons m ms =>
          simp only [List.isEmpty_cons, Bool.false_and, Bool.false_eq_true, if_false] at h
          exact Or.inr (Or.inr (Option.some.inj h).symm)
        | nil =>
          cases hchk : s.isCheck with
          | true =>
            rw [hchk] at h
            simp only [List.isEmpty_nil, Bool.and_self, if_true] at h
            refine Or.inl ⟨rfl, rfl, ?_⟩
            rw [← Option.some.inj h]
            cases s.turn <;> cases c <;> rfl
          | false =>
            rw [hchk] at h
            simp only [List.isEmpty_nil, Bool.and_false, Bool.false_eq_true, if_false, if_true] at h
            exact Or.inr (Or.inl ⟨rfl, rfl, (Option.some.inj h).symm⟩)
    · rw [if_neg hc] at h
      exact Or.inr (Or.inr (Option.some.inj h).symm)

/-- with at least one legal move the result is the clamped heuristic sum (whatever the `king_has_move` shortcut said) -/
theorem evaluate_of_move {s : State} {c : Color} {d : Nat} {e : Eval} {m : Move × State} {ms : List (Move × State)}
    (hm : legalMoves? s = some (m :: ms)) (h : evaluate s c d = some e) :
    e = clampHeuristic (evalHeuristic (Variation.of s) c) := by
  rcases evaluate_cases_any h with h1 | h1 | h1
  · rw [hm] at h1; exact nomatch h1.1
  · rw [hm] at h1; exact nomatch h1.1
  · exact h1

/-- **a terminal result of `evaluate` is the checkmate branch** — for every state, perspective and depth -/
theorem evaluate_terminal {s : State} {c : Color} {d : Nat} {e : Eval} (h : evaluate s c d = some e)
    (ht : Ev.isTerminal e = true) :
    legalMoves? s = some [] ∧ s.isCheck = true ∧ e = (if s.turn = c then - Ev.mateInPly d else Ev.mateInPly d) := by
  rcases evaluate_cases_any h with h1 | h1 | h1
  · exact h1
  · rw [h1.2.2] at ht; exact absurd ht (by decide)
  · rw [h1, clampHeuristic_not_terminal] at ht; exact nomatch ht

example : clampHeuristic 125 = 125 ∧ clampHeuristic 123456 = 9999 ∧ clampHeuristic (-123456) = -9999 ∧
    clampHeuristic 9999 = 9999 ∧ clampHeuristic 10000 = 9999 ∧ clampHeuristic (-10000) = -9999 := by decide

end Wee
