import Wee.Proofs.FenLemmas
import Wee.Proofs.AttackLemmas
/-!
# From a mailbox position to the engine's state and back (helper for C01)

`conc P` is the bitboard state of the mailbox position `P` (what `Board::from(&ArrayMap<Square, PieceIndex>)` /
the FEN reader build, see C11).  It has no stacked pieces and its mailbox reading is `P` again, so the C01
theorems can be stated for "every legal chess position `P`" with no side condition on bitboards.
-/
namespace Wee
open Wee.C10 (DisjointBoard)

/-- the two formulations of "the twelve bitboards are pairwise disjoint" (C11's list form, C10's index form) -/
theorem disjointBoard_of_fenDisjoint {m : PieceMap} (h : FenL.Disjoint m) : DisjointBoard m := by
  intro x hx y hy hne
  apply Classical.byContradiction
  intro hnz
  obtain ⟨n, _, hn⟩ := (C10.ne_zero_iff _).1 hnz
  rw [C10.test_and, Bool.and_eq_true] at hn
  have := FenL.disjoint_unique h ((C10.mem_allCP x.1 x.2).1 hx) ((C10.mem_allCP y.1 y.2).1 hy) n hn.1 hn.2
  exact hne (Prod.ext this.1 this.2)

theorem disjointBoard_conc (P : Spec.Pos) : DisjointBoard (conc P).pieces :=
  disjointBoard_of_fenDisjoint (FenL.disjoint_concPieces P)

theorem absCell_concPieces (P : Spec.Pos) (sq : Nat) (hsq : sq < 64) : absCell (concPieces P) sq = P.at sq := by
  unfold absCell
  rw [FenL.pieceAt_concPieces P sq hsq]
  cases h : P.at sq with
  | none => rfl
  | some ck =>
    obtain ⟨c, k⟩ := ck
    cases c <;> cases k <;> rfl

/-- reading the bitboard form of a 64-cell mailbox position gives the position back -/
theorem abs_conc (P : Spec.Pos) (hsz : P.cells.size = 64) : abs (conc P) = P := by
  have hcells : (Array.range 64).map (absCell (concPieces P)) = P.cells := by
    apply Array.ext
    · simp [hsz]
    · intro i h1 h2
      have hi : i < 64 := by simpa using h1
      simp only [Array.getElem_map, Array.getElem_range]
      rw [absCell_concPieces P i hi]
      unfold Spec.Pos.at
      rw [if_pos hi]
      simp [Array.getD, h2]
  obtain ⟨cells, turn, wk, wq, bk, bq, ep, hm, fm⟩ := P
  simp only [abs, conc] at hcells ⊢
  rw [hcells]
  cases turn <;> rfl

end Wee
