import Wee.Proofs.ApplyCells
/-!
# C02: the rule-level successor `Spec.applyMove (abs s) sm` read cell by cell and field by field
-/
namespace Wee.C02
open Wee.C10 (absCell_ge)

def cellAbs (x : Option (Color × Piece)) : Option (Spec.Color × Spec.Kind) :=
  x.bind fun cp => (absKind cp.2).map fun k => (absColor cp.1, k)

theorem absCell_eq_cellAbs (m : PieceMap) (n : Nat) : absCell m n = cellAbs (m.pieceAt n) := by
  unfold absCell cellAbs
  cases m.pieceAt n with
  | none => rfl
  | some cp => rfl

def cellsFn (a : Array (Option (Spec.Color × Spec.Kind))) : Nat → Option (Spec.Color × Spec.Kind) :=
  fun n => (a[n]?).getD Option.none

theorem cellsFn_setCell (a : Array (Option (Spec.Color × Spec.Kind))) (sq : Nat) (v) (h : sq < a.size) :
    cellsFn (Spec.setCell a sq v) = upd (cellsFn a) sq v := by
  funext n
  unfold cellsFn Spec.setCell upd
  rw [Array.getElem?_setIfInBounds]
  by_cases e : n = sq
  · subst e; simp [h]
  · have : ¬ sq = n := fun e' => e e'.symm
    simp [e, this]

theorem size_setCell (a : Array (Option (Spec.Color × Spec.Kind))) (sq : Nat) (v) :
    (Spec.setCell a sq v).size = a.size := by simp [Spec.setCell]

theorem cellsFn_abs (s : State) : cellsFn (abs s).cells = fun n => cellAbs (s.pieces.pieceAt n) := by
  funext n
  unfold cellsFn abs
  rw [← absCell_eq_cellAbs]
  by_cases h : n < 64
  · simp [h]
  · simp [h, absCell_ge s.pieces n (by omega)]

theorem array_ext_cellsFn (a b : Array (Option (Spec.Color × Spec.Kind))) (hs : a.size = b.size)
    (h : ∀ n, n < a.size → cellsFn a n = cellsFn b n) : a = b := by
  apply Array.ext hs
  intro i h1 h2
  have := h i h1
  unfold cellsFn at this
  simpa [h1, h2] using this

theorem cellAbs_upd (f : Nat → Option (Color × Piece)) (sq : Nat) (x : Option (Color × Piece)) :
    (fun n => cellAbs (upd f sq x n)) = upd (fun n => cellAbs (f n)) sq (cellAbs x) := by
  funext n; unfold upd; split <;> rfl

theorem toSpecMove_eq {mv : Move} {sm : Spec.SMove} (h : toSpecMove mv = some sm) :
    ∃ k, absKind (Move.piece mv) = some k ∧
      sm = { color := absColor (Move.color mv), kind := k, src := Move.origin mv, dst := Move.dest mv
             capture := (Move.capture mv).bind absKind
             promo := (Move.promotion mv).bind absKind
             ep := Move.isEnPassant mv
             castle := (Move.castleSide mv).map (fun s => s == Side.king)
             dbl := Move.isDoublePawn mv } := by
  unfold toSpecMove at h
  cases hk : absKind (Move.piece mv) with
  | none => simp [hk] at h
  | some k =>
    simp only [hk, Option.bind_eq_bind, Option.bind_some, Option.pure_def, Option.some.injEq] at h
    exact ⟨k, rfl, h.symm⟩


theorem cellAbs_some (c : Color) (q : Piece) (k : Spec.Kind) (hk : absKind q = some k) :
    cellAbs (some (c, q)) = some (absColor c, k) := by
  simp [cellAbs, hk]

/-- the common part of the rule-level placement: origin emptied, en-passant victim removed,
destination filled -/
theorem spec_mid (A : Array (Option (Spec.Color × Spec.Kind))) (hA : A.size = 64) (o d : Nat) (ho : o < 64) (hd : d < 64)
    (ep : Bool) (x : Option (Spec.Color × Spec.Kind)) :
    cellsFn (Spec.setCell (if ep = true then Spec.setCell (Spec.setCell A o Option.none) (o / 8 * 8 + d % 8) Option.none
        else Spec.setCell A o Option.none) d x) =
      upd (if ep = true then upd (upd (cellsFn A) o Option.none) (o / 8 * 8 + d % 8) Option.none
        else upd (cellsFn A) o Option.none) d x := by
  have hv : o / 8 * 8 + d % 8 < 64 := by omega
  cases ep
  · simp only [Bool.false_eq_true, if_false]
    rw [cellsFn_setCell _ _ _ (by rw [size_setCell, hA]; exact hd), cellsFn_setCell _ _ _ (by rw [hA]; exact ho)]
  · simp only [if_true]
    rw [cellsFn_setCell _ _ _ (by rw [size_setCell, size_setCell, hA]; exact hd),
      cellsFn_setCell _ _ _ (by rw [size_setCell, hA]; exact hv), cellsFn_setCell _ _ _ (by rw [hA]; exact ho)]

theorem promoF_abs {s : State} {mv : Move} {p : Piece} {k : Spec.Kind} (hk : absKind p = some k) :
    (fun n => cellAbs (promoF s mv p n)) =
      upd (if Move.isEnPassant mv = true then
            upd (upd (fun n => cellAbs (s.pieces.pieceAt n)) (Move.origin mv) Option.none)
              (Move.origin mv / 8 * 8 + Move.dest mv % 8) Option.none
          else upd (fun n => cellAbs (s.pieces.pieceAt n)) (Move.origin mv) Option.none)
        (Move.dest mv) (some (absColor s.turn, ((Move.promotion mv).bind absKind).getD k)) := by
  have hmid : (fun n => cellAbs (midF s mv p n)) =
      upd (if Move.isEnPassant mv = true then
            upd (upd (fun n => cellAbs (s.pieces.pieceAt n)) (Move.origin mv) Option.none)
              (Move.origin mv / 8 * 8 + Move.dest mv % 8) Option.none
          else upd (fun n => cellAbs (s.pieces.pieceAt n)) (Move.origin mv) Option.none)
        (Move.dest mv) (some (absColor s.turn, k)) := by
    unfold midF
    rw [cellAbs_upd, cellAbs_some _ _ _ hk]
    cases Move.isEnPassant mv
    · simp only [Bool.false_eq_true, if_false]; rw [cellAbs_upd]; rfl
    · simp only [if_true]; rw [cellAbs_upd, cellAbs_upd]; rfl
  unfold promoF
  cases hpr : Move.promotion mv with
  | none => simp only [Option.bind_none, Option.getD_none]; exact hmid
  | some r =>
    obtain ⟨kr, hkr⟩ := Wee.C10.absKind_some r (promotion_ne_none hpr)
    simp only [Option.bind_some, hkr, Option.getD_some]
    rw [cellAbs_upd, hmid, upd_upd, cellAbs_some _ _ _ hkr]

theorem applyMove_cells_size (P : Spec.Pos) (sm : Spec.SMove) : (Spec.applyMove P sm).cells.size = P.cells.size := by
  unfold Spec.applyMove
  simp only []
  split <;> (try split) <;> simp [size_setCell]


/-- **placement**: the rule-level cells after the move are the abstraction of `expectedF` -/
theorem spec_cells {s : State} {mv : Move} {sm : Spec.SMove} {p : Piece} (h : MoveFits s mv sm)
    (hm : MFits s mv p) (hk : absKind p = some sm.kind) :
    cellsFn (Spec.applyMove (abs s) sm).cells = fun n => cellAbs (expectedF s mv p n) := by
  obtain ⟨k, _, e⟩ := toSpecMove_eq h.spec
  have hcol := h.color
  subst e
  simp only [] at hcol hk
  have hA : (abs s).cells.size = 64 := by simp [abs]
  have ho' := homeSq_cases s.turn
  unfold Spec.applyMove expectedF
  simp only []
  cases hcs : Move.castleSide mv with
  | none =>
    simp only [Option.map_none]
    rw [promoF_abs hk, spec_mid _ hA _ _ hm.o_lt hm.d_lt, cellsFn_abs, hcol]
  | some sd =>
    obtain ⟨_, _, _, ho, _⟩ := hm.castle sd hcs
    rw [← ho] at ho'
    cases sd with
    | king =>
      simp only [Option.map_some, show (Side.king == Side.king) = true from rfl]
      rw [cellsFn_setCell _ _ _ (by rw [size_setCell, size_setCell]; split <;> simp [size_setCell, hA] <;> omega),
        cellsFn_setCell _ _ _ (by rw [size_setCell]; split <;> simp [size_setCell, hA] <;> omega),
        spec_mid _ hA _ _ hm.o_lt hm.d_lt, cellsFn_abs, hcol,
        cellAbs_upd, cellAbs_upd, promoF_abs hk, cellAbs_some _ _ _ rfl]
      rfl
    | queen =>
      simp only [Option.map_some, show (Side.queen == Side.king) = false from rfl]
      rw [cellsFn_setCell _ _ _ (by rw [size_setCell, size_setCell]; split <;> simp [size_setCell, hA] <;> omega),
        cellsFn_setCell _ _ _ (by rw [size_setCell]; split <;> simp [size_setCell, hA] <;> omega),
        spec_mid _ hA _ _ hm.o_lt hm.d_lt, cellsFn_abs, hcol,
        cellAbs_upd, cellAbs_upd, promoF_abs hk, cellAbs_some _ _ _ rfl]
      rfl

end Wee.C02
