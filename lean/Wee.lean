-- This module serves as the root of the `Wee` library.
-- Import modules here that should be built as part of the library.
import Wee.Basic
