-- Library root: every property module (they pull in model, spec, proofs and generated constants).
import Wee.Props.C01
import Wee.Props.C02
import Wee.Props.C02Closed
import Wee.Props.C05
import Wee.Props.C08
import Wee.Props.C09
import Wee.Props.C10Closed
import Wee.Props.C11
import Wee.Props.C12
import Wee.Props.C13
import Wee.Props.C15
import Wee.Props.C20
import Wee.Model.Search
import Wee.Spec.San
import Wee.Spec.Outcome
