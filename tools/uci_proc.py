"""Process-level driver for the real `weechess uci` binary and the session acceptor (C07, C14-uci, C18)."""
import os
import queue
import random
import re
import subprocess
import threading
import time
import urllib.parse

import wee


class Engine:
    def __init__(self, exe):
        self.p = subprocess.Popen([exe, "uci"], stdin=subprocess.PIPE, stdout=subprocess.PIPE, stderr=subprocess.PIPE,
                                  text=True, bufsize=1, encoding="utf-8", errors="replace")
        self.out, self.err = [], []
        self.cv = threading.Condition()
        for stream, sink in ((self.p.stdout, self.out), (self.p.stderr, self.err)):
            t = threading.Thread(target=self._pump, args=(stream, sink), daemon=True)
            t.start()

    def _pump(self, stream, sink):
        for line in stream:
            with self.cv:
                sink.append(line.rstrip("\n"))
                self.cv.notify_all()
        with self.cv:
            sink.append(None)
            self.cv.notify_all()

    def send(self, line):
        try:
            self.p.stdin.write(line + "\n")
            self.p.stdin.flush()
            return True
        except (BrokenPipeError, OSError):
            return False

    def wait_for(self, sink, pred, start, timeout):
        """index of the first entry >= start satisfying pred, or None"""
        end = time.time() + timeout
        with self.cv:
            i = start
            while True:
                while i < len(sink):
                    if sink[i] is None:
                        return None
                    if pred(sink[i]):
                        return i
                    i += 1
                left = end - time.time()
                if left <= 0:
                    return None
                self.cv.wait(left)

    def close(self, timeout=30):
        try:
            self.p.stdin.close()
        except OSError:
            pass
        try:
            return self.p.wait(timeout)
        except subprocess.TimeoutExpired:
            self.p.kill()
            return "timeout"


def fen_from_state_dump(lines):
    for l in lines:
        m = re.search(r"lichess\.org/editor\?fen=([^&]+)", l)
        if m:
            return urllib.parse.unquote(m.group(1))
    return None


SEARCH_NOISE = re.compile(r"^(info score|info pv|info time|info string book move|info string transposition)")


class Planner:
    """precomputes, with the Lean session model, what every command of a history must do"""

    def __init__(self):
        self.drv = wee.driver_pipe()
        self.har = wee.harness_pipe()

    def close(self):
        self.drv.close()
        self.har.close()

    def model(self, req):
        a = self.drv.ask(req)
        return a.split(" ||| ", 1) if " ||| " in a else [a, "-"]

    def legal_lans(self, fen):
        m, s = self.model("moves " + fen)
        lans = set()
        name = lambda q: "abcdefgh"[q % 8] + str(q // 8 + 1)
        for t in s.split(" "):
            a = t.split(",")
            if len(a) >= 9:
                lans.add(name(int(a[2])) + name(int(a[3])) + {0: "", 2: "n", 3: "b", 4: "r", 5: "q"}.get(int(a[5]), "?"))
        return lans

    def spec_play(self, fen, lans):
        """position after the coordinate moves per the mailbox rules (None if one is not legal)"""
        for lan in lans:
            sq = lambda n: (ord(n[0]) - 97) + 8 * (int(n[1]) - 1)
            pr = {"": "-", "n": "2", "b": "3", "r": "4", "q": "5"}[lan[4:5]]
            m, s = self.model(f"coords {sq(lan[0:2])} {sq(lan[2:4])} {pr} {fen}")
            if s.startswith("err") or s == "-":
                return None
            fen = s
        return fen

    def plan(self, cmds):
        fen = "rnbqkbnr/pppppppp/8/8/8/8/PPPPPPPP/RNBQKBNR w KQkq - 0 1"
        searching, artifact = "0", "0"
        run_ok = "1"            # does the running search end without a panic?  "1" for a legal root (C04), "?" otherwise
        art_unknown = False     # the stored artifact came (or not) from a search whose fate the model cannot know
        steps = []
        for cmd, delay in cmds:
            first = cmd.split()[0] if cmd.split() else ""
            has_book, lans = "0", None
            new_ok = "1"
            if first == "go":
                has_book = "0" if self.har.ask("book " + fen) == "none" else "1"
                lans = self.legal_lans(fen)
                new_ok = "1" if self.model("legalpos " + fen)[1] == "1" else "?"
            was_searching = searching
            m, _ = self.model(f"uci {wee_hex(cmd)} {searching} {artifact} {has_book}:{'1' if run_ok == '1' else '0'}:{'1' if new_ok == '1' else '0'} {fen}")
            st = {"cmd": cmd, "delay": delay, "first": first, "fen_before": fen, "lans": lans, "panic": m == "panic",
                  "lines": [], "join": False, "book": False, "search": None, "quit": False}
            if m != "panic":
                f = m.split(" ")
                searching, artifact, st["quit"], fen = f[0], f[1], f[2] == "1", f[3].replace("_", " ")
                for tok in f[4:]:
                    if tok.startswith("line:"):
                        st["lines"].append(unhex(tok[5:]))
                    elif tok == "join":
                        st["join"] = True
                    elif tok == "book":
                        st["book"] = True
                    elif tok.startswith("search:"):
                        st["search"] = tok
            if m != "panic":
                if st["join"] and was_searching == "1" and run_ok == "?":
                    art_unknown = first != "ucinewgame"
                if first == "ucinewgame" or st["search"]:
                    art_unknown = False       # dropped / taken by the new search
                if st["search"]:
                    run_ok = new_ok
            st.update(fen_after=fen, searching=searching, artifact="?" if art_unknown else artifact)
            steps.append(st)
            if st["quit"]:
                break
        return steps


def run_session(exe, steps, eof=False, sync_timeout=120, capture=None, strict_bestmove=True):
    """drives the real binary through the planned history; returns the list of discrepancies"""
    problems = []
    note = problems.append
    eng = Engine(exe)
    out_i, err_i = 0, 0
    pending = None          # (fen, legal lans) of a go whose bestmove has not been seen yet
    pending_pv = [None]     # first move of the last `info pv` line of that go
    pvs = []                # (fen, lan list) of every `info pv` line, checked for legality by the caller
    alive = True
    quit_sent = False
    for st in steps:
        if st["delay"]:
            time.sleep(st["delay"])
        cmd, first = st["cmd"], st["first"]
        if not eng.send(cmd):
            note(f"process died before `{cmd[:60]}`")
            alive = False
            break
        if st["quit"]:
            quit_sent = True
            break
        eng.send("isready")
        need = 2 if first == "isready" else 1
        k = out_i - 1
        for _ in range(need):
            k = eng.wait_for(eng.out, lambda l: l == "readyok", k + 1, sync_timeout)
            if k is None:
                break
        if k is None:
            note(f"no readyok after `{cmd[:60]}` (process dead or hung); stderr tail: {[l for l in eng.err[-3:] if l]}")
            alive = False
            break
        got = [l for l in eng.out[out_i:k] if l is not None]
        out_i = k + 1
        if first == "isready":
            got = [l for l in got if l != "readyok"] + ["readyok"]
        eng.wait_for(eng.err, lambda l: l.startswith("verif-state"), err_i, 10)
        time.sleep(0.02)
        errs = [l for l in eng.err[err_i:] if l]
        err_i = len(eng.err)
        if st["panic"]:
            note(f"the session model predicts a panic for `{cmd[:60]}`")
            continue
        immediate = [l for l in got if not SEARCH_NOISE.match(l) and not l.startswith("bestmove")]
        if first == "uci":
            immediate = [re.sub(r"^(id name|id author).*", r"\1", l) for l in immediate]
        if immediate != st["lines"]:
            note(f"after `{cmd[:60]}`: stdout {immediate[:4]} but the session model expects {st['lines'][:4]}")
        # one ordered pass over the window: `info pv` lines belong to the search whose bestmove is still outstanding
        # (the pending go if any, else this go); bestmoves answer, in order, the pending go (if any), then this go
        for l in got:
            this_open = first == "go" and st["lans"] is not None and st.get("_answered") is None and not st["book"]
            if l.startswith("info pv"):
                lans_ = l.split(" ")[2:]
                if pending is not None:
                    pvs.append((pending[0], lans_)); pending_pv[0] = lans_[0] if lans_ else ""
                elif this_open:
                    pvs.append((st["fen_before"], lans_)); st["_pv"] = lans_[0] if lans_ else ""
                else:
                    note(f"`{l[:60]}` without a running search")
                continue
            if not l.startswith("bestmove"):
                continue
            mv = l.split(" ")[1] if " " in l else ""
            if pending is not None:
                if mv not in pending[1]:
                    note(f"bestmove {mv} is not legal in {pending[0]}")
                if pending_pv[0] is not None and mv != pending_pv[0]:
                    note(f"bestmove {mv} is not the first move of the last reported line ({pending_pv[0]} …) of {pending[0]}")
                pending = None
                pending_pv[0] = None
            elif first == "go" and st["lans"] is not None and st.get("_answered") is None:
                if mv not in st["lans"]:
                    note(f"bestmove {mv} is not legal in {st['fen_before']}")
                if st.get("_pv") is not None and mv != st["_pv"]:
                    note(f"bestmove {mv} is not the first move of the last reported line ({st['_pv']} …) of {st['fen_before']}")
                st["_answered"] = True
            else:
                note(f"bestmove {mv} without a pending go (after `{cmd[:40]}`)")
        if st["join"] and pending is not None:
            if pending[1] and strict_bestmove:
                note(f"`{cmd[:40]}` joined the running search of {pending[0]} but no bestmove was printed")
            pending = None
            pending_pv[0] = None
        if first == "go":
            if st["book"]:
                if not st.get("_answered"):
                    note(f"book position {st['fen_before']}: no immediate bestmove")
            elif not st.get("_answered"):
                pending = (st["fen_before"], st["lans"]) if st["lans"] else None
                pending_pv[0] = st.get("_pv")
            if not st["lans"] and st.get("_answered"):
                note(f"a move was reported for {st['fen_before']} which has no legal move")
        if first == ".state":
            ff = fen_from_state_dump(errs)
            if ff != st["fen_after"]:
                note(f".state shows {ff} but the session model says {st['fen_after']}")
        traces = [l for l in errs if l.startswith("verif-state")]
        want = f"verif-state searching={'true' if st['searching'] == '1' else 'false'} artifact={'true' if st['artifact'] == '1' else 'false'}"
        if st["artifact"] == "?" and traces:
            # a search of an illegal position may or may not have panicked: either artifact flag is accepted
            want = want.split(" artifact=")[0] + " artifact=" + traces[-1].split(" artifact=")[-1]
        if not traces:
            note(f"trace: no state trace after `{cmd[:60]}`")
        elif traces[-1] != want:
            # the loop's internal state is compared with the MODEL (tie), it is not an observable of any property
            note(f"trace: after `{cmd[:60]}`: loop state `{traces[-1]}` but the session model says `{want}`")
    if alive:
        if not quit_sent and not eof:
            eng.send("quit")
        rc = eng.close(120)
        if rc != 0:
            note(f"exit status {rc} (expected 0)")
        for l in [l for l in eng.out[out_i:] if l]:
            if l.startswith("bestmove"):
                mv = l.split(" ")[1] if " " in l else ""
                if pending is None:
                    note(f"bestmove {mv} at exit without a pending go")
                else:
                    if mv not in pending[1]:
                        note(f"bestmove {mv} at exit is not legal in {pending[0]}")
                    pending = None
        if pending is not None and pending[1] and strict_bestmove:
            note(f"the go on {pending[0]} was never answered by a bestmove")
    else:
        eng.close(5)
    if capture is not None:
        capture["pvs"] = pvs
        capture["bestmoves"] = [l for l in eng.out if l and l.startswith("bestmove")]
        capture["scores"] = [l for l in eng.out if l and l.startswith("info score")]
    return problems


def wee_hex(s):
    b = s.encode("utf-8")
    return b.hex() if b else "-"


def unhex(h):
    return "" if h == "-" else bytes.fromhex(h).decode("utf-8", "replace")


# ------------------------------------------------------------------------------------------------
# session generators

def random_walk(pl, rnd, fen, n):
    """n legal moves from fen via the model/spec: (lan list, final fen)"""
    lans = []
    for _ in range(n):
        cur = sorted(pl.legal_lans(fen))
        if not cur:
            break
        lan = rnd.choice(cur)
        nxt = pl.spec_play(fen, [lan])
        if nxt is None:
            break
        lans.append(lan)
        fen = nxt
    return lans, fen


NONBOOK = [
    "r3k2r/p1ppqpb1/bn2pnp1/3PN3/1p2P3/2N2Q1p/PPPBBPPP/R3K2R w KQkq - 0 1",
    "8/2p5/3p4/KP5r/1R3p1k/8/4P1P1/8 w - - 0 1",
    "4k3/p6p/Pp4pP/1Pp2pP1/2Pp1P2/3P4/8/4K2R w K - 0 1",
    "k7/8/2K5/8/8/8/8/7R w - - 0 1",
    "6k1/5ppp/8/8/8/8/5PPP/3R2K1 w - - 0 1",
    "r4rk1/1pp1qppp/p1np1n2/2b1p1B1/2B1P1b1/P1NP1N2/1PP1QPPP/R4RK1 w - - 0 10",
]


def gen_session(pl, rnd, kind="mixed"):
    cmds = []
    def add(c, d=0.0):
        cmds.append((c, d))
    if rnd.random() < 0.7:
        add("uci")
    n = rnd.randrange(4, 10)
    for _ in range(n):
        r = rnd.random()
        if r < 0.3:
            if rnd.random() < 0.4:
                lans, _ = random_walk(pl, rnd, "rnbqkbnr/pppppppp/8/8/8/8/PPPPPPPP/RNBQKBNR w KQkq - 0 1", rnd.randrange(0, 14))
                add("position startpos" + (" moves " + " ".join(lans) if lans else ""))
            else:
                f = rnd.choice(NONBOOK)
                lans, _ = random_walk(pl, rnd, f, rnd.randrange(0, 5))
                add(f"position fen {f}" + (" moves " + " ".join(lans) if lans else ""))
            add(".state")
        elif r < 0.6:
            g = rnd.random()
            if g < 0.45:
                add(f"go depth {rnd.choice([1, 1, 2, 2, 3])}", 0)
            elif g < 0.8:
                add(f"go movetime {rnd.choice([0, 1, 50, 150, 300])}")
            else:
                add("go")
            if rnd.random() < 0.5:
                add(rnd.choice(["stop", "isready", "stop"]), rnd.choice([0, 0.02, 0.2, 0.5]))
        elif r < 0.7:
            add("stop", rnd.choice([0, 0.1]))
        elif r < 0.8:
            add("ucinewgame")
        elif r < 0.9:
            add("isready")
        else:
            add("uci")
    return cmds


def garbage_lines(rnd, n):
    out = []
    alpha = "abcdefgh12345678 qrbn-+=xO/KQkq\t"
    for _ in range(n):
        k = rnd.randrange(12)
        if k == 0:
            out.append("position startpos moves " + rnd.choice(["e2", "e", "e2e", "é2e4", "e2é4", "e2e4x", "e2e4qq", "0000", "e2e4 e7", "♔", "e9e4", "i2i4"]))
        elif k == 1:
            out.append("position fen " + rnd.choice(["", "8/8/8/8/8/8/8/8", "8/8/8/8/8/8/8/" + "8" * 32 + " w - - 0 1", "rnbqkbnr/pppppppp/8/8/8/8/PPPPPPPP/RNBQKBNR w KQkq - 0 99999999999999999999", "x y z"]))
        elif k == 2:
            out.append("go " + rnd.choice(["depth", "depth x", "depth -1", "movetime", "movetime 99999999999", "movetime -5", "movetime -50", "movetime -2147483648",
                                           "movetime 2147483647", "movetime 0", "depth 0", "depth 18446744073709551615", "depth 1 movetime -1", "movetime 1 depth 1",
                                           "wtime 100", "depth 1 movetime", "infinite"]))
            out.append("stop")
        elif k == 3:
            out.append("position " + rnd.choice(["", "moves", "startpos moves", "fen", "startposx", "startpos moves e2e4 e2e4"]))
        elif k == 4:
            out.append("".join(rnd.choice(alpha) for _ in range(rnd.randrange(0, 30))))
        elif k == 5:
            out.append("".join(chr(rnd.choice([rnd.randrange(32, 127), rnd.randrange(0xA0, 0x3000)])) for _ in range(rnd.randrange(1, 20))))
        elif k == 6:
            out.append(rnd.choice(["", " ", "\t", "GO", "Position startpos", "quit_", "isreadyx", ".status", ".state extra", "stop now", "ucinewgame 1"]))
        elif k == 7:
            out.append("position startpos moves " + " ".join(rnd.choice(["e2e4", "e7e5", "a1a1", "h7h8q", "e1g1"]) for _ in range(rnd.randrange(1, 6))))
        elif k == 8:
            out.append("x" * rnd.choice([1000, 70000]))
        elif k == 9:
            out.append("position fen " + "".join(rnd.choice("rnbqkpRNBQKP12345678/ wb-KQkqabcdefgh0") for _ in range(rnd.randrange(5, 80))))
        elif k == 10:
            out.append("go depth 1")
        else:
            out.append("isready")
    return out
