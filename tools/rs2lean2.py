#!/usr/bin/env python3
"""Tie (a) for FUNCTIONS, stage 2: bitboards, Zobrist hash, attack look-ups, Board::new, State::by_performing_move.

    python3 tools/rs2lean2.py [--repo DIR] [--out FILE] [--check]

Imports `tools/rs2lean.py` as a module, runs stage 1 unchanged (its registry of translated functions is the
vocabulary stage-2 functions may call; `lean/Wee/Gen/MoveFns.lean` is NOT written by this tool) and translates the
items of `CONTAINERS2` below into `lean/Wee/Gen/CoreFns.lean` (same namespace `Wee.GenFns`, `import Wee.Gen.MoveFns`).
`Wee/Proofs/CoreFnsBridge.lean` proves every generated function equal to the hand-written model.
Anything outside the supported subset fails CLOSED: `TIE-BROKEN rs2lean2: <reason>`, exit status 2.

======================================================================================================
TRUSTED PART 1 (additions to the table of rs2lean.py) -- semantics given to the extended Rust subset
------------------------------------------------------------------------------------------------------
 u64                                  UInt64;  `Hash` = u64;  newtypes BitBoard(u64), BitIterator(BitBoard), Index(usize)
 a << b, a >> b, NON-constant b       CHECKED: `UIntN.checked_shl a b'` = panic unless 0 <= b < width (debug profile panics,
                                      release masks the amount; a result `some v` means both agree).  Constant amounts as in stage 1.
 u64::wrapping_mul(a, b)              `a * b` on UInt64 (wraps)
 x.trailing_zeros() / leading_zeros() / count_ones()   (x: u64)   prelude functions `u64.trailing_zeros` ... defined by
                                      recursion on a bit counter (bridge: equal to the model's list-based firstOne/lastOne/popcount)
 u64::BITS                            (64 : UInt32)
 struct S { f: T, .. }                Lean `structure S` GENERATED from the declaration text (fields listed in `STRUCT_DECLS`
                                      as omitted are dropped: caches that no translated function reads)
 S { f: e, .. } / Self { .. }         `({ f := e, .. } : S)`;   e.f  ->  `S.f e`
 ArrayMap<K, V>, [T; N], Vec<T>       `Array V`;  `m[k]` = `ArrayMap.index m (Index.from_K k)` where `Index.from_K` is the TRANSLATED
                                      `impl From<K> for Index`; out of bounds = panic.  `m[k] = v`, `m[k].f(..)` with `&mut self`,
                                      `m[k] |= v`: read-modify-write through `ArrayMap.set` (out of bounds = panic)
 &'static [T] constants               `List T`
 match e { pat => a, .. }             Lean `match` (patterns: enum variants, Some/None, `_`, bindings, tuples); no guards
 if let P = e { a } else { b }        `match e with | P => a | _ => b`
 let P = e else { return r; };        `match e with | P => <rest> | _ => r`
 return e  (only as the last statement of a branch)   the branch yields `e`; the statements after the enclosing `if`/`match`
                                      go into the branch(es) that do not return
 for x in C  (C a constant slice/array, `.iter()`)    `List.foldl` / `List.foldlM` over the list, the state being the outer
                                      variables assigned in the body (a tuple when more than one); no `break`/`continue`/`return`
 for x in lo..hi                      fold over `IntN.range lo hi` (ascending, empty when hi <= lo)
 for x in e  (e : BitIterator)        fold over `iter_collect BitIterator.next 65 e`: the items produced by calling the TRANSLATED
                                      `next` until it answers `None`; running out of the 65 calls is reported as a panic (the bridge
                                      proves it never happens: every call clears one of 64 bits)
 f(&mut self, ..) -> T                returns the pair (T, new self)
 x.map(|p| e) with e panicking        `match x with | none => pure none | some p => do ..`
 enum as usize                        `UInt8.toUInt64 (E.into_u8 v)` (stage-1 primitive: the discriminant)
 lazy_static! { static ref N: T = e; }  the constant `e` (evaluated once; no interior mutability in T)
 `?` / `return` / let-else on some path of a statement `if`/`match` that other paths leave normally
                                      the statement yields `Early.ret r | Early.cont (assigned variables)`, followed by one `match`
 let x = { stmts; e };                the statements inlined, then `let x := e` (a name declared inside must not be used after it)
 Result<T, E>, x.ok_or(E::V), Err(E::V)   `Option T` (payload dropped, as in stage 1); `E::V` must be a variant of `ERROR_ENUMS`
 usize::saturating_add                `UInt64.saturating_add`
 let x <- if/match ..                 emitted PARENTHESISED (a term): Lean builds `bind (ite ..) k`, no `do` join point

TRUSTED PART 2 (additions) -- primitive mappings
------------------------------------------------------------------------------------------------------
 data::ROOK_MAGIC_TABLE[sq][i]        `tget (Wee.rookTables.getD sq 0) i` for sq < 64, i < 4096 (Vec of 4096 entries), else panic.
 data::BISHOP_MAGIC_TABLE[sq][i]      the same with `Wee.bishopTables`.  (The CONTENT of the tables is the model's fold
                                      `buildTable`, tied to `compute_*_magic_table` by C09 / `Wee/Proofs/MagicCheck.lean`.)
 data::ROOK_MAGICS / BISHOP_MAGICS    `Gen.rookMagics` / `Gen.bishopMagics` (values via tools/extract.py, one module per square)
 data::ROOK_MAGIC_INDEXES / BISHOP_.. `Gen.rookBitsTab` / `Gen.bishopBitsTab` as u8
 data::ROOK_SLIDE_MASKS / BISHOP_..   `Array.ofFn rookMask` / `bishopMask` (model; built from RAYS by `compute_*_slide_masks`)
 data::KNIGHT_ATTACKS, KING_ATTACKS, PAWN_ATTACKS   TRANSLATED from `compute_knight_attacks` ... (not primitives)
======================================================================================================
"""
import argparse
import os
import re
import sys

sys.dont_write_bytecode = True
sys.path.insert(0, os.path.dirname(os.path.abspath(__file__)))
import rs2lean as R  # noqa: E402

from rs2lean import N, Tok, TVar, TieBroken, fail, prune, mangle  # noqa: E402

VERIF = R.VERIF
DEFAULT_OUT = os.path.join(VERIF, "lean", "Wee", "Gen", "CoreFns.lean")

MOVES, PIECE, COLOR, BOARD, EVAL = R.MOVES, R.PIECE, R.COLOR, R.BOARD, R.EVAL
UTILS = "weechess-core/src/utils.rs"
HASHER = "weechess-core/src/hasher.rs"
ATTACKS = "weechess-core/src/attacks.rs"
STATE = "weechess-core/src/state.rs"
COMMON = "weechess-core/src/common.rs"

# ----------------------------------------------------------------------------------------------------
# TABLES
# ----------------------------------------------------------------------------------------------------
DECLS2 = [
    (STATE, r"pub enum MovePerformError \{\s*AmbiguousMove,\s*IllegalEnPassant,\s*UnknownMove,\s*\}", "enum MovePerformError"),
    (BOARD, r"#\[derive\(([^)]*\bPartialEq\b[^)]*)\)\]\s*pub struct BitBoard\(u64\);", "struct BitBoard(u64) with derive(PartialEq)"),
    (BOARD, r"pub struct BitIterator\(BitBoard\);", "struct BitIterator(BitBoard)"),
    (UTILS, r"pub struct Index\(pub usize\);", "struct Index(pub usize)"),
    (HASHER, r"pub type Hash = u64;", "type Hash = u64"),
    (UTILS, r"impl<I, T> std::ops::Index<I> for ArrayMap<I, T>\s*where[^{]*\{\s*type Output = T;\s*fn index\(&self, index: I\) "
            r"-> &Self::Output \{\s*&self\.array\[index\.into\(\)\.0\]\s*\}\s*\}", "ArrayMap: Index<I> = array[index.into().0]"),
    (UTILS, r"impl<I, T> std::ops::IndexMut<I> for ArrayMap<I, T>\s*where[^{]*\{\s*fn index_mut\(&mut self, index: I\) "
            r"-> &mut Self::Output \{\s*&mut self\.array\[index\.into\(\)\.0\]\s*\}\s*\}",
     "ArrayMap: IndexMut<I> = array[index.into().0]"),
    (UTILS, r"pub const fn new\(array: \[T; I::COUNT\]\) -> Self \{\s*Self \{\s*array,\s*_marker: PhantomData,\s*\}\s*\}",
     "ArrayMap::new(array) stores the array"),
    (ATTACKS, r"type MagicTable = Vec<BitBoard>;", "type MagicTable = Vec<BitBoard>"),
    (ATTACKS, r"type SquareMap<T> = ArrayMap<Square, T>;", "type SquareMap<T> = ArrayMap<Square, T>"),
    (ATTACKS, r"RookMagicTable::from_fn\(\|_\| vec!\[BitBoard::ZERO; 4096\]\)", "rook magic tables have 4096 entries"),
    (ATTACKS, r"BishopMagicTable::from_fn\(\|_\| vec!\[BitBoard::ZERO; 4096\]\)", "bishop magic tables have 4096 entries"),
    (ATTACKS, r"pub static ref ROOK_MAGIC_TABLE: RookMagicTable = compute_rook_magic_table\(\);", "ROOK_MAGIC_TABLE"),
    (ATTACKS, r"pub static ref BISHOP_MAGIC_TABLE: BishopMagicTable = compute_bishop_magic_table\(\);", "BISHOP_MAGIC_TABLE"),
    (ATTACKS, r"pub static ref ROOK_SLIDE_MASKS: SquareMap<BitBoard> = compute_rook_slide_masks\(\);", "ROOK_SLIDE_MASKS"),
    (ATTACKS, r"pub static ref BISHOP_SLIDE_MASKS: SquareMap<BitBoard> = compute_bishop_slide_masks\(\);", "BISHOP_SLIDE_MASKS"),
    (ATTACKS, r"pub static ref ROOK_MAGICS: ArrayMap<Square, BitBoard> = ArrayMap::new\(\[", "ROOK_MAGICS"),
    (ATTACKS, r"pub static ref BISHOP_MAGICS: ArrayMap<Square, BitBoard> = ArrayMap::new\(\[", "BISHOP_MAGICS"),
    (ATTACKS, r"pub const ROOK_MAGIC_INDEXES: ArrayMap<Square, u8> = ArrayMap::new\(\[", "ROOK_MAGIC_INDEXES"),
    (ATTACKS, r"pub const BISHOP_MAGIC_INDEXES: ArrayMap<Square, u8> = ArrayMap::new\(\[", "BISHOP_MAGIC_INDEXES"),
]

NEWTYPES2 = {"BitBoard": "u64", "BitIterator": "BitBoard", "Index": "usize"}
ALIASES2 = {"Hash": "u64"}
EQ_NEWTYPES = {"BitBoard", "Square", "File", "Rank", "PieceIndex", "Move", "Index"}   # derive(PartialEq) checked by DECLS/DECLS2

# struct declarations translated into Lean structures: (file, name, {omitted field: reason}, derives that must be present)
STRUCT_DECLS = [
    (STATE, "CastleRights", {}, ["PartialEq"]),
    (STATE, "Clock", {}, []),
    (BOARD, "AttackMap", {}, []),
    (BOARD, "Board", {"colored_attack_map": "OnceCell cache of AttackMap::from_occupancy; a pure function of the other fields, "
                                            "read by no translated function (modelled in Wee/Model/AttackCache.lean)"}, []),
    (STATE, "State", {}, []),
    (HASHER, "ZobristHasher", {}, []),
]

# error enums: `x.ok_or(E::V)` / `Err(E::V)` drop the payload (Result<T, E> is `Option T`, as in stage 1)
ERROR_ENUMS = {"MovePerformError": ["AmbiguousMove", "IllegalEnPassant", "UnknownMove"]}
# initialisers of omitted struct fields (must be effect-free): checked textually
OMITTED_INIT = {("Board", "colored_attack_map"): "ArrayMap :: new ( [ OnceCell :: new ( ) , OnceCell :: new ( ) ] )"}

# iterators: newtype -> (translated `next`, fuel, item type)
ITERATORS = {"BitIterator": ("next", 65, "u32")}

# lazy_static tables mapped to the model (TRUSTED PART 2): name -> (lean, type)
SQMAP_BB = ("ArrayMap", ("tuple", ("Square", "BitBoard")))
PRIM_STATICS = {
    ("data", "ROOK_MAGICS"): ("data.ROOK_MAGICS", SQMAP_BB),
    ("data", "BISHOP_MAGICS"): ("data.BISHOP_MAGICS", SQMAP_BB),
    ("data", "ROOK_MAGIC_INDEXES"): ("data.ROOK_MAGIC_INDEXES", ("ArrayMap", ("tuple", ("Square", "u8")))),
    ("data", "BISHOP_MAGIC_INDEXES"): ("data.BISHOP_MAGIC_INDEXES", ("ArrayMap", ("tuple", ("Square", "u8")))),
    ("data", "ROOK_SLIDE_MASKS"): ("data.ROOK_SLIDE_MASKS", SQMAP_BB),
    ("data", "BISHOP_SLIDE_MASKS"): ("data.BISHOP_SLIDE_MASKS", SQMAP_BB),
    ("data", "ROOK_MAGIC_TABLE"): ("data.ROOK_MAGIC_TABLE", ("MagicTables", "rook")),
    ("data", "BISHOP_MAGIC_TABLE"): ("data.BISHOP_MAGIC_TABLE", ("MagicTables", "bishop")),
}


def C(file, path, self_ty, ns, fns, mod=None, complete=False, consts=False, trait=None, skip=None, statics=None,
      only_consts=None):
    d = dict(file=file, path=path, self=self_ty, ns=ns, mod=mod, complete=complete, fns=fns, consts=consts)
    if trait:
        d["trait"] = trait
    d["skip"] = skip or {}
    d["statics"] = statics or []
    d["only_consts"] = only_consts
    return d


def H(s):
    """header string -> token list"""
    return [t.s for t in R.lex(s, "<header>")]


CONTAINERS2 = [
    # ---- board.rs: small constants
    C(BOARD, [H("impl File")], "File", "File", [], consts=True),
    C(BOARD, [H("impl Rank")], "Rank", "Rank", [], consts=True),
    C(BOARD, [H("impl Offset")], "Offset", "Offset", [], consts=True),
    C(BOARD, [H("impl Side")], "Side", "Side", [], consts=True),
    C(BOARD, [H("impl Square")], "Square", "Square", [], consts=True),
    C(BOARD, [H("impl Into<u32> for Square")], "Square", "Square", ["into"], complete=True, trait=("into", "u32")),
    C(BOARD, [H("impl From<u32> for Square")], "Square", "Square", ["from"], complete=True, trait=("from", "u32")),
    C(BOARD, [H("impl From<Square> for Index")], "Index", "Index", ["from"], complete=True, trait=("from", "Square")),
    C(BOARD, [H("impl From<File> for Index")], "Index", "Index", ["from"], complete=True, trait=("from", "File")),
    C(BOARD, [H("impl From<Rank> for Index")], "Index", "Index", ["from"], complete=True, trait=("from", "Rank")),
    C(BOARD, [H("impl From<Side> for Index")], "Index", "Index", ["from"], complete=True, trait=("from", "Side")),
    C(COLOR, [H("impl From<Color> for utils::Index")], "Index", "Index", ["from"], complete=True, trait=("from", "Color")),
    C(PIECE, [H("impl From<Piece> for utils::Index")], "Index", "Index", ["from"], complete=True, trait=("from", "Piece")),
    C(PIECE, [H("impl PieceIndex")], "PieceIndex", "PieceIndex", ["index", "some"], consts=True),
    C(PIECE, [H("impl From<PieceIndex> for utils::Index")], "Index", "Index", ["from"], complete=True,
      trait=("from", "PieceIndex")),
    C(PIECE, [H("impl Piece")], "Piece", "Piece", [], consts=True),
    C(COLOR, [H("impl Color")], "Color", "Color", ["opposing_color", "forward", "backward"], consts=True, complete=True),
    C(COLOR, [H("impl Not for Color")], "Color", "Color", ["not"], complete=True),
    C(COMMON, [], None, "common", [], mod="common", consts=True, only_consts=["RANK_MASKS", "FILE_MASKS"]),
    # ---- board.rs: BitBoard
    C(BOARD, [H("impl BitBoard")], "BitBoard", "BitBoard",
      ["new", "just", "any", "none", "first_one", "first_square", "last_one", "iter_ones", "set", "set_raw", "test",
       "test_raw", "pop", "shift", "count_ones"], consts=True, complete=True),
    C(BOARD, [H("impl Not for BitBoard")], "BitBoard", "BitBoard", ["not"], complete=True),
    C(BOARD, [H("impl BitOr for BitBoard")], "BitBoard", "BitBoard", ["bitor"], complete=True),
    C(BOARD, [H("impl BitOrAssign for BitBoard")], "BitBoard", "BitBoard", ["bitor_assign"], complete=True),
    C(BOARD, [H("impl BitAnd for BitBoard")], "BitBoard", "BitBoard", ["bitand"], complete=True),
    C(BOARD, [H("impl BitAndAssign for BitBoard")], "BitBoard", "BitBoard", ["bitand_assign"], complete=True),
    C(BOARD, [H("impl Into<u64> for BitBoard")], "BitBoard", "BitBoard", ["into"], complete=True, trait=("into", "u64")),
    C(BOARD, [H("impl From<u64> for BitBoard")], "BitBoard", "BitBoard", ["from"], complete=True, trait=("from", "u64")),
    C(BOARD, [H("impl Iterator for BitIterator")], "BitIterator", "BitIterator", ["next"], complete=True),
    # ---- state.rs / board.rs accessors used by the hasher
    C(STATE, [H("impl CastleRights")], "CastleRights", "CastleRights", ["both", "none", "for_side"], consts=True,
      complete=True),
    C(BOARD, [H("impl Board")], "Board", "Board", ["new", "occupancy", "vacancy", "piece_occupancy", "piece_map",
                                                   "colored_occupancy"]),
    C(STATE, [H("impl State")], "State", "State", ["board", "turn_to_move", "castle_rights", "en_passant_target", "clock",
                                                   "by_performing_move"]),
    # ---- attacks.rs
    C(ATTACKS, [H("mod data")], None, "data", ["compute_knight_attacks", "compute_king_attacks", "compute_pawn_attacks"],
      mod="data", statics=["KNIGHT_ATTACKS", "KING_ATTACKS", "PAWN_ATTACKS"]),
    C(ATTACKS, [H("impl AttackGenerator")], "AttackGenerator", "AttackGenerator",
      ["compute_bishop_attacks", "compute_rook_attacks", "compute_queen_attacks", "compute_knight_attacks",
       "compute_king_attacks", "compute_pawn_attacks"], complete=True,
      skip={"compute": "dispatch through a constant table of closures (`COMPUTE_MAP[piece.piece()](..)`): function pointers are "
                       "outside the subset; the model's `attacksOf` stays tied by correspondence (C09/C10)"}),
    # ---- hasher.rs
    C(HASHER, [H("impl ZobristHasher")], "ZobristHasher", "ZobristHasher", ["hash"], complete=True,
      skip={"with": "generic over `R: Rng` (key generation; modelled in Wee/Model/Hash.lean `KeyTable.ofRng`, tied by correspondence)"}),
]

GLOBAL_MODS = {"common"}     # modules whose items are re-exported at crate level (`pub use common::*`)

STAGE2_INT = {"u64": ("UInt64", 64, False)}

PRELUDE2 = r'''
/-! ## Prelude of stage 2 (fixed vocabulary; see the tables at the top of `tools/rs2lean2.py`) -/

abbrev BitBoard := UInt64
abbrev BitIterator := BitBoard
abbrev Index := UInt64
abbrev Hash := UInt64

/-! checked shifts by a NON-constant amount (debug profile: an amount outside `0 .. width-1` panics; release masks it) -/
def UInt64.checked_shl (a : UInt64) (b : Int) : Panics UInt64 := if 0 ≤ b ∧ b < 64 then some (a <<< b.toNat.toUInt64) else none
def UInt64.checked_shr (a : UInt64) (b : Int) : Panics UInt64 := if 0 ≤ b ∧ b < 64 then some (a >>> b.toNat.toUInt64) else none

/-! `u64::trailing_zeros`, `leading_zeros`, `count_ones`: recursion on a bit counter -/
/-- lowest `i` in `i .. i+fuel-1` whose bit is set, else `i + fuel` -/
def u64.tz_go (x : UInt64) : Nat → Nat → Nat
  | 0, i => i
  | fuel+1, i => if x.toNat.testBit i then i else u64.tz_go x fuel (i + 1)
/-- `x.trailing_zeros()` (64 for 0) -/
def u64.trailing_zeros (x : UInt64) : UInt32 := (u64.tz_go x 64 0).toUInt32
/-- number of zero bits above the highest set bit among bits `0 .. n-1`, counted from bit 63 (64 if none is set) -/
def u64.lz_go (x : UInt64) : Nat → Nat
  | 0 => 64
  | n+1 => if x.toNat.testBit n then 63 - n else u64.lz_go x n
/-- `x.leading_zeros()` (64 for 0) -/
def u64.leading_zeros (x : UInt64) : UInt32 := (u64.lz_go x 64).toUInt32
/-- number of set bits among bits `0 .. n-1` -/
def u64.pc_go (x : UInt64) : Nat → Nat
  | 0 => 0
  | n+1 => (if x.toNat.testBit n then 1 else 0) + u64.pc_go x n
/-- `x.count_ones()` -/
def u64.count_ones (x : UInt64) : UInt32 := (u64.pc_go x 64).toUInt32
/-- `u64::BITS` -/
def u64.BITS : UInt32 := 64

/-! `ArrayMap<K, V>` / arrays / `Vec`: Lean `Array`; an index out of bounds is a panic -/
def ArrayMap.index {α : Type} (a : Array α) (i : Index) : Panics α := a[i.toNat]?
def ArrayMap.set {α : Type} (a : Array α) (i : Index) (v : α) : Panics (Array α) :=
  if i.toNat < a.size then some (a.setIfInBounds i.toNat v) else none

/-- `for x in it`: the items produced by calling `next` until it answers `None`, at most `fuel` calls
(running out of fuel is reported as a panic; the bridge proves it does not happen) -/
def iter_collect {σ α : Type} (next : σ → Panics (Option α × σ)) : Nat → σ → Panics (List α)
  | 0, _ => none
  | fuel+1, s =>
    match next s with
    | none => none
    | some (Option.none, _) => some []
    | some (Option.some x, s') =>
      match iter_collect next fuel s' with
      | none => none
      | some rest => some (x :: rest)

/-- a statement (`if`/`match` with a `return` or `?` on some path) either leaves the function with its result or
continues with the new values of the variables it assigns -/
inductive Early (ρ α : Type) where
  | ret : ρ → Early ρ α
  | cont : α → Early ρ α

/-- `usize::saturating_add` -/
def UInt64.saturating_add (a b : UInt64) : UInt64 := if a.toNat + b.toNat < 2 ^ 64 then a + b else 0xFFFFFFFFFFFFFFFF

/-- `lo..hi` on `i8` (ascending, empty when `hi ≤ lo`) -/
def Int8.range (lo hi : Int8) : List Int8 := (List.range (hi.toInt - lo.toInt).toNat).map fun k => lo + Int8.ofNat k

/-! lazy_static tables of `attacks.rs` mapped to the model (TRUSTED PART 2) -/
def data.ROOK_MAGICS : Array BitBoard := Gen.rookMagics
def data.BISHOP_MAGICS : Array BitBoard := Gen.bishopMagics
def data.ROOK_MAGIC_INDEXES : Array UInt8 := Gen.rookBitsTab.map Nat.toUInt8
def data.BISHOP_MAGIC_INDEXES : Array UInt8 := Gen.bishopBitsTab.map Nat.toUInt8
def data.ROOK_SLIDE_MASKS : Array BitBoard := Array.ofFn (n := 64) fun sq => rookMask sq.val
def data.BISHOP_SLIDE_MASKS : Array BitBoard := Array.ofFn (n := 64) fun sq => bishopMask sq.val
/-- `data::ROOK_MAGIC_TABLE[sq][i]` (64 `Vec`s of 4096 entries; content = the model's table) -/
def data.ROOK_MAGIC_TABLE (sq : Index) (i : UInt64) : Panics BitBoard :=
  if sq.toNat < 64 ∧ i.toNat < 4096 then some (tget (rookTables.getD sq.toNat 0) i.toNat) else none
/-- `data::BISHOP_MAGIC_TABLE[sq][i]` -/
def data.BISHOP_MAGIC_TABLE (sq : Index) (i : UInt64) : Panics BitBoard :=
  if sq.toNat < 64 ∧ i.toNat < 4096 then some (tget (bishopTables.getD sq.toNat 0) i.toNat) else none
'''


# ----------------------------------------------------------------------------------------------------
# module-level helpers of rs2lean extended (installed after stage 1 has run)
# ----------------------------------------------------------------------------------------------------
STRUCT_NAMES = {d[1] for d in STRUCT_DECLS} | {"Offset"}
_orig = {}


def prune2(t):
    while isinstance(t, TVar) and t.ref is not None:
        t = t.ref
    if isinstance(t, tuple):
        if t[0] in ("ref", "refmut"):
            return prune2(t[1])
        if t[0] in ("Option", "ArrayMap", "Vec", "slice", "array"):
            return (t[0], prune2(t[1]))
        if t[0] == "tuple":
            return ("tuple", tuple(prune2(x) for x in t[1]))
        return t
    if isinstance(t, str):
        return R.ALIASES.get(t, t)
    return t


def show_ty2(t):
    t = prune2(t)
    if isinstance(t, tuple):
        if t[0] == "tuple":
            return "(" + ", ".join(show_ty2(x) for x in t[1]) + ")"
        if t[0] == "ArrayMap":
            return f"ArrayMap<{show_ty2(t[1][1][0])}, {show_ty2(t[1][1][1])}>"
        if t[0] == "MagicTables":
            return "ArrayMap<Square, Vec<BitBoard>>"
        if t[0] == "MagicTable":
            return "Vec<BitBoard>"
        return f"{t[0]}<{show_ty2(t[1])}>"
    return str(t)


def has_tvar2(t):
    t = prune2(t)
    if isinstance(t, TVar):
        return True
    if isinstance(t, tuple):
        if t[0] == "tuple":
            return any(has_tvar2(x) for x in t[1])
        if t[0] in ("MagicTables", "MagicTable"):
            return False
        return has_tvar2(t[1])
    return False


def lean_ty2(t, atom=False):
    t = prune2(t)
    if isinstance(t, TVar):
        fail("internal: unresolved type variable at emission")
    if isinstance(t, tuple):
        if t[0] == "Option":
            s = f"Option {lean_ty2(t[1], True)}"
            return f"({s})" if atom else s
        if t[0] == "tuple" and len(t[1]) >= 2:
            return "(" + " × ".join(lean_ty2(x, True) for x in t[1]) + ")"
        if t[0] == "ArrayMap":
            s = f"Array {lean_ty2(t[1][1][1], True)}"
            return f"({s})" if atom else s
        if t[0] in ("Vec", "array"):
            s = f"Array {lean_ty2(t[1], True)}"
            return f"({s})" if atom else s
        if t[0] == "slice":
            s = f"List {lean_ty2(t[1], True)}"
            return f"({s})" if atom else s
        fail(f"type {show_ty2(t)} not supported")
    if t in R.INT_TYPES:
        return R.INT_TYPES[t][0]
    if t == "bool":
        return "Bool"
    if t == "unit":
        return "Unit"
    if t in R.NEWTYPES or t in R.ENUMS or t in R.STRUCTS:
        return t
    fail(f"type `{t}` is outside the supported subset")


def ty_suffix2(t):
    t = prune2(t)
    if isinstance(t, tuple) and t[0] == "tuple":
        return "_".join(ty_suffix2(x) for x in t[1])
    if isinstance(t, tuple):
        return t[0] + "_" + ty_suffix2(t[1])
    return str(t)


def children2(e):
    k = e.k
    if k == "match":
        return [e.scrut] + [a.body for a in e.arms]
    if k == "arm":
        return [e.body]
    if k == "iflet":
        return [e.scrut, e.th] + ([e.el] if e.el else [])
    if k == "for":
        return [e.it, e.body]
    if k == "range":
        return [e.lo, e.hi]
    if k == "whilelet":
        return [e.scrut, e.body]
    if k == "return":
        return [e.e] if e.e is not None else []
    if k == "try":
        return [e.e]
    if k == "structlit":
        return [x for _, x in e.fields]
    if k == "arraylit":
        return list(e.items)
    if k == "repeat":
        return [e.e, e.n]
    if k == "letelse":
        return [e.init, e.els]
    return _orig["children"](e)


def expr_tokens(e):
    """re-print an expression as a token string (for textual checks of omitted initialisers)"""
    k = e.k
    if k == "path":
        return " :: ".join(e.segs).split(" ")
    if k == "call":
        out = " :: ".join(e.fn).split(" ") + ["("]
        for i, a in enumerate(e.args):
            if i:
                out.append(",")
            out += expr_tokens(a)
        return out + [")"]
    if k == "arraylit":
        out = ["["]
        for i, a in enumerate(e.items):
            if i:
                out.append(",")
            out += expr_tokens(a)
        return out + ["]"]
    return ["<" + k + ">"]


def install():
    """extend the module-level tables/functions of rs2lean (called AFTER stage 1 has run, so stage 1 is untouched)"""
    for name in ("prune", "show_ty", "has_tvar", "lean_ty", "ty_suffix", "children"):
        _orig[name] = getattr(R, name)
    R.prune, R.show_ty, R.has_tvar, R.lean_ty, R.ty_suffix, R.children = \
        prune2, show_ty2, has_tvar2, lean_ty2, ty_suffix2, children2
    R.INT_TYPES.update(STAGE2_INT)
    R.NEWTYPES.update(NEWTYPES2)
    R.ALIASES.update(ALIASES2)
    R.LEAN_KEYWORDS.update({"st", "loop_state"})


prune = prune2          # this module always uses the extended versions


# ----------------------------------------------------------------------------------------------------
# item scanner (fns incl. generic ones, consts, lazy_static statics, struct declarations)
# ----------------------------------------------------------------------------------------------------
def scan_items2(toks, lo, hi, fname):
    """fns, consts and `static ref`s declared directly in toks[lo:hi] (and inside `lazy_static! { .. }` blocks there)"""
    fns, consts, statics = [], [], []
    attrs = []
    i = lo
    while i < hi:
        t = toks[i]
        if t.s == "#" and i + 1 < hi and toks[i + 1].s == "[":
            c = R.match_close(toks, i + 1, "[", "]")
            attrs.append(" ".join(x.s for x in toks[i + 2:c]))
            i = c + 1
            continue
        if t.s == "lazy_static" and toks[i + 1].s == "!" and toks[i + 2].s == "{":
            c = R.match_close(toks, i + 2, "{", "}")
            f2, c2, s2 = scan_items2(toks, i + 3, c, fname)
            if f2 or c2:
                fail(f"{fname}:{t.line}: unexpected item in lazy_static!")
            statics.extend(s2)
            i = c + 1
            attrs = []
            continue
        if t.s == "static" and toks[i + 1].s == "ref" and toks[i + 2].k == "id" and toks[i + 3].s == ":":
            j = i
            while toks[j].s != ";":
                if toks[j].s in ("{", "(", "["):
                    j = R.match_close(toks, j, toks[j].s, {"{": "}", "(": ")", "[": "]"}[toks[j].s])
                j += 1
            statics.append((toks[i + 2].s, toks[i + 4:j], t.line, attrs))
            attrs = []
            i = j + 1
            continue
        if t.s == "fn":
            name = toks[i + 1].s
            p = i + 2
            generic = False
            if toks[p].s == "<":
                generic = True
                while toks[p].s != "(":
                    p += 1
            pc = R.match_close(toks, p, "(", ")")
            j = pc + 1
            while toks[j].s not in ("{", ";"):
                j += 1
            if toks[j].s == ";":
                i = j + 1
                attrs = []
                continue
            bc = R.match_close(toks, j, "{", "}")
            raw = R.RawFn(name, attrs, toks[p:j], toks[j:bc + 1], t.line, (j, bc))
            raw.generic = generic
            fns.append(raw)
            attrs = []
            i = bc + 1
            continue
        if t.s == "const" and toks[i + 1].k == "id" and toks[i + 2].s == ":":
            j = i
            while toks[j].s != ";":
                if toks[j].s in ("{", "(", "["):
                    j = R.match_close(toks, j, toks[j].s, {"{": "}", "(": ")", "[": "]"}[toks[j].s])
                j += 1
            consts.append((toks[i + 1].s, toks[i + 3:j], t.line, attrs))
            attrs = []
            i = j + 1
            continue
        if t.s == "{":
            i = R.match_close(toks, i, "{", "}") + 1
            attrs = []
            continue
        if t.s == ";":
            attrs = []
        i += 1
    return fns, consts, statics


def find_struct(toks, name, fname):
    """`struct NAME { fields }` at top level -> (derive list, [(field, type tokens, line)])"""
    hits = []
    i = 0
    attrs = []
    while i < len(toks):
        t = toks[i]
        if t.s == "#" and toks[i + 1].s == "[":
            c = R.match_close(toks, i + 1, "[", "]")
            attrs.append([x.s for x in toks[i + 2:c]])
            i = c + 1
            continue
        if t.s == "struct" and toks[i + 1].s == name and toks[i + 2].s == "{":
            c = R.match_close(toks, i + 2, "{", "}")
            hits.append((i + 3, c, attrs))
            i = c + 1
            attrs = []
            continue
        if t.s == "{":
            i = R.match_close(toks, i, "{", "}") + 1
            attrs = []
            continue
        if t.s != "pub":
            attrs = []
        i += 1
    if len(hits) != 1:
        fail(f"{fname}: expected exactly one `struct {name} {{`, found {len(hits)}")
    lo, hi, attrs = hits[0]
    derives = []
    for a in attrs:
        if a and a[0] == "derive":
            derives.extend(x for x in a[2:-1] if x != ",")
    fields = []
    i = lo
    while i < hi:
        if toks[i].s == "pub":
            i += 1
            if toks[i].s == "(":
                i = R.match_close(toks, i, "(", ")") + 1
        fname_ = toks[i].s
        if toks[i].k != "id" or toks[i + 1].s != ":":
            fail(f"{fname}:{toks[i].line}: struct {name}: unsupported field syntax")
        j = i + 2
        depth = 0
        while j < hi:
            s = toks[j].s
            if s in ("<", "(", "["):
                depth += 1
            elif s in (">", ")", "]"):
                depth -= 1
            elif s == ">>":
                depth -= 2
            elif s == "," and depth == 0:
                break
            j += 1
        fields.append((fname_, toks[i + 2:j], toks[i].line))
        i = j + 1
    return derives, fields


# ----------------------------------------------------------------------------------------------------
# parser
# ----------------------------------------------------------------------------------------------------
class Parser2(R.Parser):
    def __init__(self, toks, fname, self_ty, assoc_types=None):
        super().__init__(toks, fname, self_ty)
        self.nostruct = 0
        self.assoc_types = assoc_types or {}

    # ---- types
    def ty(self):
        s = self.peek()
        if s == "[":
            self.eat()
            inner = self.ty()
            if self.peek() == ";":
                self.eat()
                while self.peek() != "]":       # length expression: not needed (Lean arrays carry their size)
                    self.eat()
                self.eat("]")
                return ("array", inner)
            self.eat("]")
            return ("slice", inner)
        if s == "impl":
            self.err("`impl Trait` type (give the function a `ret` override in the table)")
        if s == "&":
            self.eat()
            if self.peek() == "mut":
                self.eat()
                return ("refmut", self.ty())
            if self.tok().k == "life":
                self.eat()
            return ("ref", self.ty())
        if self.tok().k == "id" and s in ("ArrayMap", "SquareMap", "Vec") and self.peek(1) == "<":
            self.eat()
            self.eat("<")
            args = [self.ty()]
            while self.peek() == ",":
                self.eat()
                args.append(self.ty())
            if self.peek() == ">>":
                self.t[self.i] = Tok("op", ">", self.tok().line)
            else:
                self.eat(">")
            if s == "ArrayMap" and len(args) == 2:
                return ("ArrayMap", ("tuple", (args[0], args[1])))
            if s == "SquareMap" and len(args) == 1:
                return ("ArrayMap", ("tuple", ("Square", args[0])))
            if s == "Vec" and len(args) == 1:
                return ("Vec", args[0])
            self.err(f"type arguments of `{s}`")
        if s == "Self" and self.peek(1) == "::" and self.peek(2) in self.assoc_types:
            self.eat()
            self.eat()
            return self.assoc_types[self.eat().s]
        if self.tok().k == "id" and s in ("utils", "crate", "super") and self.peek(1) == "::":
            self.eat()
            self.eat("::")
            return self.ty()
        return super().ty()

    # ---- patterns
    def pattern(self):
        s = self.peek()
        t = self.tok()
        if s == "&":
            self.eat()
            return self.pattern()
        if s == "_":
            self.eat()
            return ("wild",)
        if s == "(":
            self.eat()
            items = []
            while self.peek() != ")":
                items.append(self.pattern())
                if self.peek() == ",":
                    self.eat()
            self.eat(")")
            return ("tuple", items)
        if t.k == "int":
            self.eat()
            m = re.match(r"(0x[0-9a-fA-F_]+|0b[01_]+|\d[\d_]*)(\w*)$", t.s)
            return ("lit", int(m.group(1).replace("_", ""), 0))
        if t.k != "id":
            self.err(f"unsupported pattern starting with `{s}`")
        if s in ("mut", "ref"):
            self.eat()
            return self.pattern()
        segs = [self.eat().s]
        while self.peek() == "::":
            self.eat()
            segs.append(self.eat().s)
        if self.peek() == "(":
            self.eat()
            subs = []
            while self.peek() != ")":
                subs.append(self.pattern())
                if self.peek() == ",":
                    self.eat()
            self.eat(")")
            if segs in (["Some"], ["Ok"]) and len(subs) == 1:
                return ("some", subs[0])
            if segs == ["Err"] and len(subs) == 1:
                return ("none",)
            self.err(f"unsupported pattern `{'::'.join(segs)}(..)`")
        if self.peek() == "{":
            self.err("struct patterns are outside the supported subset")
        if segs == ["None"]:
            return ("none",)
        if len(segs) == 1 and (segs[0][0].islower() or segs[0][0] == "_"):
            return ("bind", segs[0])
        return ("path", segs)

    # ---- blocks
    def block(self):
        ln = self.line()
        self.eat("{")
        saved, self.nostruct = self.nostruct, 0
        stmts, tail = [], None
        while self.peek() != "}":
            s = self.peek()
            l2 = self.line()
            if s == ";":
                self.eat()
                continue
            if s == "let":
                self.eat()
                if self.peek() in ("Some", "Ok") and self.peek(1) == "(":
                    pat = self.pattern()
                    self.eat("=")
                    self.nostruct += 1
                    init = self.expr()
                    self.nostruct -= 1
                    self.eat("else")
                    els = self.block()
                    self.eat(";")
                    stmts.append(N("letelse", l2, pat=pat, init=init, els=els))
                    continue
                mut = False
                if self.peek() == "mut":
                    self.eat()
                    mut = True
                if self.tok().k != "id":
                    self.err("only `let <ident>` and `let Some(x) = .. else` patterns are supported")
                name = self.eat().s
                ann = None
                if self.peek() == ":":
                    self.eat()
                    ann = self.ty()
                self.eat("=")
                init = self.expr()
                self.eat(";")
                stmts.append(N("let", l2, name=name, mut=mut, ann=ann, init=init))
                continue
            if s == "const" and self.t[self.i + 1].k == "id" and self.peek(2) == ":":
                self.eat()
                name = self.eat().s
                self.eat(":")
                ann = self.ty()
                self.eat("=")
                init = self.expr()
                self.eat(";")
                stmts.append(N("let", l2, name=name, mut=False, ann=ann, init=init))
                continue
            if s == "return":
                self.eat()
                e = None
                if self.peek() != ";":
                    e = self.expr()
                self.eat(";")
                stmts.append(N("return", l2, e=e))
                continue
            if s == "for":
                self.eat()
                pat = self.pattern()
                if pat[0] not in ("bind", "wild"):
                    self.err("`for` pattern must be an identifier or `_`")
                self.eat("in")
                self.nostruct += 1
                it = self.expr()
                if self.peek() == "..":
                    self.eat()
                    hi = self.expr()
                    it = N("range", l2, lo=it, hi=hi)
                self.nostruct -= 1
                body = self.block()
                stmts.append(N("exprstmt", l2, e=N("for", l2, pat=pat, it=it, body=body)))
                continue
            if s == "while":
                self.eat()
                if self.peek() != "let":
                    self.err("`while` (other than `while let`) is outside the supported subset")
                self.eat()
                pat = self.pattern()
                self.eat("=")
                self.nostruct += 1
                scrut = self.expr()
                self.nostruct -= 1
                body = self.block()
                stmts.append(N("exprstmt", l2, e=N("whilelet", l2, pat=pat, scrut=scrut, body=body)))
                continue
            if s in ("loop", "break", "continue", "unsafe"):
                self.err(f"`{s}` is outside the supported subset")
            if s == "debug_assert" and self.peek(1) == "!":
                self.eat()
                self.eat("!")
                self.eat("(")
                c = self.expr()
                self.eat(")")
                self.eat(";")
                stmts.append(N("dassert", l2, cond=c))
                continue
            if self.tok().k == "id" and self.peek(1) == "!" and self.peek(2) in ("(", "[", "{"):
                self.err(f"macro `{s}!` is outside the supported subset")
            e = self.expr(stmt=True)
            if self.peek() in R.ASSIGN_OPS:
                op = self.eat().s
                rhs = self.expr()
                self.eat(";")
                stmts.append(N("assign", l2, place=e, op=op, rhs=rhs))
            elif self.peek() == ";":
                self.eat()
                stmts.append(N("exprstmt", l2, e=e))
            elif e.k in ("if", "iflet", "match", "block") and self.peek() != "}":
                stmts.append(N("exprstmt", l2, e=e))
            else:
                tail = e
                if self.peek() != "}":
                    self.err(f"expected `;` or `}}`, found `{self.peek()}`")
        self.eat("}")
        self.nostruct = saved
        return N("block", ln, stmts=stmts, tail=tail)

    # ---- expressions
    def postfix(self):
        e = self.primary()
        while True:
            s = self.peek()
            ln = self.line()
            if s == ".":
                self.eat()
                t = self.eat()
                if t.k == "int":
                    e = N("field", ln, e=e, name=t.s)
                elif t.k == "id":
                    if self.peek() == "(":
                        saved, self.nostruct = self.nostruct, 0
                        args = self.args()
                        self.nostruct = saved
                        e = N("mcall", ln, recv=e, name=t.s, args=args)
                    elif self.peek() == "::":
                        self.err("turbofish")
                    else:
                        e = N("field", ln, e=e, name=t.s)
                else:
                    self.err(f"unexpected `{t.s}` after `.`")
            elif s == "(":
                if e.k != "path":
                    self.err("call of a non-path expression")
                saved, self.nostruct = self.nostruct, 0
                args = self.args()
                self.nostruct = saved
                e = N("call", ln, fn=e.segs, args=args)
            elif s == "[":
                self.eat()
                saved, self.nostruct = self.nostruct, 0
                ix = self.expr()
                self.nostruct = saved
                self.eat("]")
                e = N("index", ln, e=e, ix=ix)
            elif s == "?":
                self.eat()
                e = N("try", ln, e=e)
            else:
                return e

    def arms(self):
        self.eat("{")
        arms = []
        while self.peek() != "}":
            ln = self.line()
            pat = self.pattern()
            if self.peek() == "|":
                self.err("or-patterns are outside the supported subset")
            if self.peek() == "if":
                self.err("match guards are outside the supported subset")
            self.eat("=>")
            if self.peek() == "{":
                body = self.block()
                if self.peek() == ",":
                    self.eat()
            else:
                saved, self.nostruct = self.nostruct, 0
                x = self.expr()
                self.nostruct = saved
                body = N("block", ln, stmts=[], tail=x)
                if self.peek() == ",":
                    self.eat()
                elif self.peek() != "}":
                    self.err("expected `,` after a match arm")
            arms.append(N("arm", ln, pat=pat, body=body))
        self.eat("}")
        return arms

    def primary(self):
        t = self.tok()
        ln = t.line
        if t.s == "match":
            self.eat()
            self.nostruct += 1
            scrut = self.expr()
            self.nostruct -= 1
            return N("match", ln, scrut=scrut, arms=self.arms())
        if t.s == "if":
            self.eat()
            if self.peek() == "let":
                self.eat()
                pat = self.pattern()
                self.eat("=")
                self.nostruct += 1
                scrut = self.expr()
                self.nostruct -= 1
                th = self.block()
                el = self.else_part()
                return N("iflet", ln, pat=pat, scrut=scrut, th=th, el=el)
            self.nostruct += 1
            c = self.expr()
            self.nostruct -= 1
            th = self.block()
            el = self.else_part()
            return N("if", ln, c=c, th=th, el=el)
        if t.s == "{":
            return self.block()
        if t.s == "[":
            self.eat()
            saved, self.nostruct = self.nostruct, 0
            items = []
            if self.peek() != "]":
                items.append(self.expr())
                if self.peek() == ";":
                    self.eat()
                    n = self.expr()
                    self.eat("]")
                    self.nostruct = saved
                    return N("repeat", ln, e=items[0], n=n)
                while self.peek() == ",":
                    self.eat()
                    if self.peek() == "]":
                        break
                    items.append(self.expr())
            self.eat("]")
            self.nostruct = saved
            return N("arraylit", ln, items=items)
        if t.s == "(":
            saved, self.nostruct = self.nostruct, 0
            e = super().primary()
            self.nostruct = saved
            return e
        if t.k == "id" and t.s not in ("true", "false") and not (t.s in ("while", "for", "loop", "return", "unsafe", "move")):
            segs = [self.eat().s]
            while self.peek() == "::":
                self.eat()
                if self.peek() == "<":
                    self.err("turbofish / qualified path")
                segs.append(self.eat().s)
            if self.peek() == "{" and self.nostruct == 0 and (segs[-1] in STRUCT_NAMES or segs == ["Self"]):
                self.eat()
                fields = []
                while self.peek() != "}":
                    fname = self.eat().s
                    if self.peek() == ":":
                        self.eat()
                        fields.append((fname, self.expr()))
                    else:
                        fields.append((fname, N("path", self.line(), segs=[fname])))
                    if self.peek() == ",":
                        self.eat()
                    elif self.peek() == "..":
                        self.err("struct update syntax")
                self.eat("}")
                return N("structlit", ln, name=segs[-1], fields=fields)
            return N("path", ln, segs=segs)
        return super().primary()

    def else_part(self):
        if self.peek() != "else":
            return None
        self.eat()
        if self.peek() == "if":
            l3 = self.line()
            inner = self.primary()
            return N("block", l3, stmts=[], tail=inner)
        return self.block()


# ----------------------------------------------------------------------------------------------------
# registry
# ----------------------------------------------------------------------------------------------------
class Fn2(R.Fn):
    def __init__(self, raw, cont, params, ret, body, lean):
        self.name, self.cont, self.params, self.ret, self.body, self.lean = raw.name, cont, params, ret, body, lean
        self.file, self.line = cont["file"], raw.line
        self.mod, self.self_ty = cont["mod"], cont["self"]
        muts = [p for p in params if p[2] == "refmut"]
        if len(muts) > 1:
            fail(f"{self.file}: fn {raw.name}: more than one `&mut` parameter")
        self.mutparam = muts[0][0] if muts else None
        self.callees = []
        self.crefs = []
        self.may_panic = None
        self.stage2 = True

        def tidy(h):
            t = " ".join(h)
            for x, y in ((" <", "<"), ("< ", "<"), (" >", ">"), ("( ", "("), (" )", ")"), (" ,", ","), (" :: ", "::")):
                t = t.replace(x, y)
            return t
        self.rust_path = " / ".join(tidy(h) for h in cont["path"]) + " :: " + raw.name

    def mut_ty(self):
        return [p[1] for p in self.params if p[0] == self.mutparam][0]

    def out_ty(self):
        if self.mutparam:
            if prune(self.ret) == "unit":
                return self.mut_ty()
            return ("tuple", (self.ret, self.mut_ty()))
        return self.ret


class Const2(R.Const):
    def __init__(self, name, lean, ty, expr, owner, file, cont, static=False):
        super().__init__(name, lean, ty, expr, owner, file)
        self.cont, self.static = cont, static
        self.callees, self.crefs = [], []
        self.may_panic = False
        self.stage2 = True
        self.mod, self.self_ty = cont["mod"], cont["self"]


def fld(struct, f):
    """Lean name of field `f` of a translated struct (prefixed: Rust allows a method of the same name)"""
    return f if struct == "Offset" else "f_" + f


def pat_vars(p):
    if p[0] == "bind":
        return [p[1]]
    if p[0] == "some":
        return pat_vars(p[1])
    if p[0] == "tuple":
        return [v for q in p[1] for v in pat_vars(q)]
    return []


# ----------------------------------------------------------------------------------------------------
# translator, part 1: collection and type inference
# ----------------------------------------------------------------------------------------------------
class Translator2(R.Translator):
    def __init__(self, repo, t1):
        super().__init__(repo)
        self.t1 = t1
        self.src, self.toks = t1.src, t1.toks
        self.methods, self.assoc, self.free = dict(t1.methods), dict(t1.assoc), dict(t1.free)
        self.consts = dict(t1.consts)
        for f in t1.fns:
            f.stage2 = False
        for c, _ in t1.const_list:
            c.stage2, c.may_panic, c.crefs = False, False, []
        self.items = []          # stage-2 items (Fn2 / Const2) in collection order
        self.structs = []        # (name, fields, derives, omitted)

    # ---- collection
    def check_decls2(self):
        for rel, pat, what in DECLS2:
            self.load(rel)
            text = re.sub(r"//[^\n]*", "", self.src[rel])
            if len(re.findall(pat, text)) != 1:
                fail(f"{rel}: declaration `{what}` not found exactly once (a primitive mapping rests on it)")

    def collect_arraykeys(self):
        self.key_count = {}
        for rel in (PIECE, COLOR, BOARD, ATTACKS):
            self.load(rel)
            text = re.sub(r"//[^\n]*", "", self.src[rel])
            for m in re.finditer(r"impl ArrayKey for (\w+) \{\s*const COUNT: usize = (\d+);\s*\}", text):
                if m.group(1) in self.key_count:
                    fail(f"{rel}: two `impl ArrayKey for {m.group(1)}`")
                self.key_count[m.group(1)] = int(m.group(2))

    def collect_structs(self):
        for rel, name, omit, need in STRUCT_DECLS:
            toks = self.load(rel)
            derives, fields = find_struct(toks, name, rel)
            for d in need:
                if d not in derives:
                    fail(f"{rel}: struct {name}: derive({d}) expected")
            out = []
            seen = set()
            for fname, ttoks, line in fields:
                seen.add(fname)
                if fname in omit:
                    self.notes.append(f"struct {name}: field `{fname}` omitted: {omit[fname]}")
                    continue
                tp = Parser2(ttoks, rel, name)
                ty = tp.ty()
                if tp.i != len(tp.t):
                    fail(f"{rel}:{line}: struct {name}: field {fname}: unsupported type")
                out.append((fname, ty))
            for o in omit:
                if o not in seen:
                    fail(f"{rel}: struct {name}: omitted field `{o}` no longer exists")
            R.STRUCTS[name] = out
            self.structs.append((rel, name, out, derives))

    def collect2(self):
        for cont in CONTAINERS2:
            rel = cont["file"]
            toks = self.load(rel)
            lo, hi = 0, len(toks)
            for header in cont["path"]:
                lo, hi = R.find_container(toks, lo, hi, header, rel)
            raws, rconsts, rstatics = scan_items2(toks, lo, hi, rel)
            owner = cont["mod"] if cont["self"] is None else cont["self"]
            if cont.get("consts"):
                for name, etoks, line, attrs in rconsts:
                    if cont["only_consts"] is not None and name not in cont["only_consts"]:
                        continue
                    self.add_const(cont, owner, name, etoks, line, rel, False)
                if cont["only_consts"] is not None:
                    for n in cont["only_consts"]:
                        if (owner, n) not in self.consts:
                            fail(f"{rel}: const {n} of the table not found")
            for sname in cont["statics"]:
                hits = [x for x in rstatics if x[0] == sname]
                if len(hits) != 1:
                    fail(f"{rel}: `static ref {sname}` not found exactly once")
                name, etoks, line, attrs = hits[0]
                self.add_const(cont, owner, name, etoks, line, rel, True)
            only = cont["fns"]
            skip = cont["skip"]
            found = []
            assoc_types = {}
            j = lo
            while j < hi:
                if toks[j].s == "{":
                    j = R.match_close(toks, j, "{", "}") + 1
                    continue
                if toks[j].s == "type" and toks[j + 2].s == "=" and toks[j + 1].s not in ("Error", "Output"):
                    k2 = j + 3
                    while toks[k2].s != ";":
                        k2 += 1
                    tp = Parser2(toks[j + 3:k2], rel, cont["self"])
                    assoc_types[toks[j + 1].s] = tp.ty()
                j += 1
            for raw in raws:
                if raw.name in skip:
                    self.notes.append(f"skipped {rel} {cont['ns']}::{raw.name}: {skip[raw.name]}")
                    continue
                if raw.name not in only:
                    if cont["complete"]:
                        fail(f"{rel}:{raw.line}: fn `{raw.name}` of `{' '.join(cont['path'][-1])}` is not in the table of "
                             f"translated functions (add it to the table and give it a bridge theorem, or to `skip`)")
                    continue
                if raw.generic:
                    fail(f"{rel}:{raw.line}: generic fn `{raw.name}` not supported")
                if any(a.startswith("cfg") for a in raw.attrs):
                    fail(f"{rel}:{raw.line}: fn {raw.name} is cfg-gated")
                found.append(raw.name)
                sig = list(raw.sig)
                ret_override = None
                arrow = [j for j, t in enumerate(sig) if t.s == "->"]
                if arrow and sig[arrow[0] + 1].s == "impl":
                    tail = " ".join(t.s for t in sig[arrow[0] + 1:])
                    if tail != "impl Iterator < Item = u32 >" or cont["self"] != "BitBoard":
                        fail(f"{rel}:{raw.line}: fn {raw.name}: unsupported `impl Trait` return type")
                    ret_override = "BitIterator"
                    sig = sig[:arrow[0]]
                sp = Parser2(sig, rel, cont["self"], assoc_types)
                params, ret = sp.signature()
                if ret_override:
                    ret = ret_override
                bp = Parser2(raw.body, rel, cont["self"])
                body = bp.block()
                if bp.i != len(bp.t):
                    fail(f"{rel}:{raw.line}: fn {raw.name}: trailing tokens")
                lean = f"{cont['ns']}.{raw.name}"
                if cont.get("trait"):
                    lean = f"{cont['ns']}.{raw.name}_{ty_suffix2(cont['trait'][1])}"
                fn = Fn2(raw, cont, params, ret, body, lean)
                if ret_override:
                    fn.impl_ret = True
                self.fns.append(fn)
                self.items.append(fn)
                st = prune(cont["self"]) if cont["self"] else None
                has_self = bool(params) and params[0][0] == "self"
                if cont.get("trait"):
                    tname, targ = cont["trait"]
                    if raw.name != tname:
                        fail(f"{rel}:{raw.line}: unexpected fn {raw.name} in trait impl")
                    key = (st, raw.name, prune(targ))
                elif cont["self"]:
                    key = (st, raw.name)
                else:
                    key = (cont["mod"], raw.name)
                table = self.methods if has_self else (self.assoc if cont["self"] else self.free)
                if key in table:
                    fail(f"{rel}:{raw.line}: {fn.lean} is already translated by stage 1")
                table[key] = fn
            missing = [n for n in only if n not in found]
            if missing:
                fail(f"{rel}: `{' '.join(cont['path'][-1]) if cont['path'] else rel}`: function(s) {missing} of the table not found")
        names = [f.lean for f in self.items] + [f.lean for f in self.t1.fns] + [c.lean for c, _ in self.t1.const_list]
        if len(set(names)) != len(names):
            dup = sorted({n for n in names if names.count(n) > 1})
            fail(f"duplicate Lean names {dup}")

    def add_const(self, cont, owner, name, etoks, line, rel, static):
        eq = None
        depth = 0
        for j, t in enumerate(etoks):
            if t.s in ("<", "[", "("):
                depth += 1
            elif t.s in (">", "]", ")"):
                depth -= 1
            elif t.s == ">>":
                depth -= 2
            elif t.s == "=" and depth == 0:
                eq = j
                break
        if eq is None:
            fail(f"{rel}:{line}: const {name} without initialiser")
        tp = Parser2(etoks[:eq], rel, cont["self"])
        ty = tp.ty()
        if tp.i != len(tp.t):
            fail(f"{rel}:{line}: const {name}: unsupported type")
        ep = Parser2(etoks[eq + 1:], rel, cont["self"])
        ex = ep.expr()
        if ep.i != len(ep.t):
            fail(f"{rel}:{line}: const {name}: trailing tokens")
        if (owner, name) in self.consts:
            fail(f"{rel}:{line}: const {owner}::{name} is already translated by stage 1")
        c = Const2(name, f"{cont['ns']}.{name}", ty, ex, owner, rel, cont, static)
        c.line = line
        self.consts[(owner, name)] = c
        self.items.append(c)

    # ---- places
    def place_var(self, p):
        if p.k == "path" and len(p.segs) == 1:
            return p.segs[0]
        if p.k == "paren" or (p.k == "un" and p.op in ("*", "&")):
            return self.place_var(p.e)
        if p.k == "field":
            return self.place_var(p.e)
        if p.k == "index":
            return self.place_var(p.e)
        self.err(p, "unsupported place expression for a `&mut` argument / assignment")

    # ---- inference
    def lookup_const(self, owner, name):
        c = self.consts.get((owner, name))
        if c is not None:
            return c
        return None

    def ref_const(self, e, c):
        e.ref = ("const", c)
        if getattr(c, "stage2", False) or True:
            self.cur.crefs.append(c)
        return c.ty

    def bind_pat(self, pat, ty, env, e):
        k = pat[0]
        if k == "wild":
            return
        if k == "bind":
            env[pat[1]] = ty
            return
        if k == "some":
            inner = TVar()
            self.unify(ty, ("Option", inner), e)
            self.bind_pat(pat[1], inner, env, e)
            return
        if k == "none":
            self.unify(ty, ("Option", TVar()), e)
            return
        if k == "path":
            segs = pat[1]
            if len(segs) == 2:
                t = self.resolve_self(segs[0])
                if t in R.ENUMS and segs[1] in R.ENUMS[t]:
                    self.unify(ty, t, e)
                    return
            self.err(e, f"unknown pattern `{'::'.join(segs)}`")
        if k == "tuple":
            tvs = [TVar() for _ in pat[1]]
            self.unify(ty, ("tuple", tuple(tvs)), e)
            for q, tv in zip(pat[1], tvs):
                self.bind_pat(q, tv, env, e)
            return
        self.err(e, f"pattern kind `{k}` is outside the supported subset")

    def _infer(self, e, env, exp):
        k = e.k
        if k == "lit" and e.suf and e.suf not in R.INT_TYPES:
            self.err(e, f"integer type {e.suf} not supported")
        if k == "path":
            segs = e.segs
            if len(segs) == 1 and segs[0] not in env and segs[0] != "None":
                n = segs[0]
                c = self.lookup_const(self.cur.mod, n)
                if c is None:
                    for gm in sorted(GLOBAL_MODS):
                        c = c or self.lookup_const(gm, n)
                if c is not None:
                    return self.ref_const(e, c)
                if (self.cur.mod, n) in PRIM_STATICS:
                    lean, ty = PRIM_STATICS[(self.cur.mod, n)]
                    e.ref = ("primstatic", lean)
                    return ty
                self.err(e, f"unknown identifier `{n}`")
            if len(segs) == 2:
                if segs == ["u64", "BITS"]:
                    e.ref = ("primconst", "u64.BITS", 64)
                    return "u32"
                if tuple(segs) in PRIM_STATICS:
                    lean, ty = PRIM_STATICS[tuple(segs)]
                    e.ref = ("primstatic", lean)
                    return ty
                t = self.resolve_self(segs[0])
                if not (t in R.ENUMS and segs[1] in R.ENUMS[t]):
                    c = self.lookup_const(prune(t) if t in R.ALIASES else t, segs[1])
                    if c is not None:
                        return self.ref_const(e, c)
            if len(segs) == 1:
                return super()._infer(e, env, exp)
            r = super()._infer(e, env, exp)
            return r
        if k == "call":
            if len(e.fn) > 1 and e.fn[0] in ("utils", "crate", "super"):
                e.fn = e.fn[1:]
            segs = [self.resolve_self(s) if i == 0 else s for i, s in enumerate(e.fn)]
            if segs == ["u64", "wrapping_mul"]:
                if len(e.args) != 2:
                    self.err(e, "wrapping_mul arity")
                self.infer(e.args[0], env, "u64")
                self.infer(e.args[1], env, "u64")
                e.kind2 = "prim"
                e.prim = ("{0} * {1}", list(e.args))
                return "u64"
            if segs in (["ArrayMap", "new"], ["SquareMap", "new"]):
                if len(e.args) != 1:
                    self.err(e, "ArrayMap::new arity")
                pe = prune(exp) if exp is not None else None
                if isinstance(pe, tuple) and pe[0] == "ArrayMap":
                    kt, vt = pe[1][1]
                else:
                    kt, vt = (TVar() if segs[0] == "ArrayMap" else "Square"), TVar()
                self.infer(e.args[0], env, ("array", vt))
                e.kind2 = "prim"
                e.prim = ("{0}", list(e.args))
                return ("ArrayMap", ("tuple", (kt, vt)))
            if segs == ["ArrayMap", "filled"]:
                if len(e.args) != 1:
                    self.err(e, "ArrayMap::filled arity")
                pe = prune(exp) if exp is not None else None
                if isinstance(pe, tuple) and pe[0] == "ArrayMap":
                    kt, vt = pe[1][1]
                else:
                    kt, vt = TVar(), TVar()
                self.infer(e.args[0], env, vt)
                e.kind2 = "filled"
                e.keyty = kt
                return ("ArrayMap", ("tuple", (kt, vt)))
            if len(segs) == 1 and segs[0] in R.STRUCTS:
                self.err(e, "tuple-struct call of a struct with named fields")
            return super()._infer(e, env, exp)
        if k == "mcall":
            n = e.name
            if n in ("trailing_zeros", "leading_zeros", "count_ones") and not e.args:
                rt = prune(self.infer(e.recv, env))
                if rt == "u64":
                    e.kind2 = "prim"
                    e.prim = (f"u64.{n} {{0}}", [e.recv])
                    return "u32"
                if isinstance(rt, TVar):
                    self.err(e, f"`.{n}()` on an untyped integer")
                return self.method_call(e, rt, env)
            if n in ("clone", "iter") and not e.args:
                rt = prune(self.infer(e.recv, env, exp if n == "clone" else None))
                if n == "iter" and not (isinstance(rt, tuple) and rt[0] in ("slice", "array")):
                    self.err(e, "`.iter()` on something that is not a constant slice / array")
                e.kind2 = "prim"
                e.prim = ("{0}", [e.recv])
                return rt
            if n == "ok_or":
                a = e.args[0] if len(e.args) == 1 else None
                if a is None or a.k != "path" or len(a.segs) != 2 or a.segs[0] not in ERROR_ENUMS \
                        or a.segs[1] not in ERROR_ENUMS[a.segs[0]]:
                    self.err(e, "`.ok_or(e)`: the error must be a variant of a declared error enum (its payload is dropped)")
                rt = prune(self.infer(e.recv, env))
                if not (isinstance(rt, tuple) and rt[0] == "Option"):
                    self.err(e, "`.ok_or` on a non-Option value")
                e.kind2 = "prim"
                e.prim = ("{0}", [e.recv])
                return rt
            if n == "saturating_add" and len(e.args) == 1:
                rt = prune(self.infer(e.recv, env))
                if rt != "usize":
                    self.err(e, "`saturating_add` is supported on usize only")
                self.infer(e.args[0], env, "usize")
                e.kind2 = "prim"
                e.prim = ("UInt64.saturating_add {0} {1}", [e.recv, e.args[0]])
                return "usize"
            if n == "into" or n in R.OPTION_METHODS or n == "abs":
                return super()._infer(e, env, exp)
            rt = prune(self.infer(e.recv, env))
            return self.method_call(e, rt, env)
        if k == "index":
            if e.e.k == "path" and e.e.segs == ["common", "KING_ORIGINS"]:
                return super()._infer(e, env, exp)
            if e.e.k == "index" and e.e.e.k == "path" and e.e.e.segs == ["common", "CASTLE_DESTS"]:
                return super()._infer(e, env, exp)
            bt = prune(self.infer(e.e, env))
            if isinstance(bt, tuple) and bt[0] == "ArrayMap":
                kt, vt = bt[1][1]
                self.infer(e.ix, env, kt)
                e.kind2 = "amindex"
                e.keyty = kt
                return vt
            if isinstance(bt, tuple) and bt[0] == "MagicTables":
                self.infer(e.ix, env, "Square")
                e.kind2 = "mt1"
                return ("MagicTable", bt[1])
            if isinstance(bt, tuple) and bt[0] == "MagicTable":
                self.infer(e.ix, env, "usize")
                if e.e.k != "index" or getattr(e.e, "kind2", None) != "mt1":
                    self.err(e, "magic table must be indexed `TABLE[square][key]`")
                e.kind2 = "mt2"
                return "BitBoard"
            if isinstance(bt, tuple) and bt[0] in ("Vec", "array"):
                self.infer(e.ix, env, "usize")
                e.kind2 = "vecindex"
                return bt[1]
            self.err(e, f"index into {show_ty2(bt)} not supported")
        if k == "un" and e.op == "!":
            t = prune(self.infer(e.e, env, exp))
            if t == "bool" or t in R.INT_TYPES or (isinstance(t, TVar) and t.intonly):
                return t
            fn = self.methods.get((t, "not"))
            if not fn:
                self.err(e, f"`!` on {show_ty2(t)}: no translated `impl Not`")
            e.kind2 = "fn"
            self.call_fn(e, fn, [], env, recv=e.e)
            return fn.ret
        if k == "bin" and e.op in ("&", "|", "^"):
            lt = prune(self.infer(e.l, env, exp))
            if lt in R.NEWTYPES or lt in R.ENUMS or lt in R.STRUCTS:
                nm = {"&": "bitand", "|": "bitor", "^": "bitxor"}[e.op]
                fn = self.methods.get((lt, nm))
                if not fn:
                    self.err(e, f"operator `{e.op}` on {show_ty2(lt)}: no translated trait impl")
                self.infer(e.r, env, fn.params[1][1])
                e.kind2 = "fn"
                e.recv = e.l
                return self.call_fn(e, fn, [e.r], env, recv=e.l, typed=(e.r,))
            self.infer(e.r, env, lt)
            return lt
        if k == "bin" and e.op in ("==", "!="):
            lt = self.infer(e.l, env)
            self.infer(e.r, env, lt)
            pl = prune(lt)
            ok = pl in R.INT_TYPES or pl == "bool" or pl in R.ENUMS or isinstance(pl, TVar) or pl in EQ_NEWTYPES \
                or pl in R.STRUCTS or (isinstance(pl, tuple) and pl[0] == "Option")
            if not ok:
                self.err(e, f"`{e.op}` on {show_ty2(pl)}: no derive(PartialEq) known")
            if pl in R.STRUCTS and pl != "Offset" and "PartialEq" not in [d for (_, nm, _, ds) in self.structs if nm == pl for d in ds]:
                self.err(e, f"`{e.op}` on struct {pl} without derive(PartialEq)")
            return "bool"
        if k == "cast":
            st = prune(self.infer(e.e, env))
            t = prune(e.to)
            if t not in R.INT_TYPES:
                self.err(e, f"cast to {show_ty2(t)} not supported")
            if st in ("Color", "Piece"):
                e.enumcast = st
            elif not (st in R.INT_TYPES or isinstance(st, TVar)):
                self.err(e, f"cast from {show_ty2(st)} not supported")
            return t
        if k == "field" and e.name not in ("0", "1"):
            rt = prune(self.infer(e.e, env))
            if rt in R.STRUCTS and rt != "Offset" and e.name in dict(R.STRUCTS[rt]):
                e.fk = f"{rt}.{fld(rt, e.name)}"
                return dict(R.STRUCTS[rt])[e.name]
            if rt == "Offset" and e.name in dict(R.STRUCTS[rt]):
                e.fk = f"{rt}.{e.name}"
                return dict(R.STRUCTS[rt])[e.name]
            self.err(e, f"field `.{e.name}` of {show_ty2(rt)} not supported")
        if k == "structlit":
            name = self.resolve_self(e.name)
            if name not in R.STRUCTS:
                self.err(e, f"struct literal of unknown struct `{name}`")
            decl = dict(R.STRUCTS[name])
            omit = {d[1]: d[2] for d in STRUCT_DECLS}.get(name, {})
            kept = []
            for f, x in e.fields:
                if f in omit:
                    if " ".join(t for t in expr_tokens(x)) != OMITTED_INIT.get((name, f)):
                        self.err(e, f"struct literal of {name}: initialiser of the omitted field `{f}` is not the expected "
                                    f"`{OMITTED_INIT.get((name, f))}`")
                else:
                    kept.append((f, x))
            e.fields = kept
            given = [f for f, _ in e.fields]
            if sorted(given) != sorted(decl):
                self.err(e, f"struct literal of {name}: fields {given} do not match the declaration {list(decl)}")
            for f, x in e.fields:
                self.infer(x, env, decl[f])
            e.sname = name
            return name
        if k == "arraylit":
            pe = prune(exp) if exp is not None else None
            elt = pe[1] if isinstance(pe, tuple) and pe[0] in ("slice", "array") else TVar()
            for x in e.items:
                self.infer(x, env, elt)
            e.aslist = isinstance(pe, tuple) and pe[0] == "slice"
            return pe if isinstance(pe, tuple) and pe[0] in ("slice", "array") else ("array", elt)
        if k == "repeat":
            pe = prune(exp) if exp is not None else None
            elt = pe[1] if isinstance(pe, tuple) and pe[0] == "array" else TVar()
            self.infer(e.e, env, elt)
            self.infer(e.n, env, "usize")
            return ("array", elt)
        if k == "match":
            st = self.infer(e.scrut, env)
            rt = None
            for a in e.arms:
                env2 = dict(env)
                self.bind_pat(a.pat, st, env2, a)
                t = self.infer_block(a.body, env2, exp if exp is not None else rt)
                if rt is None:
                    rt = t
                else:
                    self.unify(rt, t, a)
            if rt is None:
                self.err(e, "empty match")
            return rt
        if k == "iflet":
            st = self.infer(e.scrut, env)
            env2 = dict(env)
            self.bind_pat(e.pat, st, env2, e)
            t = self.infer_block(e.th, env2, exp)
            if e.el is not None:
                self.infer_block(e.el, env, t)
            else:
                self.unify(t, "unit", e)
            return t
        if k == "for":
            it = e.it
            if it.k == "range":
                ht = self.infer(it.hi, env)
                self.infer(it.lo, env, ht)
                e.itkind, e.item_ty = "range", ht
            else:
                tt = prune(self.infer(it, env))
                if isinstance(tt, tuple) and tt[0] in ("slice", "array"):
                    e.itkind, e.item_ty = tt[0], tt[1]
                elif tt in ITERATORS:
                    nm, fuel, item = ITERATORS[tt]
                    nfn = self.methods.get((tt, nm))
                    if not nfn:
                        self.err(e, f"iterator {tt}: `{nm}` is not translated")
                    e.itkind, e.item_ty, e.iter_next, e.iter_fuel = "iter", item, nfn, fuel
                    self.cur.callees.append(nfn)
                else:
                    self.err(e, f"`for` over {show_ty2(tt)} is outside the supported subset")
            env2 = dict(env)
            if e.pat[0] == "bind":
                env2[e.pat[1]] = e.item_ty
            self.infer_block(e.body, env2, "unit")
            return "unit"
        if k == "whilelet":
            self.err(e, "`while let` is outside the supported subset")
        if k == "try":
            rt = prune(self.cur.ret)
            if not (isinstance(rt, tuple) and rt[0] == "Option"):
                self.err(e, "`?` in a function that does not return Option/Result")
            inner = TVar()
            self.infer(e.e, env, ("Option", inner))
            return inner
        if k == "return" or k == "letelse":
            self.err(e, "statement in expression position")
        if k == "block":
            return self.infer_block(e, env, exp)
        return super()._infer(e, env, exp)

    def method_call(self, e, rt, env):
        n = e.name
        if isinstance(rt, TVar):
            self.err(e, f"method `{n}` on a value of undetermined type")
        fn = self.methods.get((rt, n))
        if not fn:
            self.err(e, f"method `{show_ty2(rt)}::{n}` is neither translated nor a primitive")
        e.kind2 = "fn"
        return self.call_fn(e, fn, e.args, env, recv=e.recv)

    def call_fn(self, e, fn, args, env, recv=None, typed=()):
        r = super().call_fn(e, fn, args, env, recv=recv, typed=typed)
        if fn.mutparam:
            idx = [p[0] for p in fn.params].index(fn.mutparam)
            e.mut_place = e.actual[idx]
        return r

    def infer_block(self, b, env, exp):
        env = dict(env)
        for s in b.stmts:
            if s.k == "let":
                t = self.infer(s.init, env, s.ann)
                if s.ann is not None:
                    t = s.ann
                env[s.name] = t
                s.vty = t
            elif s.k == "letelse":
                t = self.infer(s.init, env)
                self.infer_block(s.els, env, "unit")
                self.bind_pat(s.pat, t, env, s)
                s.vtys = {v: env[v] for v in pat_vars(s.pat)}
            elif s.k == "assign":
                v = self.place_var(s.place)
                if v not in env:
                    self.err(s, f"assignment to `{v}` which is not a local")
                s.var, s.vty = v, env[v]
                if s.op in ("<<=", ">>=", "/=", "%="):
                    self.err(s, f"`{s.op}` not supported")
                pt = self.infer(s.place, env)
                s.pty = pt
                ppt = prune(pt)
                if s.op != "=" and not (ppt in R.INT_TYPES or ppt == "bool" or isinstance(ppt, TVar)):
                    nm = {"|=": "bitor_assign", "&=": "bitand_assign", "^=": "bitxor_assign"}.get(s.op)
                    fn = self.methods.get((ppt, nm)) if nm else None
                    if not fn:
                        self.err(s, f"`{s.op}` on {show_ty2(ppt)}: no translated trait impl")
                    self.infer(s.rhs, env, fn.params[1][1])
                    s.opfn = fn
                    self.cur.callees.append(fn)
                else:
                    self.infer(s.rhs, env, pt)
            elif s.k == "exprstmt":
                s.e.env_here = dict(env)
                t = prune(self.infer(s.e, env))
                ok = (s.e.k in ("call", "mcall") and getattr(s.e, "mut_var", None)) or \
                    s.e.k in ("if", "iflet", "match", "for")
                if not ok:
                    self.err(s, "expression statement without a supported effect")
                if s.e.k in ("if", "iflet", "match"):
                    self.unify(t, "unit", s)
            elif s.k == "dassert":
                self.infer(s.cond, env, "bool")
            elif s.k == "return":
                if s.e is not None:
                    self.infer(s.e, env, self.cur.ret)
                elif prune(self.cur.ret) != "unit":
                    self.err(s, "`return;` in a function with a result")
            else:
                self.err(s, "statement kind")
        diverges = bool(b.stmts) and b.stmts[-1].k == "return"
        if b.tail is not None:
            b.tail.env_here = dict(env)
            t = self.infer(b.tail, env, exp)
            if prune(t) == "unit" and (b.tail.k in ("if", "iflet", "match", "for") or getattr(b.tail, "mut_var", None)):
                b.stmts.append(N("exprstmt", b.tail.line, e=b.tail))
                b.tail = None
        elif diverges:
            t = exp if exp is not None else TVar()
        else:
            t = "unit"
        b.ty = t
        b.env_out = env
        return t

    def infer_all2(self):
        self.callsites = []
        self.shifts = []
        for it in self.items:
            if isinstance(it, Const2):
                cur = Fn2.__new__(Fn2)
                cur.file, cur.name, cur.mod, cur.self_ty, cur.callees, cur.crefs = \
                    it.file, it.name, it.cont["mod"], it.cont["self"], [], []
                cur.lean, cur.params, cur.ret = it.lean, [], it.ty
                self.cur = cur
                self.infer(it.expr, {}, it.ty)
                self.zonk(it.expr)
                it.callees, it.crefs = list(cur.callees), list(cur.crefs)
            else:
                self.cur = it
                env = {n: t for (n, t, m) in it.params}
                self.infer_block(it.body, env, it.ret)
                self.zonk(it.body)

    def zonk(self, root):
        for e in R.walk(root):
            for attr in ("ty", "vty", "mut_ty", "pty", "item_ty", "keyty"):
                if hasattr(e, attr) and getattr(e, attr) is not None:
                    t = prune(getattr(e, attr))
                    if has_tvar2(t):
                        fail(f"{self.cur.file}:{e.line}: in {self.cur.name}: type of an expression is not determined "
                             f"(Rust would default an integer literal to i32: outside the supported subset)")
                    setattr(e, attr, t)
            if hasattr(e, "vtys"):
                e.vtys = {v: prune(t) for v, t in e.vtys.items()}


# ----------------------------------------------------------------------------------------------------
# translator, part 2: effects, ordering, emission
# ----------------------------------------------------------------------------------------------------
def place_has_index(p):
    if p.k == "index":
        return True
    if p.k in ("paren", "un", "field"):
        return place_has_index(p.e)
    return False


def block_diverges(b):
    """every path through the block ends in `return`"""
    if b is None or not b.stmts:
        return False
    last = b.stmts[-1]
    if last.k == "return":
        return True
    if last.k == "exprstmt" and b.tail is None:
        e = last.e
        if e.k == "if":
            return e.el is not None and block_diverges(e.th) and block_diverges(e.el)
        if e.k == "iflet":
            return e.el is not None and block_diverges(e.th) and block_diverges(e.el)
        if e.k == "match":
            return all(block_diverges(a.body) for a in e.arms)
    return False


def contains_return(e):
    return any(x.k in ("return", "try") for x in R.walk(e))


class Emitter2(Translator2):
    # ---- constant shifts / checked shifts
    def check_shifts(self):
        for fn, e in self.shifts:
            if not getattr(fn, "stage2", True):
                continue
            lt = prune(e.l.ty)
            if lt not in R.INT_TYPES:
                fail(f"{fn.file}:{e.line}: shift of a non-integer")
            w = R.INT_TYPES[lt][1]
            v = self.const_eval(e.r)
            if v is not None:
                if not (0 <= v < w):
                    fail(f"{fn.file} {fn.lean}: `{e.op}`: shift amount {v} is not < {w}")
                e.shift_const = True
                note = f"shift check: {fn.lean}: amount {v} < {w}"
            else:
                if lt != "u64":
                    fail(f"{fn.file} {fn.lean}: `{e.op}`: non-constant shift of a {lt} (only u64 has a checked shift)")
                e.shift_const = False
                note = f"shift check: {fn.lean}: non-constant amount -> checked shift (panics unless 0 <= amount < {w})"
            if note not in self.notes:
                self.notes.append(note)

    def const_eval(self, e):
        if e.k == "path" and getattr(e, "ref", (None,))[0] == "primconst":
            return e.ref[2]
        if e.k == "cast":
            return None
        return super().const_eval(e)

    # ---- effects
    def node_panics(self, e):
        k = e.k
        if k == "bin" and e.op in ("<<", ">>") and getattr(e, "kind2", None) != "fn":
            return self.const_eval(e.r) is None
        if k == "index" and getattr(e, "kind2", None) in ("amindex", "mt2", "vecindex"):
            return True
        if k == "assign":
            if place_has_index(e.place):
                return True
            if getattr(e, "opfn", None) is not None:
                return e.opfn.may_panic
            return super().node_panics(e)
        if k == "for":
            if e.itkind == "iter":
                return True
            return False
        if k == "un" and getattr(e, "kind2", None) == "fn":
            return e.target.may_panic
        if k == "path" and getattr(e, "ref", (None,))[0] == "const":
            return bool(getattr(e.ref[1], "may_panic", False))
        if k in ("call", "mcall") and getattr(e, "kind2", None) == "fn" and getattr(e, "mut_place", None) is not None \
                and place_has_index(e.mut_place):
            return True
        return super().node_panics(e)

    def order2(self):
        out, state = [], {}

        def deps(it):
            return list(it.callees) + list(it.crefs)

        def visit(it):
            if not getattr(it, "stage2", False):
                return
            if state.get(id(it)) == 2:
                return
            if state.get(id(it)) == 1:
                fail(f"recursion through {it.lean} is outside the supported subset")
            state[id(it)] = 1
            for d in deps(it):
                visit(d)
            state[id(it)] = 2
            if isinstance(it, Const2):
                cur = Fn2.__new__(Fn2)
                cur.file, cur.name, cur.lean = it.file, it.name, it.lean
                self.cur = cur
                it.may_panic = self.panics(it.expr)
            else:
                self.cur = it
                it.may_panic = self.panics(it.body)
            out.append(it)

        for it in self.items:
            visit(it)
        self.items = out

    # ---- emission helpers
    def tuple_term(self, vs):
        vs = [mangle(v) for v in vs]
        return vs[0] if len(vs) == 1 else "(" + ", ".join(vs) + ")"

    def tuple_ty(self, tys):
        return lean_ty2(tys[0]) if len(tys) == 1 else "(" + " × ".join(lean_ty2(t, True) for t in tys) + ")"

    def lean_pat(self, p):
        k = p[0]
        if k == "wild":
            return "_"
        if k == "bind":
            return mangle(p[1])
        if k == "some":
            return f"Option.some {self.par(self.lean_pat(p[1]))}"
        if k == "none":
            return "Option.none"
        if k == "path":
            t = self.resolve_self(p[1][0])
            return R.ENUMS[t][p[1][1]]
        if k == "tuple":
            return "(" + ", ".join(self.lean_pat(q) for q in p[1]) + ")"
        fail("internal: pattern")

    def index_term(self, keyty, x):
        fn = self.assoc.get(("Index", "from", prune(keyty)))
        if fn is None:
            self.err(self.cur_node, f"ArrayMap key {show_ty2(keyty)}: `impl From<{show_ty2(keyty)}> for Index` is not translated")
        if fn.may_panic:
            self.err(self.cur_node, f"{fn.lean} can panic")
        if fn not in self.cur.callees:
            self.cur.callees.append(fn)
        return f"{fn.lean} {self.par(x)}"

    def shift_amount_int(self, e, x):
        t = prune(e.ty)
        nm, w, signed = R.INT_TYPES[t]
        if signed:
            return f"{nm}.toInt {self.par(x)}"
        return f"Int.ofNat ({nm}.toNat {self.par(x)})"

    def conv(self, src, dst, x):
        src, dst = prune(src), prune(dst)
        if src == dst or R.INT_TYPES[src][0] == R.INT_TYPES[dst][0]:
            return x
        (ls, ws, ss), (ld, wd, sd) = R.INT_TYPES[src], R.INT_TYPES[dst]
        if ws != wd and ss != sd:
            mid = sorted(k for k, v in R.INT_TYPES.items() if v[1] == wd and v[2] == ss and k != "usize")
            if not mid:
                fail(f"cast {src} -> {dst} not supported")
            return self.conv(mid[0], dst, self.conv(src, mid[0], x))
        return f"{ls}.to{ld} {self.par(x)}"

    # ---- expressions
    def ex(self, e, out, ind):
        k = e.k
        P = self.par
        self.cur_node = e
        if k == "lit":
            return f"({e.text} : {lean_ty2(e.ty)})"
        if k == "path":
            r = e.ref
            if r[0] == "primconst" or r[0] == "primstatic":
                return r[1]
            if r[0] == "const" and getattr(r[1], "may_panic", False):
                return self.bind(out, ind, r[1].ty, r[1].lean)
            if r[0] == "none":
                return f"(Option.none : {lean_ty2(e.ty)})"
            return super().ex(e, out, ind)
        if k == "structlit":
            fs = ", ".join(f"{fld(e.sname, f)} := {self.ex(x, out, ind)}" for f, x in e.fields)
            return f"({{ {fs} }} : {e.sname})"
        if k == "arraylit":
            xs = ", ".join(self.ex(x, out, ind) for x in e.items)
            return f"[{xs}]" if e.aslist else f"#[{xs}]"
        if k == "repeat":
            n = self.const_eval(e.n)
            if n is None:
                self.err(e, "array repeat count is not a constant")
            return f"Array.replicate {n} {P(self.ex(e.e, out, ind))}"
        if k == "call" and getattr(e, "kind2", None) == "filled":
            kt = prune(e.keyty)
            if kt not in self.key_count:
                self.err(e, f"ArrayMap::filled: `impl ArrayKey for {show_ty2(kt)}` (COUNT) not found")
            return f"Array.replicate {self.key_count[kt]} {P(self.ex(e.args[0], out, ind))}"
        if k == "index" and e.kind2 == "amindex":
            a = self.ex(e.e, out, ind)
            i = self.ex(e.ix, out, ind)
            return self.bind(out, ind, e.ty, f"ArrayMap.index {P(a)} {P(self.index_term(e.keyty, i))}")
        if k == "index" and e.kind2 == "vecindex":
            a = self.ex(e.e, out, ind)
            i = self.ex(e.ix, out, ind)
            return self.bind(out, ind, e.ty, f"ArrayMap.index {P(a)} {P(i)}")
        if k == "index" and e.kind2 == "mt2":
            tab = self.ex(e.e.e, out, ind)
            sq = self.ex(e.e.ix, out, ind)
            i = self.ex(e.ix, out, ind)
            return self.bind(out, ind, e.ty, f"{tab} {P(self.index_term('Square', sq))} {P(i)}")
        if k == "index" and e.kind2 == "mt1":
            self.err(e, "a whole magic table used as a value")
        if k == "un" and getattr(e, "kind2", None) == "fn":
            fn = e.target
            t = f"{fn.lean} {P(self.ex(e.e, out, ind))}"
            return self.bind(out, ind, fn.ret, t) if fn.may_panic else t
        if k == "bin" and e.op in ("<<", ">>") and getattr(e, "kind2", None) != "fn":
            if self.const_eval(e.r) is None:
                a = self.ex(e.l, out, ind)
                b = self.ex(e.r, out, ind)
                nm = "checked_shl" if e.op == "<<" else "checked_shr"
                return self.bind(out, ind, e.ty, f"{R.INT_TYPES[prune(e.ty)][0]}.{nm} {P(a)} {P(self.shift_amount_int(e.r, b))}")
            return super().ex(e, out, ind)
        if k == "cast" and getattr(e, "enumcast", None):
            x = self.ex(e.e, out, ind)
            return self.conv("u8", e.ty, f"{e.enumcast}.into_u8 {P(x)}")
        if k == "mcall" and getattr(e, "kind2", None) == "opt" and e.name == "map" and self.panics(e.args[0].body):
            cl = e.args[0]
            x = self.ex(e.recv, out, ind)
            if out is None:
                fail("internal: pure context")
            t = self.fresh()
            out.append(f"{ind}let {t} : {lean_ty2(e.ty)} ←")
            out.append(f"{ind}  match {x} with")
            out.append(f"{ind}  | Option.none => pure Option.none")
            out.append(f"{ind}  | Option.some {mangle(cl.params[0])} => do")
            sub = []
            b = self.ex(cl.body, sub, ind + "    ")
            out.extend(sub)
            out.append(f"{ind}    pure (Option.some {P(b)})")
            return t
        if k in ("match", "iflet"):
            if self.simple_branch(e):
                return self.inline_branch(e)
            if out is None:
                self.err(e, "nested block-`match` inside an expression of a panic-free function")
            t = self.fresh()
            lines = []
            self.emit_if(e, lines, ind, ("let", t, e.ty), ("value",), monadic_ctx=True)
            out.extend(lines)
            return t
        if k == "block":
            self.err(e, "block expression in expression position")
        return super().ex(e, out, ind)

    def simple_if(self, e):
        if e.k in ("match", "iflet"):
            return self.simple_branch(e)
        if e.k != "if" or e.el is None:
            return False
        for b in (e.th, e.el):
            if b.stmts or b.tail is None:
                return False
            if b.tail.k in ("if", "match", "iflet") and not self.simple_if(b.tail):
                return False
        return not self.panics(e)

    def simple_branch(self, e):
        if self.panics(e):
            return False
        blocks = [a.body for a in e.arms] if e.k == "match" else [e.th, e.el]
        for b in blocks:
            if b is None or b.stmts or b.tail is None:
                return False
            if b.tail.k in ("if", "match", "iflet") and not self.simple_if(b.tail):
                return False
        return True

    def inline_branch(self, e):
        s = self.ex(e.scrut, None, "")
        if e.k == "match":
            arms = [(self.lean_pat(a.pat), a.body) for a in e.arms]
        else:
            arms = [(self.lean_pat(e.pat), e.th), ("_", e.el)]
        return "(match " + s + " with " + " ".join(f"| {p} => {self.ex(b.tail, None, '')}" for p, b in arms) + ")"

    # ---- places
    def write_place(self, p, newval, out, ind, mon):
        """statement(s) that store `newval` (a Lean term) into place `p` by rebinding its root variable"""
        m = out if mon else None
        if p.k == "paren" or (p.k == "un" and p.op in ("*", "&")):
            return self.write_place(p.e, newval, out, ind, mon)
        if p.k == "path":
            v = mangle(p.segs[0])
            out.append(f"{ind}let {v} : {lean_ty2(p.ty)} := {newval}")
            return
        if p.k == "field":
            if p.fk == "newtype":
                return self.write_place(p.e, newval, out, ind, mon)
            if p.fk in ("fst", "snd"):
                self.err(p, "assignment to a tuple component")
            base = self.ex(p.e, m, ind)
            return self.write_place(p.e, f"{{ {base} with {p.fk.split('.')[-1]} := {newval} }}", out, ind, mon)
        if p.k == "index" and p.kind2 == "amindex":
            if m is None:
                fail("internal: pure context")
            base = self.ex(p.e, m, ind)
            i = self.ex(p.ix, m, ind)
            t = self.bind(m, ind, p.e.ty, f"ArrayMap.set {self.par(base)} {self.par(self.index_term(p.keyty, i))} {self.par(newval)}")
            return self.write_place(p.e, t, out, ind, mon)
        self.err(p, "unsupported place expression")

    # ---- branching constructs (if / if let / match), as binder value, statement or tail
    def branch_parts(self, e, out, ind, monadic_ctx):
        """-> (header line, [(intro line, block or None)])   (lines without indentation)"""
        pre = out if monadic_ctx else None
        if e.k == "if":
            c = self.ex(e.c, pre, ind)
            return None, [(f"if {c} then", e.th), ("else", e.el)]
        s = self.ex(e.scrut, pre, ind)
        if e.k == "iflet":
            other = "Option.none" if e.pat[0] == "some" and e.pat[1][0] in ("bind", "wild") else "_"
            return f"match {s} with", [(f"| {self.lean_pat(e.pat)} =>", e.th), (f"| {other} =>", e.el)]
        return f"match {s} with", [(f"| {self.lean_pat(a.pat)} =>", a.body) for a in e.arms]

    def emit_if(self, e, out, ind, binder, result, monadic_ctx):
        """binder: ("let", name, ty) | ("lettuple", name, ty) | ("tail",);  result: ("value",) | ("vars", vs) | ("ret",)"""
        blocks = [a.body for a in e.arms] if e.k == "match" else [e.th, e.el]
        mon = any(b is not None and self.panics(b) for b in blocks)
        head, arms = self.branch_parts(e, out, ind, monadic_ctx)
        paren = False
        if binder[0] == "let":
            arrow = "← (" if mon else ":="
            bname = binder[1] if re.fullmatch(r"tmp\d+", binder[1]) else mangle(binder[1])
            out.append(f"{ind}let {bname} : {lean_ty2(binder[2])} {arrow}")
            ind2 = ind + "  "
            paren = mon
        elif binder[0] == "lettuple":
            arrow = "← (" if mon else ":="
            out.append(f"{ind}let {binder[1]} : {binder[2]} {arrow}")
            ind2 = ind + "  "
            paren = mon
        else:
            if monadic_ctx and not mon:
                mon = True
            ind2 = ind
        kw = " do" if mon else ""
        if head is not None:
            out.append(f"{ind2}{head}")
        for intro, blk in arms:
            out.append(f"{ind2}{intro}{kw}")
            if blk is None:
                if result[0] == "early":
                    t = self.tuple_term(result[1]) if result[1] else "()"
                    out.append(f"{ind2}  {'pure (Early.cont ' + t + ')' if mon else 'Early.cont ' + t}")
                    continue
                if result[0] != "vars":
                    self.err(e, "missing `else` branch")
                out.append(f"{ind2}  {'pure ' if mon else ''}{self.tuple_term(result[1])}")
            else:
                self.emit_block(blk, out, ind2 + "  ", mon, result)
        if paren:
            # the branching is a TERM (parenthesised), not a `do` element: Lean then builds `bind (if ..) (fun x => rest)`
            # instead of duplicating `rest` into the branches through a join point
            out[-1] = out[-1] + ")"

    def assigned_vars(self, b, acc, local):
        local = set(local)
        for s in b.stmts:
            if s.k == "let":
                local.add(s.name)
            elif s.k == "letelse":
                for v in pat_vars(s.pat):
                    local.add(v)
            elif s.k == "assign":
                if s.var not in local and s.var not in acc:
                    acc.append(s.var)
            elif s.k == "exprstmt":
                self.assigned_in_expr(s.e, acc, local)
        if b.tail is not None:
            self.assigned_in_expr(b.tail, acc, local)
        return acc

    def assigned_in_expr(self, e, acc, local):
        if e.k in ("call", "mcall") and getattr(e, "mut_var", None):
            if e.mut_var not in local and e.mut_var not in acc:
                acc.append(e.mut_var)
        elif e.k == "if":
            self.assigned_vars(e.th, acc, local)
            if e.el is not None:
                self.assigned_vars(e.el, acc, local)
        elif e.k == "iflet":
            self.assigned_vars(e.th, acc, set(local) | set(pat_vars(e.pat)))
            if e.el is not None:
                self.assigned_vars(e.el, acc, local)
        elif e.k == "match":
            for a in e.arms:
                self.assigned_vars(a.body, acc, set(local) | set(pat_vars(a.pat)))
        elif e.k == "for":
            l2 = set(local)
            if e.pat[0] == "bind":
                l2.add(e.pat[1])
            self.assigned_vars(e.body, acc, l2)

    def emit_vars_stmt(self, e, b, out, ind, mon):
        """a statement `if`/`if let`/`match` none of whose branches returns: rebinding of the assigned outer variables"""
        vs = []
        self.assigned_in_expr(e, vs, [])
        if not vs:
            self.err(e, "statement `if`/`match` without an effect on a local variable")
        tys = self.var_types(e, vs)
        if len(vs) == 1:
            self.emit_if(e, out, ind, ("let", vs[0], tys[0]), ("vars", vs), mon)
        else:
            t = self.fresh()
            self.emit_if(e, out, ind, ("lettuple", t, self.tuple_ty(tys)), ("vars", vs), mon)
            for i, (v, ty) in enumerate(zip(vs, tys)):
                out.append(f"{ind}let {mangle(v)} : {lean_ty2(ty)} := {self.proj(t, i, len(vs))}")

    def var_types(self, e, vs):
        tys = []
        for v in vs:
            if v not in e.env_here:
                self.err(e, f"variable {v} not in scope")
            tys.append(prune(e.env_here[v]))
        return tys

    @staticmethod
    def proj(t, i, n):
        """component i of an n-tuple (right-nested pairs)"""
        s = t
        for _ in range(i):
            s = f"{s}.2"
        return f"{s}.1" if i < n - 1 else s

    def emit_for(self, e, b, out, ind, mon):
        if contains_return(e.body):
            self.err(e, "`return` / `?` inside a loop body is outside the supported subset")
        vs = []
        l0 = [e.pat[1]] if e.pat[0] == "bind" else []
        self.assigned_vars(e.body, vs, l0)
        if not vs:
            self.err(e, "loop without an effect on a local variable")
        tys = self.var_types(e, vs)
        m = out if mon else None
        # the list of items
        if e.itkind == "range":
            t = prune(e.item_ty)
            if t != "i8":
                self.err(e, f"range over {t} not supported")
            lo = self.ex(e.it.lo, m, ind)
            hi = self.ex(e.it.hi, m, ind)
            items = f"(Int8.range {self.par(lo)} {self.par(hi)})"
        elif e.itkind == "slice":
            items = self.par(self.ex(e.it, m, ind))
        elif e.itkind == "array":
            items = f"(Array.toList {self.par(self.ex(e.it, m, ind))})"
        else:
            x = self.ex(e.it, m, ind)
            if m is None:
                fail("internal: pure context")
            t = self.fresh()
            out.append(f"{ind}let {t} : List {lean_ty2(e.item_ty, True)} ← iter_collect {e.iter_next.lean} {e.iter_fuel} {self.par(x)}")
            items = t
        bmon = self.panics(e.body)
        if bmon and not mon:
            fail("internal: pure context")
        xname = mangle(e.pat[1]) if e.pat[0] == "bind" else "_"
        sty = self.tuple_ty(tys)
        single = len(vs) == 1
        sname = mangle(vs[0]) if single else "loop_state"
        fold = "List.foldlM" if bmon else "List.foldl"
        arrow = "←" if bmon else ":="
        outname = sname if single else self.fresh()
        out.append(f"{ind}let {outname} : {sty} {arrow} {fold} (fun ({sname} : {sty}) ({xname} : {lean_ty2(e.item_ty)}) =>{' do' if bmon else ''}")
        ind2 = ind + "    "
        if not single:
            for i, (v, ty) in enumerate(zip(vs, tys)):
                out.append(f"{ind2}let {mangle(v)} : {lean_ty2(ty)} := {self.proj('loop_state', i, len(vs))}")
        self.emit_block(e.body, out, ind2, bmon, ("vars", vs))
        out[-1] = out[-1] + f") {self.tuple_term(vs)} {items}"
        if not single:
            for i, (v, ty) in enumerate(zip(vs, tys)):
                out.append(f"{ind}let {mangle(v)} : {lean_ty2(ty)} := {self.proj(outname, i, len(vs))}")

    def ret_line(self, val, mon, result):
        """the line that leaves the function with value `val` (a Lean term of the Rust return type)"""
        r = self.fmt_ret(val)
        if result[0] == "early":
            r = f"Early.ret {self.par(r)}"
        return f"{'pure ' + self.par(r) if mon else r}"

    def early_ty(self, vs_tys):
        rty = lean_ty2(self.cur.out_ty(), True)
        vt = self.tuple_ty(vs_tys) if vs_tys else "Unit"
        if " " in vt and not vt.startswith("("):
            vt = f"({vt})"
        return f"Early {rty} {vt}"

    def fmt_ret(self, val):
        """the function result: value, new value of the `&mut` parameter, or the pair of both"""
        fn = self.cur
        if fn.mutparam:
            if prune(fn.ret) == "unit":
                return mangle(fn.mutparam)
            return f"({val}, {mangle(fn.mutparam)})"
        return val

    def check_scope(self, inner, rest_stmts, rest_tail, what, allow=()):
        """names let-bound in `inner` must not be referred to by the statements that follow it (Lean `let` would capture them)"""
        declared = set()
        for x in R.walk(inner):
            if x.k == "let":
                declared.add(x.name)
            elif x.k == "letelse":
                declared.update(pat_vars(x.pat))
        used = set()
        for s in list(rest_stmts) + ([rest_tail] if rest_tail is not None else []):
            for x in R.walk(s):
                if x.k == "path" and len(x.segs) == 1:
                    used.add(x.segs[0])
        if self.cur.mutparam:
            used.add(self.cur.mutparam)
        clash = sorted((declared & used) - set(allow))
        if clash:
            self.err(inner, f"{what}: local(s) {clash} declared in a branch are also used after it (scoping would change)")

    def emit_block(self, b, out, ind, mon, result):
        self.emit_seq(b, list(b.stmts), b.tail, out, ind, mon, result)

    def emit_seq(self, b, stmts, tail, out, ind, mon, result):
        m = out if mon else None
        for idx, s in enumerate(stmts):
            rest = stmts[idx + 1:]
            self.cur_node = s
            if s.k == "let":
                if s.init.k == "block":
                    blk = s.init
                    if blk.tail is None:
                        self.err(s, "block expression without a value")
                    self.check_scope(blk, rest, tail, "block expression", allow={s.name})
                    s2 = N("let", s.line, name=s.name, mut=s.mut, ann=s.ann, init=blk.tail)
                    s2.vty = s.vty
                    self.emit_seq(b, list(blk.stmts) + [s2] + rest, tail, out, ind, mon, result)
                    return
                if s.init.k == "try":
                    if result[0] not in ("ret", "early"):
                        self.err(s, "`?` inside a loop / nested value block")
                    x = self.ex(s.init.e, m, ind)
                    kw = " do" if mon else ""
                    out.append(f"{ind}match {x} with")
                    out.append(f"{ind}| Option.none =>{kw}")
                    out.append(f"{ind}  " + self.ret_line(f"(Option.none : {lean_ty2(self.cur.ret)})", mon, result))
                    out.append(f"{ind}| Option.some {mangle(s.name)} =>{kw}")
                    self.emit_seq(b, rest, tail, out, ind + "  ", mon, result)
                    return
                if any(x.k == "try" for x in R.walk(s.init)):
                    self.err(s, "`?` is supported only as the outermost operator of a `let` initialiser")
                if s.init.k in ("if", "iflet", "match") and not self.simple_if(s.init):
                    self.emit_if(s.init, out, ind, ("let", s.name, s.vty), ("value",), mon)
                    continue
                x = self.ex(s.init, m, ind)
                out.append(f"{ind}let {mangle(s.name)} : {lean_ty2(s.vty)} := {x}")
            elif s.k == "letelse":
                if not block_diverges(s.els):
                    self.err(s, "`let .. else` whose else-block does not `return`")
                if result[0] not in ("ret", "early"):
                    self.err(s, "`let .. else {{ return }}` inside a loop / nested value block")
                x = self.ex(s.init, m, ind)
                kw = " do" if mon else ""
                out.append(f"{ind}match {x} with")
                other = "Option.none" if s.pat[1][0] in ("bind", "wild") else "_"
                out.append(f"{ind}| {other} =>{kw}")
                self.emit_block(s.els, out, ind + "  ", mon, result)
                out.append(f"{ind}| {self.lean_pat(s.pat)} =>{kw}")
                self.emit_seq(b, rest, tail, out, ind + "  ", mon, result)
                return
            elif s.k == "return":
                if rest or tail is not None:
                    self.err(s, "statements after `return`")
                if result[0] not in ("ret", "early"):
                    self.err(s, "`return` inside a loop / nested value block")
                if s.e is None:
                    val = "()"
                else:
                    val = self.par(self.ex(s.e, m, ind))
                out.append(f"{ind}" + self.ret_line(val, mon, result))
                return
            elif s.k == "assign":
                x = self.ex(s.rhs, m, ind)
                if s.op == "=":
                    new = x
                else:
                    cur = self.ex(s.place, m, ind)
                    fn = getattr(s, "opfn", None)
                    if fn is not None:
                        call = f"{fn.lean} {self.par(cur)} {self.par(x)}"
                        new = self.bind(m, ind, s.pty, call) if fn.may_panic else call
                    elif s.op in ("|=", "&=", "^="):
                        lop = {"|=": "|||", "&=": "&&&", "^=": "^^^"}[s.op]
                        if prune(s.pty) == "bool":
                            lop = {"|=": "||", "&=": "&&", "^=": "^^"}[s.op]
                        new = f"{self.par(cur)} {lop} {self.par(x)}"
                    else:
                        nm = {"+=": "checked_add", "-=": "checked_sub", "*=": "checked_mul"}[s.op]
                        new = self.bind(m, ind, s.pty, f"{R.INT_TYPES[prune(s.pty)][0]}.{nm} {self.par(cur)} {self.par(x)}")
                self.write_place(s.place, new, out, ind, mon)
            elif s.k == "dassert":
                if m is None:
                    fail("internal: pure context")
                x = self.ex(s.cond, m, ind)
                out.append(f"{ind}debug_assert {self.par(x)}")
            elif s.k == "exprstmt":
                e = s.e
                if e.k in ("if", "iflet", "match"):
                    blocks = [(a.body) for a in e.arms] if e.k == "match" else [e.th, e.el]
                    div = [blk is not None and block_diverges(blk) for blk in blocks]
                    has_ret = any(blk is not None and contains_return(blk) for blk in blocks)
                    cont = [i for i, d in enumerate(div) if not d]
                    simple = has_ret and len(cont) <= 1 and not any(
                        blk is not None and not div[i] and contains_return(blk) for i, blk in enumerate(blocks))
                    if has_ret and result[0] not in ("ret", "early"):
                        self.err(e, "`return` / `?` inside a loop / nested value block")
                    if simple:
                        head, arms = self.branch_parts(e, out, ind, mon)
                        kw = " do" if mon else ""
                        if head is not None:
                            out.append(f"{ind}{head}")
                        for i, (intro, blk) in enumerate(arms):
                            out.append(f"{ind}{intro}{kw}")
                            if div[i]:
                                self.emit_block(blk, out, ind + "  ", mon, result)
                            else:
                                st2 = list(blk.stmts) if blk is not None else []
                                if blk is not None:
                                    if blk.tail is not None:
                                        self.err(e, "value in a statement branch")
                                    self.check_scope(blk, rest, tail, "branch followed by more statements")
                                self.emit_seq(b, st2 + rest, tail, out, ind + "  ", mon, result)
                        if not cont:
                            if rest or tail is not None:
                                self.err(e, "statements after a branching statement all of whose branches return")
                        return
                    if has_ret:
                        # general case: the statement yields `Early.ret r` (leave the function) or `Early.cont vars`
                        vs = []
                        self.assigned_in_expr(e, vs, [])
                        tys = self.var_types(e, vs)
                        t = self.fresh()
                        self.emit_if(e, out, ind, ("lettuple", t, self.early_ty(tys)), ("early", vs), mon)
                        kw = " do" if mon else ""
                        out.append(f"{ind}match {t} with")
                        rv = self.fresh()
                        out.append(f"{ind}| Early.ret {rv} =>{kw}")
                        rr = f"Early.ret {rv}" if result[0] == "early" else rv
                        out.append(f"{ind}  {'pure ' + self.par(rr) if mon else rr}")
                        cv = self.fresh()
                        out.append(f"{ind}| Early.cont {cv if vs else '_'} =>{kw}")
                        for i, (v, ty) in enumerate(zip(vs, tys)):
                            out.append(f"{ind}  let {mangle(v)} : {lean_ty2(ty)} := {self.proj(cv, i, len(vs))}")
                        self.emit_seq(b, rest, tail, out, ind + "  ", mon, result)
                        return
                    self.emit_vars_stmt(e, b, out, ind, mon)
                elif e.k == "for":
                    self.emit_for(e, b, out, ind, mon)
                else:
                    fn = e.target
                    if prune(fn.ret) != "unit":
                        self.err(e, f"result of {fn.lean} is dropped")
                    args = []
                    for a in e.actual:
                        args.append(self.par(self.ex(a, m, ind)))
                    call = " ".join([fn.lean] + args)
                    new = self.bind(m, ind, fn.mut_ty() if hasattr(fn, "mut_ty") else e.mut_ty, call) if fn.may_panic else call
                    self.write_place(e.mut_place, new, out, ind, mon)
            else:
                self.err(s, "statement kind")
        # ---- the value of the block
        if result[0] == "vars":
            if tail is not None:
                self.err(b, "value in a statement block")
            t = self.tuple_term(result[1])
            out.append(f"{ind}{'pure ' if mon else ''}{t}")
            return
        if result[0] == "early" and tail is None:
            t = self.tuple_term(result[1]) if result[1] else "()"
            out.append(f"{ind}{'pure (Early.cont ' + t + ')' if mon else 'Early.cont ' + t}")
            return
        t = tail
        if t is None:
            if result[0] == "ret" and self.cur.mutparam and prune(self.cur.ret) == "unit":
                r = mangle(self.cur.mutparam)
                out.append(f"{ind}{'pure ' if mon else ''}{r}")
                return
            self.err(b, "block without value")
        while t.k == "paren":
            t = t.e
        if t.k in ("if", "iflet", "match") and not self.simple_if(t):
            self.emit_if(t, out, ind, ("tail",), result, mon)
            return
        plain = not (result[0] == "ret" and self.cur.mutparam)
        if plain and mon and t.k in ("call", "mcall") and getattr(t, "kind2", None) == "fn" and t.target.may_panic \
                and not t.target.mutparam:
            args = [self.par(self.ex(a, m, ind)) for a in t.actual]
            out.append(f"{ind}{' '.join([t.target.lean] + args)}")
            return
        if plain and mon and t.k == "mcall" and getattr(t, "kind2", None) == "opt" and t.name == "unwrap":
            x = self.ex(t.recv, m, ind)
            out.append(f"{ind}unwrap {self.par(x)}")
            return
        x = self.ex(t, m, ind)
        if result[0] == "ret":
            x = self.fmt_ret(self.par(x) if self.cur.mutparam else x)
        out.append(f"{ind}{'pure ' + self.par(x) if mon else x}")

    # ---- items
    def emit_fn(self, fn):
        self.cur = fn
        self.tmpn = 0
        for e in R.walk(fn.body):
            names = ([e.name] if e.k == "let" else []) + (e.params if e.k == "closure" else [])
            if e.k == "letelse":
                names += pat_vars(e.pat)
            if e.k == "for" and e.pat[0] == "bind":
                names.append(e.pat[1])
            for nm in names:
                if re.fullmatch(r"tmp\d+_?|loop_state", nm):
                    fail(f"{fn.file}: identifier {nm} clashes with generated temporaries")
        ps = " ".join(f"({mangle(n)} : {lean_ty2(t)})" for (n, t, m) in fn.params)
        oty = fn.out_ty()
        mon = fn.may_panic
        rty = f"Panics {lean_ty2(oty, True)}" if mon else lean_ty2(oty)
        head = f"def {fn.lean}{' ' + ps if ps else ''} : {rty} :={' do' if mon else ''}"
        lines = []
        if prune(oty) == "unit":
            self.err(fn.body, "function without result")
        self.emit_block(fn.body, lines, "  ", mon, ("ret",))
        sig = ", ".join(f"{n}: {'&mut ' if m == 'refmut' else '&' if m == 'ref' else ''}{show_ty2(t)}"
                        for (n, t, m) in fn.params)
        rs = "impl Iterator<Item = u32>" if getattr(fn, "impl_ret", False) else show_ty2(fn.ret)
        doc = f"/-- `{fn.file}` — `{fn.rust_path}({sig})" + (f" -> {rs}`" if prune(fn.ret) != "unit" else "`")
        if getattr(fn, "impl_ret", False):
            doc += f"; the iterator is the value `{show_ty2(fn.ret)}(..)` the body constructs"
        if fn.mutparam:
            doc += (f"; returns the new value of `{fn.mutparam}`" if prune(fn.ret) == "unit"
                    else f"; returns (result, new value of `{fn.mutparam}`)")
        if mon:
            doc += "; `none` = panic"
        doc += " -/"
        return "\n".join([doc, head] + lines)

    def emit_const(self, c):
        cur = Fn2.__new__(Fn2)
        cur.file, cur.name, cur.lean, cur.mutparam, cur.ret = c.file, c.name, c.lean, None, c.ty
        cur.mod, cur.self_ty, cur.callees, cur.params = c.cont["mod"], c.cont["self"], [], []
        self.cur = cur
        self.tmpn = 0
        kind = "static ref" if c.static else "const"
        v = self.const_eval(c.expr)
        vs = f" (= {v})" if isinstance(v, int) else ""
        doc = f"/-- `{c.file}` — `{kind} {c.name}: {show_ty2(c.ty)}`{vs}"
        if c.may_panic:
            lines = []
            x = self.ex(c.expr, lines, "  ")
            doc += "; `none` = the initialiser panics -/"
            body = "\n".join(lines + [f"  pure {self.par(x)}"])
            return f"{doc}\ndef {c.lean} : Panics {lean_ty2(c.ty, True)} := do\n{body}"
        x = self.ex(c.expr, None, "  ")
        return f"{doc} -/\ndef {c.lean} : {lean_ty2(c.ty)} := {x}"

    def emit_struct(self, rel, name, fields, derives):
        lines = [f"/-- `{rel}` — `struct {name}` -/", f"structure {name} where"]
        for f, t in fields:
            lines.append(f"  {fld(name, f)} : {lean_ty2(t)}")
        if "PartialEq" in derives and all(self.has_deceq(t) for _, t in fields):
            lines.append("deriving DecidableEq")
        return "\n".join(lines)

    def has_deceq(self, t):
        t = prune(t)
        if isinstance(t, tuple):
            return t[0] != "MagicTables" and all(self.has_deceq(x) for x in (t[1][1] if t[0] in ("tuple", "ArrayMap") and t[0] == "tuple" else [t[1]]))
        if t in R.STRUCTS and t != "Offset":
            ds = [d for (_, nm, _, dd) in self.structs if nm == t for d in dd]
            return "PartialEq" in ds
        return True

    # ---- everything
    def run2(self):
        self.check_decls2()
        self.collect_arraykeys()
        self.collect_structs()
        self.collect2()
        self.infer_all2()
        self.order2()
        self.check_shifts()
        files = sorted({c["file"] for c in CONTAINERS2} | {d[0] for d in STRUCT_DECLS})
        out = ["-- GENERATED by tools/rs2lean2.py from " + ", ".join(files) + "; do not edit.",
               "import Wee.Gen.MoveFns",
               "import Wee.Model.Attacks",
               "/-!",
               "# Lean definitions translated from the Rust source text, stage 2 (bitboards, Zobrist hash, attack look-ups)",
               "",
               "Every `def`/`structure` below the prelude is produced from the text of one Rust item; the prelude is the fixed,",
               "trusted vocabulary.  `Wee/Proofs/CoreFnsBridge.lean` proves these functions equal to the hand-written model",
               "(`Wee/Model/Bits.lean`, `Attacks.lean`, `Hash.lean`).  Functions of stage 1 (`Wee/Gen/MoveFns.lean`) are used by name.",
               "-/",
               "set_option linter.unusedVariables false",
               "namespace Wee.GenFns",
               "open Wee",
               PRELUDE2.strip("\n"),
               "",
               "/-! ## Translated struct declarations -/",
               ""]
        for rel, name, fields, derives in self.structs:
            out.append(self.emit_struct(rel, name, fields, derives))
            out.append("")
        out.append("/-! ## Translated items -/")
        out.append("")
        for it in self.items:
            out.append(self.emit_const(it) if isinstance(it, Const2) else self.emit_fn(it))
            out.append("")
        out.append("/-! ## Side conditions checked by the translator")
        for n in self.notes:
            out.append(f"* {n}")
        out.append("-/")
        out.append("end Wee.GenFns")
        return "\n".join(out) + "\n"


def main():
    ap = argparse.ArgumentParser()
    ap.add_argument("--repo", default=os.environ.get("WEE_REPO", "/repo"))
    ap.add_argument("--out", default=DEFAULT_OUT)
    ap.add_argument("--check", action="store_true", help="do not write; exit 1 if the file would change")
    a = ap.parse_args()
    try:
        t1 = R.Translator(a.repo)
        t1.run()                                   # stage 1, unchanged (its output is not written here)
        install()
        text = Emitter2(a.repo, t1).run2()
    except TieBroken as ex:
        print(f"TIE-BROKEN rs2lean2: {ex}")
        sys.exit(2)
    old = None
    if os.path.exists(a.out):
        with open(a.out) as f:
            old = f.read()
    changed = old != text
    if a.check:
        print('{"changed": %s}' % ("true" if changed else "false"))
        sys.exit(1 if changed else 0)
    if changed:
        os.makedirs(os.path.dirname(a.out), exist_ok=True)
        with open(a.out, "w") as f:
            f.write(text)
    print('{"changed": [%s]}' % ('"CoreFns.lean"' if changed else ""))


if __name__ == "__main__":
    main()
