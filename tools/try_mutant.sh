#!/bin/bash
# apply a seeded change to /repo, run the given checks, undo it straight afterwards
# (evidence files are records of the CLEAN tree: they are saved before and restored after)
# usage: try_mutant.sh <patch.diff> <tier> <Cxx>...
P=$1; TIER=$2; shift 2
cd /repo && git apply "$P" || { echo "patch does not apply to /repo"; exit 2; }
cd /verif
SAVE=$(mktemp -d /root/evsave.XXXXXX); cp evidence/*.json $SAVE/
for c in "$@"; do
  ./check $c $TIER 2>&1 | grep -E "VIOLATION|KNOWN|^\[$c\]" | cut -c1-400
done
cp $SAVE/*.json evidence/; rm -rf $SAVE
git -C /repo checkout -- . ; git -C /repo status --short | head -3
