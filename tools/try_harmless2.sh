#!/bin/bash
# behaviour-preserving refactors r11..r20 (seeded/harmless2) against the checks anchored in the files they touch
cd /verif
run() { r=$1; shift; echo "=== $r: $*"; tools/try_mutant.sh /verif/seeded/harmless2/$r.diff quick "$@" 2>&1 | grep -E "VIOLATION|exit|does not apply" | cut -c1-260; }
run r11 C10 C01 C09
run r12 C01 C02
run r13 C08 C16
run r14 C11 C14
run r15 C16
run r16 C05 C13
run r17 C15 C03
run r18 C03 C04 C06 C17 C19
run r19 C07 C14 C18
run r20 C12 C20
echo REFACTORS-DONE
