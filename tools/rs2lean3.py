#!/usr/bin/env python3
"""Tie (a) for FUNCTIONS, stage 3a: attack maps, check, and MOVE GENERATION (`board.rs`, `attacks.rs`, `movegen.rs`).

    python3 tools/rs2lean3.py [--repo DIR] [--out FILE] [--check]

Imports `tools/rs2lean.py` and `tools/rs2lean2.py` as modules (neither is modified), runs stage 1 and stage 2 in this process
(their registries of translated functions are the vocabulary stage-3 code may call; `MoveFns.lean` / `CoreFns.lean` are NOT written
here) and translates the items of `CONTAINERS3` into `lean/Wee/Gen/GenMoves.lean` (namespace `Wee.GenFns`, `import Wee.Gen.CoreFns`).
`Wee/Proofs/GenMovesBridge.lean` proves the generated functions equal to the hand-written model (`Wee/Model/Board.lean`,
`Wee/Model/MoveGen.lean`).  Anything outside the supported subset fails CLOSED: `TIE-BROKEN rs2lean3: <reason>`, exit status 2.

======================================================================================================
TRUSTED PART 1 (additions to the tables of rs2lean.py / rs2lean2.py) -- semantics given to the extended Rust subset
------------------------------------------------------------------------------------------------------
 Vec<T> as a buffer                   `Array T` (as in stage 2).  `v.push(x)` = `Vec.push v x` (= `Array.push`: append at the END),
                                      `v.clear()` = `Vec.clear v` (= `#[]`), `Vec::with_capacity(n)` / `Vec::new()` = `#[]` (capacity
                                      is not observable), `for x in v.iter()` folds over `Array.toList v` (front to back).
 { stmts }  as a STATEMENT            a nested term that yields the outer variables it assigns: `let vs <- (do stmts; pure vs)`;
                                      names declared inside do not escape (Rust block scoping, incl. shadowing, is kept).
 let a = &mut p.f;  (p a local)       ALIAS: every later occurrence of `a` in the block is replaced by the place `p.f` (the `let` is
                                      dropped).  Only for a non-`mut` binding to a field path of a local that is not re-declared.
 while let Some(x) = v.m() { body }   (m a translated `&mut self` method returning Option, listed in `WHILE_ITERS`; `v` a local that the
                                      body does not mention and that is not used after the loop)  a fold over
                                      `iter_collect T.m 65 v`: the items produced by calling the TRANSLATED `m` until it answers `None`
                                      (running out of the 65 calls is a panic; the bridge proves it does not happen).
 for (a, b) in C                      tuple patterns in `for` (projection of the item).
 return inside `for`                  `for_early body items state`: the body yields `Early.ret r` (leave the function with `r`; no
                                      further iteration is evaluated) or `Early.cont state`.
 (lo..hi).fold(init, |acc, _| e)      lo, hi integer literals, the element ignored: `hi - lo` applications of the closure, as a
                                      `List.foldl(M)` over `List.replicate (hi - lo) ()`.
 const T: ArrayMap<K, fn(A..) -> R> = ArrayMap::new([|a..| e, ..]);  T[k](x..)
                                      a Lean ARRAY OF FUNCTIONS (`Array (A -> .. -> Panics R)`; the closures are non-capturing because
                                      the table is a `const`), indexed like any `ArrayMap` (out of bounds = panic) and applied.
                                      Evaluation order of Rust: the callee operand (index expression) first, then the arguments.
 a + b  on a struct                   the translated `impl Add for T` (`Offset.add_Offset`; field sums are CHECKED i8 additions).
 struct T(A, B) (two fields)          the pair `A x B` (`MoveResult`);  `T(a, b)` = `(a, b)`, `.0` / `.1` = projections.
 struct S<'a> { f: &'a T } + `impl Deref<Target = T>`   transparent newtype over `T` (`GameStateHelper`): `S { f }` = `f`, `s.f` = `s`,
                                      a method not found on `S` resolves on `T` (auto-deref); declaration and Deref impl checked textually.
 cell.get_or_init(|| e)  on the omitted `OnceCell` field `Board.colored_attack_map[color]`
                                      COMPUTE ON DEMAND: the value is `e` (a pure function of the other fields).  The cache state
                                      machine (empty / initialised cells, clones) is modelled separately in `Wee/Model/AttackCache.lean`
                                      and proved transparent in `Wee/Props/C10*.lean`; it is NOT re-derived from the text here.

TRUSTED PART 2 (additions) -- primitive mappings
------------------------------------------------------------------------------------------------------
 Vec::push / clear / with_capacity / new / iter     see above (prelude `Vec.push`, `Vec.clear`)
 OnceCell::get_or_init                see above
======================================================================================================
"""
import argparse
import copy
import os
import re
import sys

sys.dont_write_bytecode = True
sys.path.insert(0, os.path.dirname(os.path.abspath(__file__)))
import rs2lean as R  # noqa: E402
import rs2lean2 as R2  # noqa: E402

from rs2lean import N, Tok, TVar, TieBroken, fail, mangle  # noqa: E402
from rs2lean2 import C, H, Fn2, Const2, pat_vars, block_diverges, contains_return, fld  # noqa: E402

VERIF = R.VERIF
DEFAULT_OUT = os.path.join(VERIF, "lean", "Wee", "Gen", "GenMoves.lean")

MOVES, PIECE, COLOR, BOARD = R.MOVES, R.PIECE, R.COLOR, R.BOARD
ATTACKS, STATE, COMMON = R2.ATTACKS, R2.STATE, R2.COMMON
MOVEGEN = "weechess-core/src/movegen.rs"

# ----------------------------------------------------------------------------------------------------
# TABLES
# ----------------------------------------------------------------------------------------------------
DECLS3 = [
    (MOVEGEN, r"#\[derive\(Debug, Clone, Copy\)\]\s*pub struct PseudoLegalMove\(Move\);", "struct PseudoLegalMove(Move), Copy"),
    (MOVEGEN, r"#\[derive\(Copy, Clone\)\]\s*struct GameStateHelper<'a> \{\s*state: &'a State,\s*\}",
     "struct GameStateHelper<'a> { state: &'a State }, Copy"),
    (MOVEGEN, r"impl Deref for GameStateHelper<'_> \{\s*type Target = State;\s*fn deref\(&self\) -> &Self::Target \{\s*"
              r"&self\.state\s*\}\s*\}", "impl Deref for GameStateHelper: Target = State, &self.state"),
    (MOVEGEN, r"pub struct MoveGenerator;", "struct MoveGenerator"),
    (MOVES, r"pub struct MoveResult\(pub Move, pub State\);", "struct MoveResult(pub Move, pub State)"),
    (MOVES, r"pub struct MoveSet\(Vec<MoveResult>\);", "struct MoveSet(Vec<MoveResult>)"),
    (BOARD, r"colored_attack_map: ArrayMap<Color, OnceCell<AttackMap>>,", "Board.colored_attack_map: ArrayMap<Color, OnceCell<AttackMap>>"),
    (BOARD, r"use std::\{\s*cell::OnceCell,", "OnceCell is std::cell::OnceCell"),
]

NEWTYPES3 = {"PseudoLegalMove": "Move", "GameStateHelper": "State", "MoveSet": ("Vec", "MoveResult")}
ALIASES3 = {"MoveResult": ("tuple", ("Move", "State"))}
NEWTYPE_FIELD = {"GameStateHelper": "state"}          # single named field of a transparent struct
DEREF = {"GameStateHelper": "State"}                  # auto-deref for method calls (Deref impl checked by DECLS3)
PAIR_STRUCTS = {"MoveResult"}                         # two-field tuple structs = pairs

STRUCT_DECLS3 = [
    (MOVEGEN, "MoveGenerationBuffer", {}, []),
]

# `while let Some(x) = v.m()`: (type of v, m) -> fuel
WHILE_ITERS = {("BitBoard", "pop"): 65}

BOARD_STAGE2 = ["new", "occupancy", "vacancy", "piece_occupancy", "piece_map", "colored_occupancy"]

CONTAINERS3 = [
    C(BOARD, [H("impl Add for Offset")], "Offset", "Offset", ["add"], complete=True, trait=("add", "Offset")),
    C(COMMON, [], None, "common", [], mod="common", consts=True, only_consts=["CASTLE_PATH_MASKS", "CASTLE_CHECK_MASKS"]),
    C(ATTACKS, [H("impl AttackGenerator")], "AttackGenerator", "AttackGenerator", ["compute"]),
    C(BOARD, [H("impl AttackMap")], "AttackMap", "AttackMap", ["from_occupancy"], complete=True),
    C(BOARD, [H("impl Board")], "Board", "Board",
      ["piece_at", "is_check", "colored_attacks", "colored_pawn_attacks", "attack_map"], complete=True,
      skip=dict([(n, "translated by stage 2 (rs2lean2.py)") for n in BOARD_STAGE2] +
                [("empty_map", "constructor helper of the FEN parser (`ArrayMap::filled`), not used by move generation"),
                 ("pieces", "`impl Iterator` over `Square::ALL.iter().filter_map(..)` (printer / evaluator input; tied by correspondence)")])),
    C(MOVES, [H("impl MoveSet")], "MoveSet", "MoveSet", ["new"]),
    C(MOVEGEN, [H("impl MoveGenerationBuffer")], "MoveGenerationBuffer", "MoveGenerationBuffer", ["new", "clear"], complete=True),
    C(MOVEGEN, [H("impl Into<MoveSet> for MoveGenerationBuffer")], "MoveGenerationBuffer", "MoveGenerationBuffer", ["into"],
      complete=True, trait=("into", "MoveSet")),
    C(MOVEGEN, [H("impl GameStateHelper<'_>")], "GameStateHelper", "GameStateHelper",
      ["own_piece", "own_pieces", "own_castle_rights", "own_backrank_mask", "own_pawn_home_rank_mask", "to_own_piece",
       "opposing_pieces", "opposing_attacks", "expand_moves"], complete=True),
    C(MOVEGEN, [H("impl PseudoLegalMove")], "PseudoLegalMove", "PseudoLegalMove", ["new", "try_as_legal_move"], complete=True),
    C(MOVEGEN, [H("impl MoveGenerator")], "MoveGenerator", "MoveGenerator",
      ["compute_legal_moves", "compute_legal_moves_into", "compute_psuedo_legal_moves_into", "compute_pawn_moves",
       "compute_knight_moves", "compute_king_moves", "compute_bishop_moves", "compute_rook_moves", "compute_queen_moves"],
      complete=True),
]

PRELUDE3 = r'''
/-! ## Prelude of stage 3a (fixed vocabulary; see the tables at the top of `tools/rs2lean3.py`) -/

/-- `struct PseudoLegalMove(Move)` -/
abbrev PseudoLegalMove := Move
/-- `struct GameStateHelper<'a> { state: &'a State }` with `Deref<Target = State>` -/
abbrev GameStateHelper := State
/-- `struct MoveResult(pub Move, pub State)` -/
abbrev MoveResult := Move × State
/-- `struct MoveSet(Vec<MoveResult>)` -/
abbrev MoveSet := Array MoveResult

/-- `Vec::push`: append at the end -/
@[reducible] def Vec.push {α : Type} (v : Array α) (x : α) : Array α := Array.push v x
/-- `Vec::clear` -/
@[reducible] def Vec.clear {α : Type} (v : Array α) : Array α := #[]

/-- `for x in items { body }` with a `return` in the body: the body yields `Early.ret r` (leave the function with `r`;
nothing after it is evaluated) or `Early.cont s` (next iteration with the new values of the assigned variables) -/
def for_early {α ρ σ : Type} (f : σ → α → Panics (Early ρ σ)) : List α → σ → Panics (Early ρ σ)
  | [], s => some (Early.cont s)
  | x :: xs, s =>
    match f s x with
    | none => none
    | some (Early.ret r) => some (Early.ret r)
    | some (Early.cont s') => for_early f xs s'
'''


# ----------------------------------------------------------------------------------------------------
# module-level extensions (installed after stage 2 has run; the stage-2 helpers look these names up at call time)
# ----------------------------------------------------------------------------------------------------
_orig = {"lean_ty2": R2.lean_ty2, "show_ty2": R2.show_ty2, "children2": R2.children2}


def lean_ty3(t, atom=False):
    t = R2.prune2(t)
    if isinstance(t, tuple) and t[0] == "fnptr":
        parts = [lean_ty3(x, True) for x in t[1][1][:-1]] + ["Panics " + lean_ty3(t[1][1][-1], True)]
        s = " → ".join(parts)
        return f"({s})" if atom else s
    if isinstance(t, tuple) and t[0] in ("Option", "ArrayMap", "Vec", "array", "slice", "tuple"):
        # same shapes as stage 2, re-implemented so that nested function types are reached
        if t[0] == "Option":
            s = f"Option {lean_ty3(t[1], True)}"
            return f"({s})" if atom else s
        if t[0] == "tuple" and len(t[1]) >= 2:
            return "(" + " × ".join(lean_ty3(x, True) for x in t[1]) + ")"
        if t[0] == "ArrayMap":
            s = f"Array {lean_ty3(t[1][1][1], True)}"
            return f"({s})" if atom else s
        if t[0] in ("Vec", "array"):
            s = f"Array {lean_ty3(t[1], True)}"
            return f"({s})" if atom else s
        if t[0] == "slice":
            s = f"List {lean_ty3(t[1], True)}"
            return f"({s})" if atom else s
    return _orig["lean_ty2"](t, atom)


def show_ty3(t):
    t = R2.prune2(t)
    if isinstance(t, tuple) and t[0] == "fnptr":
        xs = t[1][1]
        return "fn(" + ", ".join(show_ty3(x) for x in xs[:-1]) + ") -> " + show_ty3(xs[-1])
    if isinstance(t, tuple) and t[0] == "ArrayMap":
        return f"ArrayMap<{show_ty3(t[1][1][0])}, {show_ty3(t[1][1][1])}>"
    if isinstance(t, tuple) and t[0] == "tuple":
        return "(" + ", ".join(show_ty3(x) for x in t[1]) + ")"
    if isinstance(t, tuple) and t[0] in ("Option", "Vec", "array", "slice"):
        return f"{t[0]}<{show_ty3(t[1])}>"
    return _orig["show_ty2"](t)


def children3(e):
    if e.k == "icall":
        return [e.callee] + list(e.args)
    return _orig["children2"](e)


def install3():
    R2.lean_ty2 = lean_ty3
    R2.show_ty2 = show_ty3
    R.lean_ty, R.show_ty, R.children = lean_ty3, show_ty3, children3
    R.NEWTYPES.update(NEWTYPES3)
    R.ALIASES.update(ALIASES3)
    R2.STRUCT_NAMES.update(NEWTYPE_FIELD)
    R2.STRUCT_NAMES.update(d[1] for d in STRUCT_DECLS3)
    R2.EQ_NEWTYPES.add("PseudoLegalMove")


prune = R2.prune2
lean_ty2 = lean_ty3
show_ty2 = show_ty3


# ----------------------------------------------------------------------------------------------------
# parser
# ----------------------------------------------------------------------------------------------------
class Parser3(R2.Parser2):
    def ty(self):
        s = self.peek()
        if s == "fn" and self.peek(1) == "(":
            self.eat()
            self.eat("(")
            ps = []
            while self.peek() != ")":
                ps.append(self.ty())
                if self.peek() == ",":
                    self.eat()
            self.eat(")")
            self.eat("->")
            ps.append(self.ty())
            return ("fnptr", ("tuple", tuple(ps)))
        if self.tok().k == "id" and self.peek(1) == "<" and self.i + 3 < len(self.t) and self.t[self.i + 2].k == "life" \
                and self.peek(3) == ">":
            name = self.eat().s                 # `T<'a>`: the lifetime argument is dropped (references are values)
            self.eat("<")
            self.eat()
            self.eat(">")
            return name
        return super().ty()

    def unary(self):
        if self.peek() == "&" and self.peek(1) == "mut":
            ln = self.line()
            self.eat()
            self.eat()
            return N("un", ln, op="&", e=self.unary(), mut=True)
        return super().unary()

    def primary(self):
        t = self.tok()
        ln = t.line
        if t.s == "||":                           # closure without parameters
            self.eat()
            return N("closure", ln, params=[], body=self.expr())
        if t.s == "(" and self.i + 4 < len(self.t) and self.t[self.i + 1].k == "int" and self.peek(2) == ".." \
                and self.t[self.i + 3].k == "int" and self.peek(4) == ")":
            self.eat()
            lo = R.Parser.primary(self)
            self.eat("..")
            hi = R.Parser.primary(self)
            self.eat(")")
            return N("paren", ln, e=N("range", ln, lo=lo, hi=hi))
        return super().primary()

    def postfix(self):
        """as in stage 2, plus `TABLE[k](args)`: call of an indexed table of function pointers"""
        e = self.primary()
        while True:
            s = self.peek()
            ln = self.line()
            if s == ".":
                self.eat()
                t = self.eat()
                if t.k == "int":
                    e = N("field", ln, e=e, name=t.s)
                elif t.k == "id":
                    if self.peek() == "(":
                        saved, self.nostruct = self.nostruct, 0
                        args = self.args()
                        self.nostruct = saved
                        e = N("mcall", ln, recv=e, name=t.s, args=args)
                    elif self.peek() == "::":
                        self.err("turbofish")
                    else:
                        e = N("field", ln, e=e, name=t.s)
                else:
                    self.err(f"unexpected `{t.s}` after `.`")
            elif s == "(":
                saved, self.nostruct = self.nostruct, 0
                if e.k == "index":
                    args = self.args()
                    e = N("icall", ln, callee=e, args=args)
                elif e.k == "path":
                    args = self.args()
                    e = N("call", ln, fn=e.segs, args=args)
                else:
                    self.err("call of a non-path expression")
                self.nostruct = saved
            elif s == "[":
                self.eat()
                saved, self.nostruct = self.nostruct, 0
                ix = self.expr()
                self.nostruct = saved
                self.eat("]")
                e = N("index", ln, e=e, ix=ix)
            elif s == "?":
                self.eat()
                e = N("try", ln, e=e)
            else:
                return e

    def block(self):
        """as in stage 2, plus tuple patterns in `for`"""
        # the stage-2 parser rejects a tuple pattern after `for`; intercept that statement form and delegate the rest
        ln = self.line()
        self.eat("{")
        saved, self.nostruct = self.nostruct, 0
        stmts, tail = [], None
        while self.peek() != "}":
            s = self.peek()
            l2 = self.line()
            if s == "for" and self.peek(1) == "(":
                self.eat()
                pat = self.pattern()
                if pat[0] != "tuple" or not all(q[0] in ("bind", "wild") for q in pat[1]):
                    self.err("`for` pattern must be an identifier, `_` or a tuple of identifiers")
                self.eat("in")
                self.nostruct += 1
                it = self.expr()
                self.nostruct -= 1
                body = self.block()
                stmts.append(N("exprstmt", l2, e=N("for", l2, pat=pat, it=it, body=body)))
                continue
            # one statement through the stage-2 parser: wrap the token window `{ <stmt> }` is not possible without knowing its
            # end, so parse it here with the stage-2 rules by a single-step call
            st, tl = self.one_stmt()
            if st is not None:
                stmts.append(st)
            if tl is not None:
                tail = tl
                if self.peek() != "}":
                    self.err(f"expected `;` or `}}`, found `{self.peek()}`")
        self.eat("}")
        self.nostruct = saved
        return N("block", ln, stmts=stmts, tail=tail)

    def one_stmt(self):
        """one statement of a block, stage-2 rules (copied from `Parser2.block`); returns (stmt, tail)"""
        s = self.peek()
        l2 = self.line()
        if s == ";":
            self.eat()
            return None, None
        if s == "let":
            self.eat()
            if self.peek() in ("Some", "Ok") and self.peek(1) == "(":
                pat = self.pattern()
                self.eat("=")
                self.nostruct += 1
                init = self.expr()
                self.nostruct -= 1
                self.eat("else")
                els = self.block()
                self.eat(";")
                return N("letelse", l2, pat=pat, init=init, els=els), None
            mut = False
            if self.peek() == "mut":
                self.eat()
                mut = True
            if self.tok().k != "id":
                self.err("only `let <ident>` and `let Some(x) = .. else` patterns are supported")
            name = self.eat().s
            ann = None
            if self.peek() == ":":
                self.eat()
                ann = self.ty()
            self.eat("=")
            init = self.expr()
            self.eat(";")
            return N("let", l2, name=name, mut=mut, ann=ann, init=init), None
        if s == "const" and self.t[self.i + 1].k == "id" and self.peek(2) == ":":
            self.eat()
            name = self.eat().s
            self.eat(":")
            ann = self.ty()
            self.eat("=")
            init = self.expr()
            self.eat(";")
            return N("let", l2, name=name, mut=False, ann=ann, init=init, is_const=True), None
        if s == "return":
            self.eat()
            e = None
            if self.peek() != ";":
                e = self.expr()
            self.eat(";")
            return N("return", l2, e=e), None
        if s == "for":
            self.eat()
            pat = self.pattern()
            if pat[0] not in ("bind", "wild"):
                self.err("`for` pattern must be an identifier or `_`")
            self.eat("in")
            self.nostruct += 1
            it = self.expr()
            if self.peek() == "..":
                self.eat()
                hi = self.expr()
                it = N("range", l2, lo=it, hi=hi)
            self.nostruct -= 1
            body = self.block()
            return N("exprstmt", l2, e=N("for", l2, pat=pat, it=it, body=body)), None
        if s == "while":
            self.eat()
            if self.peek() != "let":
                self.err("`while` (other than `while let`) is outside the supported subset")
            self.eat()
            pat = self.pattern()
            self.eat("=")
            self.nostruct += 1
            scrut = self.expr()
            self.nostruct -= 1
            body = self.block()
            return N("exprstmt", l2, e=N("whilelet", l2, pat=pat, scrut=scrut, body=body)), None
        if s in ("loop", "break", "continue", "unsafe"):
            self.err(f"`{s}` is outside the supported subset")
        if s == "debug_assert" and self.peek(1) == "!":
            self.eat()
            self.eat("!")
            self.eat("(")
            c = self.expr()
            self.eat(")")
            self.eat(";")
            return N("dassert", l2, cond=c), None
        if self.tok().k == "id" and self.peek(1) == "!" and self.peek(2) in ("(", "[", "{"):
            self.err(f"macro `{s}!` is outside the supported subset")
        e = self.expr(stmt=True)
        if self.peek() in R.ASSIGN_OPS:
            op = self.eat().s
            rhs = self.expr()
            self.eat(";")
            return N("assign", l2, place=e, op=op, rhs=rhs), None
        if self.peek() == ";":
            self.eat()
            return N("exprstmt", l2, e=e), None
        if e.k in ("if", "iflet", "match", "block") and self.peek() != "}":
            return N("exprstmt", l2, e=e), None
        return None, e


# ----------------------------------------------------------------------------------------------------
# alias pass:  let a = &mut p.f;
# ----------------------------------------------------------------------------------------------------
def place_path(p):
    """(root, ok) for a field path `root.f.g`"""
    while p.k == "field":
        p = p.e
    if p.k == "path" and len(p.segs) == 1:
        return p.segs[0]
    return None


def declared_names(nodes):
    out = set()
    for s in nodes:
        for x in R.walk(s):
            if x.k == "let":
                out.add(x.name)
            elif x.k == "letelse":
                out.update(pat_vars(x.pat))
            elif x.k in ("for", "whilelet", "iflet"):
                out.update(pat_vars(x.pat))
            elif x.k == "match":
                for a in x.arms:
                    out.update(pat_vars(a.pat))
            elif x.k == "closure":
                out.update(x.params)
    return out


def alias_pass(block, fname, fn):
    for x in list(R.walk(block)):
        if x.k != "block":
            continue
        i = 0
        while i < len(x.stmts):
            s = x.stmts[i]
            if s.k == "let" and s.init.k == "un" and s.init.op == "&" and getattr(s.init, "mut", False):
                root = place_path(s.init.e)
                rest = x.stmts[i + 1:] + ([x.tail] if x.tail is not None else [])
                if s.mut or s.ann is not None or root is None or s.init.e.k != "field":
                    fail(f"{fname}:{s.line}: in fn {fn}: `let {s.name} = &mut ..`: only a plain alias of a field path of a local is supported")
                clash = declared_names(rest) & {s.name, root}
                if clash:
                    fail(f"{fname}:{s.line}: in fn {fn}: alias `{s.name}`: {sorted(clash)} re-declared while the alias is live")
                for r in rest:
                    for y in R.walk(r):
                        if y.k == "assign" and place_path(y.place) == s.name and y.place.k == "path":
                            fail(f"{fname}:{y.line}: in fn {fn}: assignment through the alias `{s.name}` as a whole")
                        if y.k == "path" and y.segs == [s.name]:
                            new = copy.deepcopy(s.init.e)
                            line = y.line
                            y.__dict__.clear()
                            y.__dict__.update(new.__dict__)
                            y.line = line
                del x.stmts[i]
                continue
            i += 1


def uses_name(nodes, name):
    for s in nodes:
        for y in R.walk(s):
            if y.k == "path" and y.segs and y.segs[0] == name and len(y.segs) == 1:
                return True
    return False


# ----------------------------------------------------------------------------------------------------
# the translator
# ----------------------------------------------------------------------------------------------------
class Fn3(Fn2):
    stage3 = True


class Emitter3(R2.Emitter2):
    # ---- collection ------------------------------------------------------------------------------
    def check_decls3(self):
        for rel, pat, what in DECLS3:
            self.load(rel)
            text = re.sub(r"//[^\n]*", "", self.src[rel])
            if len(re.findall(pat, text)) != 1:
                fail(f"{rel}: declaration `{what}` not found exactly once (a primitive mapping rests on it)")

    def collect_structs3(self):
        for rel, name, omit, need in STRUCT_DECLS3:
            toks = self.load(rel)
            derives, fields = R2.find_struct(toks, name, rel)
            out = []
            for fname, ttoks, line in fields:
                tp = Parser3(ttoks, rel, name)
                ty = tp.ty()
                if tp.i != len(tp.t):
                    fail(f"{rel}:{line}: struct {name}: field {fname}: unsupported type")
                out.append((fname, ty))
            R.STRUCTS[name] = out
            self.structs3.append((rel, name, out, derives))
            self.structs.append((rel, name, out, derives))

    def collect3(self):
        for cont in CONTAINERS3:
            rel = cont["file"]
            toks = self.load(rel)
            lo, hi = 0, len(toks)
            for header in cont["path"]:
                lo, hi = R.find_container(toks, lo, hi, header, rel)
            raws, rconsts, rstatics = R2.scan_items2(toks, lo, hi, rel)
            owner = cont["mod"] if cont["self"] is None else cont["self"]
            if cont.get("consts"):
                for name, etoks, line, attrs in rconsts:
                    if cont["only_consts"] is not None and name not in cont["only_consts"]:
                        continue
                    self.add_const3(cont, owner, name, etoks, line, rel)
                if cont["only_consts"] is not None:
                    for n in cont["only_consts"]:
                        if (owner, n) not in self.consts:
                            fail(f"{rel}: const {n} of the table not found")
            only = cont["fns"]
            skip = cont["skip"]
            found = []
            for raw in raws:
                if raw.name in skip:
                    if not skip[raw.name].startswith("translated by stage 2"):
                        self.notes.append(f"skipped {rel} {cont['ns']}::{raw.name}: {skip[raw.name]}")
                    continue
                if raw.name not in only:
                    if cont["complete"]:
                        fail(f"{rel}:{raw.line}: fn `{raw.name}` of `{' '.join(cont['path'][-1])}` is not in the table of "
                             f"translated functions (add it to the table and give it a bridge theorem, or to `skip`)")
                    continue
                if raw.generic:
                    # only lifetime parameters are accepted: `fn f<'a>(..)`
                    j = 0
                    while toks[j] is not raw.sig[0]:
                        j += 1
                    k2 = j - 1
                    gen = []
                    while toks[k2].s != "<":
                        gen.append(toks[k2])
                        k2 -= 1
                    if not all(g.k == "life" or g.s in (",", ">") for g in gen):
                        fail(f"{rel}:{raw.line}: generic fn `{raw.name}` (type parameters) not supported")
                if any(a.startswith("cfg") for a in raw.attrs):
                    fail(f"{rel}:{raw.line}: fn {raw.name} is cfg-gated")
                found.append(raw.name)
                sp = Parser3(list(raw.sig), rel, cont["self"])
                params, ret = sp.signature()
                bp = Parser3(raw.body, rel, cont["self"])
                body = bp.block()
                if bp.i != len(bp.t):
                    fail(f"{rel}:{raw.line}: fn {raw.name}: trailing tokens")
                alias_pass(body, rel, raw.name)
                lean = f"{cont['ns']}.{raw.name}"
                if cont.get("trait"):
                    lean = f"{cont['ns']}.{raw.name}_{R2.ty_suffix2(cont['trait'][1])}"
                fn = Fn3(raw, cont, params, ret, body, lean)
                self.fns.append(fn)
                self.items.append(fn)
                st = prune(cont["self"]) if cont["self"] else None
                if cont["self"] in R.NEWTYPES or cont["self"] in R.STRUCTS or cont["self"] in R.ENUMS:
                    st = cont["self"]
                has_self = bool(params) and params[0][0] == "self"
                if cont.get("trait"):
                    tname, targ = cont["trait"]
                    if raw.name != tname:
                        fail(f"{rel}:{raw.line}: unexpected fn {raw.name} in trait impl")
                    key = (st, raw.name, targ if targ in R.NEWTYPES else prune(targ))
                elif cont["self"]:
                    key = (st, raw.name)
                else:
                    key = (cont["mod"], raw.name)
                table = self.methods if has_self else (self.assoc if cont["self"] else self.free)
                if key in table:
                    fail(f"{rel}:{raw.line}: {fn.lean} is already translated by an earlier stage")
                table[key] = fn
            missing = [n for n in only if n not in found]
            if missing:
                fail(f"{rel}: `{' '.join(cont['path'][-1]) if cont['path'] else rel}`: function(s) {missing} of the table not found")
        names = [f.lean for f in self.items] + [f.lean for f in self.items2] + [f.lean for f in self.t1.fns] + \
                [c.lean for c, _ in self.t1.const_list]
        if len(set(names)) != len(names):
            dup = sorted({n for n in names if names.count(n) > 1})
            fail(f"duplicate Lean names {dup}")

    def add_const3(self, cont, owner, name, etoks, line, rel):
        eq = None
        depth = 0
        for j, t in enumerate(etoks):
            if t.s in ("<", "[", "("):
                depth += 1
            elif t.s in (">", "]", ")"):
                depth -= 1
            elif t.s == ">>":
                depth -= 2
            elif t.s == "=" and depth == 0:
                eq = j
                break
        if eq is None:
            fail(f"{rel}:{line}: const {name} without initialiser")
        tp = Parser3(etoks[:eq], rel, cont["self"])
        ty = tp.ty()
        if tp.i != len(tp.t):
            fail(f"{rel}:{line}: const {name}: unsupported type")
        ep = Parser3(etoks[eq + 1:], rel, cont["self"])
        ex = ep.expr()
        if ep.i != len(ep.t):
            fail(f"{rel}:{line}: const {name}: trailing tokens")
        if (owner, name) in self.consts:
            fail(f"{rel}:{line}: const {owner}::{name} is already translated by an earlier stage")
        c = Const2(name, f"{cont['ns']}.{name}", ty, ex, owner, rel, cont, False)
        c.line = line
        c.stage3 = True
        self.consts[(owner, name)] = c
        self.items.append(c)

    # ---- pseudo functions for Vec ------------------------------------------------------------------
    def vec_fn(self, name, elt):
        fn = Fn2.__new__(Fn2)
        fn.name, fn.lean, fn.file, fn.line = name, f"Vec.{name}", "<std>", 0
        fn.params = [("self", ("Vec", elt), "refmut")] + ([("value", elt, "val")] if name == "push" else [])
        fn.ret, fn.mutparam, fn.may_panic = "unit", "self", False
        fn.callees, fn.crefs, fn.stage2, fn.stage3 = [], [], False, False
        fn.mod, fn.self_ty, fn.cont = None, None, None
        return fn

    # ---- inference ---------------------------------------------------------------------------------
    def resolve_ty_name(self, t):
        return t

    def method_call(self, e, rt, env):
        if isinstance(rt, str) and (rt, e.name) not in self.methods and rt in DEREF and (DEREF[rt], e.name) in self.methods:
            e.recv.ty = DEREF[rt]
            rt = DEREF[rt]
        return super().method_call(e, rt, env)

    def _infer(self, e, env, exp):
        k = e.k
        if k == "icall":
            ct = prune(self.infer(e.callee, env))
            if not (isinstance(ct, tuple) and ct[0] == "fnptr"):
                self.err(e, "call of an indexed value that is not a table of function pointers")
            tys = ct[1][1]
            if len(e.args) != len(tys) - 1:
                self.err(e, "function pointer call: arity")
            for a, t in zip(e.args, tys[:-1]):
                self.infer(a, env, t)
            return tys[-1]
        if k == "closure":
            pe = prune(exp) if exp is not None else None
            if not (isinstance(pe, tuple) and pe[0] == "fnptr"):
                self.err(e, "closure outside the supported positions (`Option::map`, `(a..b).fold`, function-pointer table, `get_or_init`)")
            tys = pe[1][1]
            if len(e.params) != len(tys) - 1:
                self.err(e, "closure arity does not match the function pointer type")
            env2 = {}                       # a `const` table: the closures capture nothing
            for p, t in zip(e.params, tys[:-1]):
                if p != "_":
                    env2[p] = t
            e.ptys = list(tys[:-1])
            e.rty = tys[-1]
            body = e.body
            if body.k == "block":
                if body.stmts or body.tail is None:
                    self.err(e, "closure body must be a single expression")
                e.body = body = body.tail
            self.infer(body, env2, tys[-1])
            return pe
        if k == "call":
            segs = list(e.fn)
            if len(segs) == 1 and segs[0] in PAIR_STRUCTS and len(e.args) == 2:
                tys = prune(segs[0])[1]
                for a, t in zip(e.args, tys):
                    self.infer(a, env, t)
                e.k = "tuple"
                e.items = list(e.args)
                return segs[0]
            if segs in (["Vec", "with_capacity"], ["Vec", "new"]):
                if segs[1] == "with_capacity":
                    if len(e.args) != 1:
                        self.err(e, "Vec::with_capacity arity")
                    self.infer(e.args[0], env, "usize")
                    if self.panics_guard(e.args[0]):
                        self.err(e, "Vec::with_capacity: the capacity must be a plain constant / local")
                elif e.args:
                    self.err(e, "Vec::new arity")
                pe = prune(exp) if exp is not None else None
                elt = pe[1] if isinstance(pe, tuple) and pe[0] == "Vec" else TVar()
                e.kind2 = "prim"
                e.prim = ("#[]", [])
                return ("Vec", elt)
        if k == "mcall":
            n = e.name
            if n == "get_or_init":
                r = e.recv
                ok = (r.k == "index" and r.e.k == "field" and r.e.name == "colored_attack_map" and r.e.e.k == "path"
                      and r.e.e.segs == ["self"] and self.cur.self_ty == "Board" and r.ix.k == "path" and len(r.ix.segs) == 1
                      and len(e.args) == 1 and e.args[0].k == "closure" and not e.args[0].params)
                if not ok:
                    self.err(e, "`get_or_init` is supported only as `self.colored_attack_map[<local>].get_or_init(|| e)` in `impl Board`")
                self.infer(r.ix, env, "Color")
                body = e.args[0].body
                if body.k == "block":
                    if body.stmts or body.tail is None:
                        self.err(e, "`get_or_init` closure body must be a single expression")
                    body = body.tail
                t = self.infer(body, env, exp)
                if "compute on demand" not in " ".join(self.notes):
                    self.notes.append(f"{self.cur.lean}: `OnceCell::get_or_init(|| e)` on `Board.colored_attack_map` translated as compute on "
                                      f"demand (value = `e`); the cache state machine is Wee/Model/AttackCache.lean + Wee/Props/C10")
                e.k = "paren"
                e.e = body
                return t
            if n == "fold" and e.recv.k == "paren" and e.recv.e.k == "range":
                rg = e.recv.e
                if not (rg.lo.k == "lit" and rg.hi.k == "lit" and not rg.lo.suf and not rg.hi.suf):
                    self.err(e, "`(a..b).fold`: the bounds must be plain integer literals")
                cnt = rg.hi.v - rg.lo.v
                if not (0 <= cnt <= 64):
                    self.err(e, "`(a..b).fold`: unsupported range")
                if len(e.args) != 2 or e.args[1].k != "closure" or len(e.args[1].params) != 2 or e.args[1].params[1] != "_":
                    self.err(e, "`(a..b).fold(init, |acc, _| e)`: the closure must ignore the element")
                cl = e.args[1]
                t = self.infer(e.args[0], env, exp)
                env2 = dict(env)
                env2[cl.params[0]] = t
                body = cl.body
                if body.k == "block":
                    if body.stmts or body.tail is None:
                        self.err(e, "closure body must be a single expression")
                    cl.body = body = body.tail
                self.infer(body, env2, t)
                e.kind2 = "rangefold"
                e.count = cnt
                e.acc_ty = t
                rg.lo.ty = rg.hi.ty = "usize"
                rg.ty = "unit"
                e.recv.ty = "unit"
                cl.ty = "unit"
                return t
            if n in ("push", "clear", "iter"):
                rt = prune(self.infer(e.recv, env))
                if isinstance(rt, tuple) and rt[0] == "Vec":
                    if n == "iter":
                        if e.args:
                            self.err(e, "iter arity")
                        e.kind2 = "prim"
                        e.prim = ("{0}", [e.recv])
                        return rt
                    fn = self.vec_fn(n, rt[1])
                    e.kind2 = "fn"
                    return self.call_fn(e, fn, e.args, env, recv=e.recv)
                if n == "iter" and isinstance(rt, tuple) and rt[0] in ("slice", "array"):
                    e.kind2 = "prim"
                    e.prim = ("{0}", [e.recv])
                    return rt
                return self.method_call(e, rt, env)
        if k == "structlit" and self.resolve_self(e.name) in NEWTYPE_FIELD:
            name = self.resolve_self(e.name)
            if [f for f, _ in e.fields] != [NEWTYPE_FIELD[name]]:
                self.err(e, f"struct literal of {name}: fields")
            x = e.fields[0][1]
            self.infer(x, env, R.under(name))
            e.k = "paren"
            e.e = x
            return name
        if k == "field" and e.name not in ("0", "1"):
            rt = prune(self.infer(e.e, env))
            if rt in NEWTYPE_FIELD and e.name == NEWTYPE_FIELD[rt]:
                e.fk = "newtype"
                return R.under(rt)
            return self.infer_field_known(e, rt)
        if k == "bin" and e.op in ("+", "-", "*"):
            lt = prune(self.infer(e.l, env))
            if lt in R.STRUCTS:
                rt = prune(self.infer(e.r, env))
                fn = self.methods.get((lt, {"+": "add", "-": "sub", "*": "mul"}[e.op], rt))
                if not fn:
                    self.err(e, f"operator `{e.op}` on ({show_ty2(lt)}, {show_ty2(rt)}): no translated trait impl")
                e.kind2 = "fn"
                e.recv = e.l
                return self.call_fn(e, fn, [e.r], env, recv=e.l, typed=(e.r,))
            if lt in R.NEWTYPES:
                rt = prune(self.infer(e.r, env))
                fn = self.methods.get((lt, {"+": "add", "-": "sub", "*": "mul"}[e.op], rt))
                if not fn:
                    self.err(e, f"operator `{e.op}` on ({show_ty2(lt)}, {show_ty2(rt)}): no translated trait impl")
                e.kind2 = "fn"
                e.recv = e.l
                return self.call_fn(e, fn, [e.r], env, recv=e.l, typed=(e.r,))
            if exp is not None:
                self.unify(lt, exp, e)
            self.infer(e.r, env, lt)
            return lt
        if k == "for":
            it = e.it
            if it.k == "range":
                return super()._infer(e, env, exp)
            tt = prune(self.infer(it, env))
            if isinstance(tt, tuple) and tt[0] in ("slice", "array", "Vec"):
                e.itkind, e.item_ty = ("array" if tt[0] == "Vec" else tt[0]), tt[1]
            elif tt in R2.ITERATORS:
                nm, fuel, item = R2.ITERATORS[tt]
                nfn = self.methods.get((tt, nm))
                if not nfn:
                    self.err(e, f"iterator {tt}: `{nm}` is not translated")
                e.itkind, e.item_ty, e.iter_next, e.iter_fuel = "iter", item, nfn, fuel
                self.cur.callees.append(nfn)
            else:
                self.err(e, f"`for` over {show_ty2(tt)} is outside the supported subset")
            env2 = dict(env)
            self.bind_pat(e.pat, e.item_ty, env2, e)
            e.pat_tys = {v: env2[v] for v in pat_vars(e.pat)}
            self.infer_block(e.body, env2, "unit")
            return "unit"
        if k == "whilelet":
            sc = e.scrut
            if not (e.pat[0] == "some" and e.pat[1][0] in ("bind", "wild") and sc.k == "mcall" and not sc.args
                    and sc.recv.k == "path" and len(sc.recv.segs) == 1 and sc.recv.segs[0] in env):
                self.err(e, "`while let` is supported only as `while let Some(x) = <local>.<method>()`")
            v = sc.recv.segs[0]
            vt = prune(env[v])
            if (vt, sc.name) not in WHILE_ITERS:
                self.err(e, f"`while let Some(..) = {v}.{sc.name}()`: `{show_ty2(vt)}::{sc.name}` is not in the table of terminating iterations")
            nfn = self.methods.get((vt, sc.name))
            if not nfn or nfn.mutparam != "self" or not (isinstance(prune(nfn.ret), tuple) and prune(nfn.ret)[0] == "Option"):
                self.err(e, f"`{show_ty2(vt)}::{sc.name}` is not a translated `&mut self` method returning an Option")
            if uses_name([e.body], v):
                self.err(e, f"the body of the `while let` mentions the iterated variable `{v}`")
            self.infer(sc.recv, env)
            e.k = "for"
            e.it = sc.recv
            e.itkind, e.item_ty, e.iter_next, e.iter_fuel = "iterm", prune(nfn.ret)[1], nfn, WHILE_ITERS[(vt, sc.name)]
            e.while_var = v
            self.cur.callees.append(nfn)
            env2 = dict(env)
            self.bind_pat(e.pat[1], e.item_ty, env2, e)
            e.pat = e.pat[1]
            e.pat_tys = {x: env2[x] for x in pat_vars(e.pat)}
            self.infer_block(e.body, env2, "unit")
            return "unit"
        return super()._infer(e, env, exp)

    def panics_guard(self, e):
        return any(x.k in ("call", "mcall", "icall", "index") for x in R.walk(e))

    def infer_field_known(self, e, rt):
        """the stage-1/2 cases of a field access, with the receiver type already inferred"""
        if isinstance(rt, tuple) and rt[0] == "tuple" and e.name in ("0", "1"):
            e.fk = "fst" if e.name == "0" else "snd"
            return rt[1][int(e.name)]
        if rt in R.STRUCTS and rt != "Offset" and e.name in dict(R.STRUCTS[rt]):
            e.fk = f"{rt}.{fld(rt, e.name)}"
            return dict(R.STRUCTS[rt])[e.name]
        if rt == "Offset" and e.name in dict(R.STRUCTS[rt]):
            e.fk = f"{rt}.{e.name}"
            return dict(R.STRUCTS[rt])[e.name]
        self.err(e, f"field `.{e.name}` of {show_ty2(rt)} not supported")

    def infer_block(self, b, env, exp):
        env = dict(env)
        for idx, s in enumerate(b.stmts):
            if s.k == "let":
                t = self.infer(s.init, env, s.ann)
                if s.ann is not None:
                    t = s.ann
                env[s.name] = t
                s.vty = t
            elif s.k == "letelse":
                t = self.infer(s.init, env)
                self.infer_block(s.els, env, "unit")
                self.bind_pat(s.pat, t, env, s)
                s.vtys = {v: env[v] for v in pat_vars(s.pat)}
            elif s.k == "assign":
                v = self.place_var(s.place)
                if v not in env:
                    self.err(s, f"assignment to `{v}` which is not a local")
                s.var, s.vty = v, env[v]
                if s.op in ("<<=", ">>=", "/=", "%="):
                    self.err(s, f"`{s.op}` not supported")
                pt = self.infer(s.place, env)
                s.pty = pt
                ppt = prune(pt)
                if s.op != "=" and not (ppt in R.INT_TYPES or ppt == "bool" or isinstance(ppt, TVar)):
                    nm = {"|=": "bitor_assign", "&=": "bitand_assign", "^=": "bitxor_assign"}.get(s.op)
                    fn = self.methods.get((ppt, nm)) if nm else None
                    if not fn:
                        self.err(s, f"`{s.op}` on {show_ty2(ppt)}: no translated trait impl")
                    self.infer(s.rhs, env, fn.params[1][1])
                    s.opfn = fn
                    self.cur.callees.append(fn)
                else:
                    self.infer(s.rhs, env, pt)
            elif s.k == "exprstmt":
                s.e.env_here = dict(env)
                was_while = s.e.k == "whilelet"
                t = prune(self.infer(s.e, env))
                ok = (s.e.k in ("call", "mcall") and getattr(s.e, "mut_var", None)) or \
                    s.e.k in ("if", "iflet", "match", "for", "block")
                if not ok:
                    self.err(s, "expression statement without a supported effect")
                if s.e.k in ("if", "iflet", "match", "block"):
                    self.unify(t, "unit", s)
                if was_while:
                    v = s.e.while_var
                    rest = b.stmts[idx + 1:] + ([b.tail] if b.tail is not None else [])
                    decl = [x for x in b.stmts[:idx] if x.k == "let" and x.name == v]
                    if not decl or uses_name(rest, v):
                        self.err(s, f"`while let` over `{v}`: the variable must be declared in the same block and not be used after the loop")
            elif s.k == "dassert":
                self.infer(s.cond, env, "bool")
            elif s.k == "return":
                if s.e is not None:
                    self.infer(s.e, env, self.cur.ret)
                elif prune(self.cur.ret) != "unit":
                    self.err(s, "`return;` in a function with a result")
            else:
                self.err(s, "statement kind")
        diverges = bool(b.stmts) and b.stmts[-1].k == "return"
        if b.tail is not None:
            b.tail.env_here = dict(env)
            was_while = b.tail.k == "whilelet"
            t = self.infer(b.tail, env, exp)
            if prune(t) == "unit" and (b.tail.k in ("if", "iflet", "match", "for", "block") or getattr(b.tail, "mut_var", None)):
                if was_while:
                    v = b.tail.while_var
                    if not [x for x in b.stmts if x.k == "let" and x.name == v]:
                        self.err(b.tail, f"`while let` over `{v}`: the variable must be declared in the same block")
                b.stmts.append(N("exprstmt", b.tail.line, e=b.tail))
                b.tail = None
        elif diverges:
            t = exp if exp is not None else TVar()
        else:
            t = "unit"
        b.ty = t
        b.env_out = env
        return t

    def zonk(self, root):
        super().zonk(root)
        for e in R.walk(root):
            if hasattr(e, "pat_tys"):
                e.pat_tys = {v: prune(t) for v, t in e.pat_tys.items()}
            if hasattr(e, "acc_ty"):
                e.acc_ty = prune(e.acc_ty)

    # ---- effects -----------------------------------------------------------------------------------
    def node_panics(self, e):
        k = e.k
        if k == "icall":
            return True
        if k == "for" and getattr(e, "itkind", None) == "iterm":
            return True
        if k == "for" and contains_return(e.body):
            return True
        if k == "closure" and getattr(e, "ptys", None) is not None:
            return False
        return super().node_panics(e)

    def order3(self):
        out, state = [], {}

        def visit(it):
            if not getattr(it, "stage3", False):
                return
            if state.get(id(it)) == 2:
                return
            if state.get(id(it)) == 1:
                fail(f"recursion through {it.lean} is outside the supported subset")
            state[id(it)] = 1
            for d in list(it.callees) + list(it.crefs):
                visit(d)
            state[id(it)] = 2
            if isinstance(it, Const2):
                cur = Fn2.__new__(Fn2)
                cur.file, cur.name, cur.lean = it.file, it.name, it.lean
                self.cur = cur
                it.may_panic = self.panics(it.expr)
            else:
                self.cur = it
                it.may_panic = self.panics(it.body)
            out.append(it)

        for it in self.items:
            visit(it)
        self.items = out

    # ---- emission ----------------------------------------------------------------------------------
    def ex(self, e, out, ind):
        k = e.k
        P = self.par
        self.cur_node = e
        if k == "icall":
            if out is None:
                fail("internal: pure context")
            f = self.ex(e.callee, out, ind)
            args = [P(self.ex(a, out, ind)) for a in e.args]
            return self.bind(out, ind, e.ty, " ".join([f] + args))
        if k == "closure" and getattr(e, "ptys", None) is not None:
            ps = " ".join(f"({mangle(p) if p != '_' else '_'} : {lean_ty2(t)})" for p, t in zip(e.params, e.ptys))
            b = e.body
            while b.k == "paren":
                b = b.e
            if b.k in ("call", "mcall") and getattr(b, "kind2", None) == "fn" and b.target.may_panic and not b.target.mutparam \
                    and not any(self.panics(a) for a in b.actual):
                args = [P(self.ex(a, None, ind)) for a in b.actual]
                return f"(fun {ps} => {' '.join([b.target.lean] + args)})"
            sub = []
            x = self.ex(b, sub, "")
            if not sub:
                return f"(fun {ps} => pure {P(x)})"
            return f"(fun {ps} => do " + "; ".join(s.strip() for s in sub) + f"; pure {P(x)})"
        if k == "mcall" and getattr(e, "kind2", None) == "rangefold":
            cl = e.args[1]
            init = self.ex(e.args[0], out, ind)
            acc = mangle(cl.params[0])
            T = lean_ty2(e.acc_ty)
            items = f"(List.replicate {e.count} ())"
            if self.panics(cl.body):
                if out is None:
                    fail("internal: pure context")
                t = self.fresh()
                out.append(f"{ind}let {t} : {T} ← List.foldlM (fun ({acc} : {T}) (_ : Unit) => do")
                sub = []
                x = self.ex(cl.body, sub, ind + "    ")
                out.extend(sub)
                out.append(f"{ind}    pure {P(x)}) {P(init)} {items}")
                return t
            x = self.ex(cl.body, None, ind)
            return f"List.foldl (fun ({acc} : {T}) (_ : Unit) => {x}) {P(init)} {items}"
        return super().ex(e, out, ind)

    def assigned_in_expr(self, e, acc, local):
        if e.k == "block":
            self.assigned_vars(e, acc, local)
        elif e.k == "for":
            l2 = set(local) | set(pat_vars(e.pat))
            self.assigned_vars(e.body, acc, l2)
        else:
            super().assigned_in_expr(e, acc, local)

    def tuple_term0(self, vs):
        return self.tuple_term(vs) if vs else "()"

    def tuple_ty0(self, tys):
        return self.tuple_ty(tys) if tys else "Unit"

    def emit_for(self, e, b, out, ind, mon, result=None, early_name=None):
        early = contains_return(e.body)
        vs = []
        l0 = pat_vars(e.pat)
        self.assigned_vars(e.body, vs, l0)
        if not vs and not early:
            self.err(e, "loop without an effect on a local variable")
        tys = self.var_types(e, vs)
        m = out if mon else None
        if e.itkind == "range":
            t = prune(e.item_ty)
            if t != "i8":
                self.err(e, f"range over {t} not supported")
            lo = self.ex(e.it.lo, m, ind)
            hi = self.ex(e.it.hi, m, ind)
            items = f"(Int8.range {self.par(lo)} {self.par(hi)})"
        elif e.itkind == "slice":
            items = self.par(self.ex(e.it, m, ind))
        elif e.itkind == "array":
            items = f"(Array.toList {self.par(self.ex(e.it, m, ind))})"
        else:
            x = self.ex(e.it, m, ind)
            if m is None:
                fail("internal: pure context")
            t = self.fresh()
            out.append(f"{ind}let {t} : List {lean_ty2(e.item_ty, True)} ← iter_collect {e.iter_next.lean} {e.iter_fuel} {self.par(x)}")
            items = t
        bmon = self.panics(e.body) or early
        if bmon and not mon:
            fail("internal: pure context")
        unpack = []
        if e.pat[0] == "bind":
            xname = mangle(e.pat[1])
        elif e.pat[0] == "wild":
            xname = "_"
        else:
            xname = self.fresh()
            n = len(e.pat[1])
            for i, q in enumerate(e.pat[1]):
                if q[0] == "bind":
                    unpack.append(f"let {mangle(q[1])} : {lean_ty2(e.pat_tys[q[1]])} := {self.proj(xname, i, n)}")
        sty = self.tuple_ty0(tys)
        single = len(vs) == 1
        sname = mangle(vs[0]) if single else ("loop_state" if vs else "_")
        ind2 = ind + "    "
        if early:
            if result is None or result[0] not in ("ret", "early"):
                self.err(e, "`return` inside a loop that is itself inside a nested value block")
            ety = self.early_ty(tys)
            out.append(f"{ind}let {early_name} : {ety} ← for_early (fun ({sname} : {sty}) ({xname} : {lean_ty2(e.item_ty)}) => do")
            for u in unpack:
                out.append(ind2 + u)
            if not single:
                for i, (v, ty) in enumerate(zip(vs, tys)):
                    out.append(f"{ind2}let {mangle(v)} : {lean_ty2(ty)} := {self.proj('loop_state', i, len(vs))}")
            self.emit_block(e.body, out, ind2, True, ("early", vs))
            out[-1] = out[-1] + f") {items} {self.tuple_term0(vs)}"
            return vs, tys
        fold = "List.foldlM" if bmon else "List.foldl"
        arrow = "←" if bmon else ":="
        outname = sname if single else self.fresh()
        out.append(f"{ind}let {outname} : {sty} {arrow} {fold} (fun ({sname} : {sty}) ({xname} : {lean_ty2(e.item_ty)}) =>{' do' if bmon else ''}")
        for u in unpack:
            out.append(ind2 + u)
        if not single:
            for i, (v, ty) in enumerate(zip(vs, tys)):
                out.append(f"{ind2}let {mangle(v)} : {lean_ty2(ty)} := {self.proj('loop_state', i, len(vs))}")
        self.emit_block(e.body, out, ind2, bmon, ("vars", vs))
        out[-1] = out[-1] + f") {self.tuple_term(vs)} {items}"
        if not single:
            for i, (v, ty) in enumerate(zip(vs, tys)):
                out.append(f"{ind}let {mangle(v)} : {lean_ty2(ty)} := {self.proj(outname, i, len(vs))}")
        return vs, tys

    def emit_block_stmt(self, e, out, ind, mon):
        """`{ stmts }` as a statement: yields the outer variables it assigns"""
        if contains_return(e):
            self.err(e, "`return` / `?` inside a nested statement block")
        vs = []
        self.assigned_vars(e, vs, [])
        if not vs:
            self.err(e, "statement block without an effect on a local variable")
        tys = self.var_types(e, vs)
        bmon = self.panics(e)
        if bmon and not mon:
            fail("internal: pure context")
        single = len(vs) == 1
        name = mangle(vs[0]) if single else self.fresh()
        sty = self.tuple_ty(tys)
        if bmon:
            out.append(f"{ind}let {name} : {sty} ← (do")
        else:
            out.append(f"{ind}let {name} : {sty} := (")
        self.emit_block(e, out, ind + "    ", bmon, ("vars", vs))
        out[-1] = out[-1] + ")"
        if not single:
            for i, (v, ty) in enumerate(zip(vs, tys)):
                out.append(f"{ind}let {mangle(v)} : {lean_ty2(ty)} := {self.proj(name, i, len(vs))}")

    def emit_seq(self, b, stmts, tail, out, ind, mon, result):
        # statement kinds of stage 3a are handled here; runs of other statements are delegated to the stage-2 emitter
        for idx, s in enumerate(stmts):
            if s.k == "exprstmt" and s.e.k == "block":
                if idx:
                    self.emit_prefix(b, stmts[:idx], out, ind, mon)
                self.cur_node = s
                self.emit_block_stmt(s.e, out, ind, mon)
                self.emit_seq(b, stmts[idx + 1:], tail, out, ind, mon, result)
                return
            if s.k == "exprstmt" and s.e.k == "for" and contains_return(s.e.body):
                if idx:
                    self.emit_prefix(b, stmts[:idx], out, ind, mon)
                self.cur_node = s
                if not mon:
                    fail("internal: pure context")
                t = self.fresh()
                vs, tys = self.emit_for(s.e, b, out, ind, mon, result=result, early_name=t)
                out.append(f"{ind}match {t} with")
                rv = self.fresh()
                out.append(f"{ind}| Early.ret {rv} => do")
                rr = f"Early.ret {rv}" if result[0] == "early" else rv
                out.append(f"{ind}  pure {self.par(rr)}")
                cv = self.fresh()
                out.append(f"{ind}| Early.cont {cv if vs else '_'} => do")
                for i, (v, ty) in enumerate(zip(vs, tys)):
                    out.append(f"{ind}  let {mangle(v)} : {lean_ty2(ty)} := {self.proj(cv, i, len(vs))}")
                self.emit_seq(b, stmts[idx + 1:], tail, out, ind + "  ", mon, result)
                return
        super().emit_seq(b, stmts, tail, out, ind, mon, result)

    def emit_prefix(self, b, stmts, out, ind, mon):
        """emit statements that precede a stage-3a statement (none of them may leave the function)"""
        for s in stmts:
            if s.k in ("return", "letelse") or (s.k == "let" and s.init.k == "try") or \
                    (s.k == "exprstmt" and s.e.k in ("if", "iflet", "match") and contains_return(s.e)) or \
                    (s.k == "let" and s.init.k == "block"):
                self.err(s, "early exit / block initialiser before a nested statement block or a loop with `return` "
                            "(outside the supported subset of stage 3a)")
        sentinel = "\0PREFIX-END"
        lines = []
        R2.Emitter2.emit_seq(self, b, list(stmts), None, lines, ind, mon, ("vars", [sentinel]))
        if not lines or sentinel not in lines[-1]:
            fail("internal: prefix emission")
        out.extend(lines[:-1])

    # ---- items -------------------------------------------------------------------------------------
    def emit_fn(self, fn):
        for e in R.walk(fn.body):
            if e.k == "for":
                for nm in pat_vars(e.pat):
                    if re.fullmatch(r"tmp\d+_?|loop_state", nm):
                        fail(f"{fn.file}: identifier {nm} clashes with generated temporaries")
        return super().emit_fn(fn)

    def run3(self):
        self.run2()                               # stage 2 in this process (registry, panic analysis); its text is discarded
        install3()
        self.items2 = self.items
        for it in self.items2:
            it.stage3 = False
        self.items = []
        self.structs3 = []
        self.notes = []
        self.check_decls3()
        self.collect_structs3()
        self.collect3()
        self.infer_all2()
        self.order3()
        self.check_shifts()
        files = sorted({c["file"] for c in CONTAINERS3} | {d[0] for d in STRUCT_DECLS3})
        out = ["-- GENERATED by tools/rs2lean3.py from " + ", ".join(files) + "; do not edit.",
               "import Wee.Gen.CoreFns",
               "import Wee.Model.MoveGen",
               "/-!",
               "# Lean definitions translated from the Rust source text, stage 3a (attack maps, check, move generation)",
               "",
               "Every `def`/`structure` below the prelude is produced from the text of one Rust item; the prelude is the fixed,",
               "trusted vocabulary.  `Wee/Proofs/GenMovesBridge.lean` proves these functions equal to the hand-written model",
               "(`Wee/Model/Board.lean`, `MoveGen.lean`).  Functions of stages 1 and 2 (`Wee/Gen/MoveFns.lean`, `CoreFns.lean`) are used by name.",
               "-/",
               "set_option linter.unusedVariables false",
               "namespace Wee.GenFns",
               "open Wee",
               PRELUDE3.strip("\n"),
               "",
               "/-! ## Translated struct declarations -/",
               ""]
        for rel, name, fields, derives in self.structs3:
            out.append(self.emit_struct(rel, name, fields, derives))
            out.append("")
        out.append("/-! ## Translated items -/")
        out.append("")
        for it in self.items:
            out.append(self.emit_const(it) if isinstance(it, Const2) else self.emit_fn(it))
            out.append("")
        out.append("/-! ## Side conditions checked by the translator")
        for n in self.notes:
            out.append(f"* {n}")
        out.append("-/")
        out.append("end Wee.GenFns")
        return "\n".join(out) + "\n"


def main():
    ap = argparse.ArgumentParser()
    ap.add_argument("--repo", default=os.environ.get("WEE_REPO", "/repo"))
    ap.add_argument("--out", default=DEFAULT_OUT)
    ap.add_argument("--check", action="store_true", help="do not write; exit 1 if the file would change")
    a = ap.parse_args()
    try:
        t1 = R.Translator(a.repo)
        t1.run()                                   # stage 1, unchanged (its output is not written here)
        R2.install()
        text = Emitter3(a.repo, t1).run3()
    except TieBroken as ex:
        print(f"TIE-BROKEN rs2lean3: {ex}")
        sys.exit(2)
    old = None
    if os.path.exists(a.out):
        with open(a.out) as f:
            old = f.read()
    changed = old != text
    if a.check:
        print('{"changed": %s}' % ("true" if changed else "false"))
        sys.exit(1 if changed else 0)
    if changed:
        os.makedirs(os.path.dirname(a.out), exist_ok=True)
        with open(a.out, "w") as f:
            f.write(text)
    print('{"changed": [%s]}' % ('"GenMoves.lean"' if changed else ""))


if __name__ == "__main__":
    main()
