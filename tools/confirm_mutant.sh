#!/bin/bash
# confirm a seeded change in its scratch worktree: (1) with the patch the 43 tests pass and the
# demonstration fails, (2) without the patch the demonstration passes.
# usage: confirm_mutant.sh <worktree> <outdir>
set -u
W=$1; O=$2
export CARGO_NET_OFFLINE=true
cd "$W" || exit 2
git checkout -q -- . 2>/dev/null; git clean -fdq -e target 2>/dev/null
git apply "$O/patch.diff" || { echo "CONFIRM patch does not apply"; exit 2; }
T=$(cargo test --workspace --no-fail-fast --offline 2>&1 | grep -E "^test result" | awk '{p+=$4; f+=$6} END {print p" passed "f" failed"}')
echo "CONFIRM tests-with-patch: $T"
bash "$O/demo.sh" >/tmp/demo_with.log 2>&1; A=$?
echo "CONFIRM demo-with-patch exit=$A"
git checkout -q -- . ; git clean -fdq -e target 2>/dev/null
bash "$O/demo.sh" >/tmp/demo_without.log 2>&1; B=$?
echo "CONFIRM demo-without-patch exit=$B"
git checkout -q -- . ; git clean -fdq -e target 2>/dev/null
if [ "$T" = "43 passed 0 failed" ] && [ $A -ne 0 ] && [ $B -eq 0 ]; then echo "CONFIRM OK"; else echo "CONFIRM FAILED"; fi
