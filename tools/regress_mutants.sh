#!/bin/bash
# every kept seeded change against the quick check of its own property: one line per change
# usage: regress_mutants.sh [pattern]     (patches /repo; run nothing else meanwhile)
cd /verif
for d in seeded/C*${1:-}*; do
  id=$(basename $d); p=${id%%-*}
  git -C /repo apply --check /verif/$d/patch.diff 2>/dev/null || { echo "$id: patch does not apply"; continue; }
  out=$(bash tools/try_mutant.sh /verif/$d/patch.diff quick $p 2>&1 | grep -E "VIOLATION|^\[$p\]" | tr '\n' ' ' | cut -c1-260)
  case "$out" in
    *no-failing-input-found*) echo "$id: TIE-BROKEN  $out";;
    *VIOLATION*) echo "$id: CAUGHT      $out";;
    *) echo "$id: MISSED      $out";;
  esac
done
