#!/usr/bin/env python3
"""rs2lean_seams.py -- stage 5 of tie (a): the last hand-stated SEAM of the UCI loop, `State::by_performing_moves`
(weechess-core/src/state.rs) together with `MoveSet::filter` (weechess-core/src/moves.rs).

Re-reads the Rust source text and translates the two functions into `lean/Wee/Gen/SeamFns.lean` (namespace `Wee.GenFns`):
`MoveSet.filter`, `State.by_performing_moves.body` (one pass of `for mv in moves`), `State.by_performing_moves`, and the
value `seamEnv : UciSeams` whose field `by_performing_moves` IS the translated function.  `Wee/Proofs/SeamFnsBridge.lean`
proves the translated resolver equal to the model's `performQueries` (`State.by_performing_moves_eq`) and discharges the seam
hypothesis of stage 4c (`Client.exec_refines_resolved`).

The earlier stages are imported as modules and are not edited (lexer of `rs2lean_uci`, item finder of `rs2lean` /
`rs2lean_text`); this tool has its own small parser and typed emitter for exactly the subset below.

TRUSTED PART 1 -- semantics chosen by this tool
  * translated code lives in `Panics` (= `Option`, `none` = panic).  `Result<State, MovePerformError>` of THIS function is the
    VALUE `Except MovePerformError State` (the enum is stage 4c's, checked textually there and here).
  * a callee of stage 2 / 3a whose Rust type is `Result<T, MovePerformError>` was translated with the payload dropped
    (`Panics (Option T)`); `e?` on it is `match e with | some x => .. | none => return Err(<V>)` where `<V>` is THE variant the callee
    can return -- checked textually: every `MovePerformError::X` inside the callee's text must be the same `X`.
  * `x.clone()`, `&x`, `*x` are the identity on values; `m.0` is the first component.
  * `for x in xs { .. }` over a slice: `SeamFor` (structural recursion on the list), the loop variables are the outer `mut`
    variables the body assigns; a pass ends with `SeamCtl.next <vars>` or, on `return e` / a failing `?`, `SeamCtl.ret e`,
    which ends the loop and the function.
  * `it.collect()` into a `Vec` = `SeamIter.collect` (the items of the lazy iterator in order; a panicking pull is a panic);
    `self.0.iter().filter(move |m| c)` = stage 4b's `Iter.filter` over `Iter.ofList`; `v[..]` / `v.as_slice()` = the list.
  * `match <slice> { [] => .., [x] => .., [x, ..] => .., _ => .. }`: ONE Lean `match` on the list with the arms in SOURCE order
    (first match wins in both languages; `[x, ..]` is `x :: _`; there must be a `_` arm, or `[]` together with `[x, ..]`).  A `match` must be the LAST statement of its block.
TRUSTED PART 2 -- the tables `PRELUDE`, `EXTERNS` (Rust signature + head line of the committed generated definition), `TEXT_CHECKS`.

Anything outside the subset: `TIE-BROKEN rs2lean_seams: <reason>`, exit 2.
Usage: rs2lean_seams.py [--repo DIR] [--out FILE] [--check]
"""
import argparse
import os
import re
import sys

sys.path.insert(0, os.path.dirname(os.path.abspath(__file__)))
import rs2lean as R             # noqa: E402
import rs2lean_text as T        # noqa: E402
import rs2lean_uci as U         # noqa: E402
from rs2lean import TieBroken, match_close, find_container   # noqa: E402

TAG = "rs2lean_seams"
VERIF = os.path.dirname(os.path.dirname(os.path.abspath(__file__)))
DEFAULT_OUT = os.path.join(VERIF, "lean", "Wee", "Gen", "SeamFns.lean")
STATE = "weechess-core/src/state.rs"
MOVES = "weechess-core/src/moves.rs"
MOVEGEN = "weechess-core/src/movegen.rs"
NOTATION = "weechess-core/src/notation.rs"


def fail(msg):
    raise TieBroken(msg)


TEXT_CHECKS = [
    (STATE, r"pub enum MovePerformError \{\s*AmbiguousMove,\s*IllegalEnPassant,\s*UnknownMove,\s*\}", "enum MovePerformError"),
    (MOVES, r"pub struct MoveSet\(Vec<MoveResult>\);", "struct MoveSet is a vector of results"),
    (MOVES, r"pub struct MoveResult\(pub Move, pub State\);", "struct MoveResult = (Move, State)"),
]

# callees translated by earlier stages
EXTERNS = {
    "MoveGenerator::compute_legal_moves": dict(
        rust=(MOVEGEN, r"pub fn compute_legal_moves\(state: &State\) -> MoveSet \{"),
        head=("GenMoves.lean", "def MoveGenerator.compute_legal_moves (state : State) : Panics MoveSet := do"),
        lean="MoveGenerator.compute_legal_moves", args=["State"], ret="MoveSet", monadic=True),
    "State::by_performing_move": dict(
        rust=(STATE, r"pub fn by_performing_move\(state: &Self, mv: &Move\) -> Result<State, MovePerformError> \{"),
        head=("CoreFns.lean", "def State.by_performing_move (state : State) (mv : Move) : Panics (Option State) := do"),
        lean="State.by_performing_move", args=["State", "Move"], ret="ResultD State", monadic=True),
    "MoveQuery::test": dict(
        rust=(MOVES, r"pub fn test\(&self, m: &Move\) -> bool \{"),
        head=("TextFns.lean", "def MoveQuery.test (self : MoveQuery) (m : Move) : TRes Bool := do"),
        lean="MoveQuery.test", args=["MoveQuery", "Move"], ret="Bool", monadic=True),
}

PRELUDE = r"""
/-! ## Prelude: the trusted vocabulary of stage 5 -/

/-- how one pass of a `for` loop ends: fall through with the loop variables, or `return` from the function -/
inductive SeamCtl (ρ σ : Type) where
  | next (v : σ)
  | ret (r : ρ)

/-- `for x in xs { body }` over a slice; `ret` ends the loop -/
def SeamFor {α ρ σ : Type} : List α → σ → (α → σ → Panics (SeamCtl ρ σ)) → Panics (SeamCtl ρ σ)
  | [], s, _ => some (.next s)
  | a :: r, s, f =>
    match f a s with
    | none => none
    | some (.ret x) => some (.ret x)
    | some (.next s') => SeamFor r s' f

/-- `Iterator::collect::<Vec<_>>()` -/
def SeamIter.collect {α : Type} : Iter α → Panics (List α)
  | .nil => some []
  | .panic => none
  | .cons a r =>
    match SeamIter.collect r with
    | some l => some (a :: l)
    | none => none
"""


# ----------------------------------------------------------------------------------------------------------------------
# parser (own; exactly the statement / expression forms of the subset)
# ----------------------------------------------------------------------------------------------------------------------
class P:
    def __init__(self, toks, fname):
        self.t, self.i, self.f = toks, 0, fname

    def peek(self, k=0):
        return self.t[self.i + k].s if self.i + k < len(self.t) else None

    def line(self):
        return self.t[min(self.i, len(self.t) - 1)].line

    def bad(self, what):
        fail(f"{self.f}:{self.line()}: {what}")

    def eat(self, s):
        if self.peek() != s:
            self.bad(f"expected `{s}`, found `{self.peek()}`")
        self.i += 1

    def ident(self):
        t = self.t[self.i]
        if t.k != "id" or t.s in ("let", "mut", "for", "in", "match", "return", "if", "else", "while", "loop", "unsafe", "move",
                                  "static", "const", "fn", "struct", "impl", "use", "break", "continue", "as", "ref", "dyn"):
            self.bad(f"identifier expected, found `{t.s}`")
        self.i += 1
        return t.s

    def block(self):
        self.eat("{")
        stmts = []
        while self.peek() != "}":
            stmts.append(self.stmt())
        self.eat("}")
        return stmts

    def ty(self):
        """a type, kept as normalised text"""
        out, depth = [], 0
        while True:
            s = self.peek()
            if s is None:
                self.bad("unterminated type")
            if depth == 0 and s in ("=", ";", ",", ")", "{"):
                break
            if s == "<":
                depth += 1
            if s == ">":
                depth -= 1
            if s == ">>":
                depth -= 2
            out.append(s)
            self.i += 1
        return " ".join(out)

    def stmt(self):
        ln = self.line()
        s = self.peek()
        if s == "let":
            self.i += 1
            mut = False
            if self.peek() == "mut":
                mut = True
                self.i += 1
            name = self.ident()
            ty = None
            if self.peek() == ":":
                self.i += 1
                ty = self.ty()
            self.eat("=")
            e = self.expr()
            self.eat(";")
            return ("let", name, mut, ty, e, ln)
        if s == "return":
            self.i += 1
            e = self.expr()
            if self.peek() == ";":
                self.i += 1
            return ("return", e, ln)
        if s == "for":
            self.i += 1
            x = self.ident()
            self.eat("in")
            it = self.expr(nostruct=True)
            body = self.block()
            return ("for", x, it, body, ln)
        if s == "match":
            m = self.match_()
            if self.peek() == ";":
                self.i += 1
            return m
        if s in ("if", "while", "loop", "unsafe", "static", "const", "fn", "struct", "impl", "use", "break", "continue"):
            self.bad(f"`{s}` is outside the subset of stage 5")
        if self.t[self.i].k == "id" and self.peek(1) == "!":
            self.bad(f"macro `{s}!` is outside the subset of stage 5")
        if self.t[self.i].k == "id" and self.peek(1) == "=":
            name = self.ident()
            self.eat("=")
            e = self.expr()
            self.eat(";")
            return ("assign", name, e, ln)
        e = self.expr()
        if self.peek() == ";":
            self.bad("an expression statement whose value is dropped is outside the subset")
        if self.peek() != "}":
            self.bad(f"unexpected `{self.peek()}` after an expression")
        return ("tail", e, ln)

    def match_(self):
        ln = self.line()
        self.eat("match")
        scrut = self.expr(nostruct=True)
        self.eat("{")
        arms = []
        while self.peek() != "}":
            pat = self.pattern()
            self.eat("=>")
            if self.peek() == "{":
                body = self.block()
                if self.peek() == ",":
                    self.i += 1
            else:
                aln = self.line()
                if self.peek() == "return":
                    self.i += 1
                    body = [("return", self.expr(), aln)]
                else:
                    body = [("tail", self.expr(), aln)]
                if self.peek() != "}":
                    self.eat(",")
            arms.append((pat, body))
        self.eat("}")
        return ("match", scrut, arms, ln)

    def pattern(self):
        if self.peek() == "_":
            self.i += 1
            return ("wild",)
        if self.peek() == "[":
            self.i += 1
            if self.peek() == "]":
                self.i += 1
                return ("nil",)
            if self.peek() == "&":
                self.bad("reference pattern in a slice pattern is outside the subset")
            x = self.ident()
            if self.peek() == "]":
                self.i += 1
                return ("one", x)
            self.eat(",")
            self.eat("..")
            self.eat("]")
            return ("cons", x)
        self.bad(f"pattern starting with `{self.peek()}` is outside the subset (slice patterns `[]`, `[x]`, `[x, ..]`, `_`)")

    def expr(self, nostruct=False):
        s = self.peek()
        if s == "&":
            self.i += 1
            if self.peek() == "mut":
                self.bad("`&mut` is outside the subset")
            return ("ref", self.expr(nostruct))
        if s == "*":
            self.i += 1
            return ("deref", self.expr(nostruct))
        if s == "move" or s == "|":
            return self.closure()
        e = self.primary()
        while True:
            s = self.peek()
            if s == "?":
                self.i += 1
                e = ("try", e, self.line())
            elif s == ".":
                self.i += 1
                t = self.t[self.i]
                if t.k == "int":
                    self.i += 1
                    e = ("field", e, t.s)
                else:
                    m = self.ident()
                    if self.peek() == "::":
                        self.bad("turbofish is outside the subset")
                    self.eat("(")
                    args = self.args()
                    e = ("method", e, m, args, t.line)
            elif s == "[":
                self.i += 1
                self.eat("..")
                self.eat("]")
                e = ("fullslice", e)
            else:
                return e

    def args(self):
        out = []
        while self.peek() != ")":
            out.append(self.expr())
            if self.peek() != ")":
                self.eat(",")
        self.eat(")")
        return out

    def closure(self):
        ln = self.line()
        if self.peek() == "move":
            self.i += 1
        self.eat("|")
        x = self.ident()
        self.eat("|")
        return ("closure", x, self.expr(), ln)

    def primary(self):
        ln = self.line()
        if self.peek() == "(":
            self.i += 1
            e = self.expr()
            self.eat(")")
            return e
        segs = [self.ident()]
        while self.peek() == "::":
            self.i += 1
            if self.peek() == "<":
                self.bad("turbofish is outside the subset")
            segs.append(self.ident())
        if self.peek() == "!":
            self.bad(f"macro `{segs[-1]}!` is outside the subset of stage 5")
        if self.peek() == "(":
            self.i += 1
            return ("call", segs, self.args(), ln)
        if len(segs) == 1:
            return ("var", segs[0], ln)
        return ("path", segs, ln)


# ----------------------------------------------------------------------------------------------------------------------
# emitter
# ----------------------------------------------------------------------------------------------------------------------
LEAN_TY = {"State": "State", "MoveSet": "MoveSet", "MoveQuery": "MoveQuery", "Move": "Move", "MoveResult": "MoveResult",
           "Bool": "Bool"}


def lty(t):
    if t.startswith("List "):
        return f"List {lty(t[5:])}"
    if t.startswith("Iter "):
        return f"Iter {lty(t[5:])}"
    if t.startswith("Result "):
        return f"Except MovePerformError {lty(t[7:])}"
    if t not in LEAN_TY:
        fail(f"internal: no Lean type for `{t}`")
    return LEAN_TY[t]


class Em:
    """emits one function body in A-normal form, continuation-passing over statements"""

    def __init__(self, fname, self_ty, err_of):
        self.f = fname
        self.self_ty = self_ty
        self.err_of = err_of          # callee -> the one error variant it returns
        self.n = 0
        self.used = set()
        self.aux = []                  # auxiliary definitions (loop bodies)

    def bad(self, ln, what):
        fail(f"{self.f}:{ln}: {what}")

    def fresh(self):
        self.n += 1
        return f"t_{self.n}"

    # --- expressions: returns (atom, type); appends `let` lines to `out` -----------------------------------------
    def ex(self, e, env, out, ind, ctx, want=None):
        k = e[0]
        if k in ("ref", "deref"):
            return self.ex(e[1], env, out, ind, ctx, want)
        if k == "var":
            if e[1] not in env:
                self.bad(e[2], f"unknown variable `{e[1]}`")
            return env[e[1]]
        if k == "field":
            a, t = self.ex(e[1], env, out, ind, ctx)
            if t == "MoveResult" and e[2] == "0":
                return (f"{a}.1", "Move")
            if t == "MoveResult" and e[2] == "1":
                return (f"{a}.2", "State")
            if t == "MoveSet" and e[2] == "0":
                return (a, "VecMoveResult")
            self.bad(0, f"field `.{e[2]}` of a `{t}` is outside the subset")
        if k == "fullslice":
            a, t = self.ex(e[1], env, out, ind, ctx)
            if not t.startswith("List "):
                self.bad(0, f"`[..]` on a `{t}`")
            return (a, t)
        if k == "call":
            segs, args, ln = e[1], e[2], e[3]
            name = "::".join(segs)
            if name == "Err" and len(args) == 1 and args[0][0] == "path" and args[0][1][0] == "MovePerformError" and len(args[0][1]) == 2:
                v = args[0][1][1]
                if v not in ("AmbiguousMove", "IllegalEnPassant", "UnknownMove"):
                    self.bad(ln, f"`MovePerformError::{v}` is not a variant")
                return (f"(Except.error MovePerformError.{v})", "Result State")
            if name == "Ok" and len(args) == 1:
                a, t = self.ex(args[0], env, out, ind, ctx)
                return (f"(Except.ok {a})", f"Result {t}")
            if name.startswith("Self::"):
                name = self.self_ty + name[4:]
            if name in EXTERNS:
                ent = EXTERNS[name]
                self.used.add(name)
                if len(args) != len(ent["args"]):
                    self.bad(ln, f"`{name}`: {len(args)} arguments")
                atoms = []
                for a, want_t in zip(args, ent["args"]):
                    x, t = self.ex(a, env, out, ind, ctx)
                    if t != want_t:
                        self.bad(ln, f"`{name}`: argument of type `{t}`, expected `{want_t}`")
                    atoms.append(x)
                v = self.fresh()
                out.append(f"{ind}let {v} ← {ent['lean']} {' '.join(atoms)}")
                if ent["ret"].startswith("ResultD "):
                    return (v, "ResultD " + ent["ret"][8:] + " @" + name)
                return (v, ent["ret"])
            self.bad(ln, f"call of `{name}` is outside the subset")
        if k == "method":
            recv, m, args, ln = e[1], e[2], e[3], e[4]
            a, t = self.ex(recv, env, out, ind, ctx)
            if m == "clone" and not args:
                return (a, t)
            if m == "as_slice" and not args and t.startswith("List "):
                return (a, t)
            if m == "filter" and t == "MoveSet" and len(args) == 1 and "MoveSet::filter" in ctx["local"]:
                q, qt = self.ex(args[0], env, out, ind, ctx)
                if qt != "MoveQuery":
                    self.bad(ln, f"`filter` with a `{qt}`")
                ctx["calls"].add("MoveSet::filter")
                return (f"(MoveSet.filter {a} {q})", "Iter MoveResult")
            if m == "collect" and not args and t.startswith("Iter "):
                if want is None or re.sub(r"\s", "", want) not in ("Vec<&MoveResult>", "Vec<_>", "Vec<&_>"):
                    self.bad(ln, f"`collect()` needs a `let` with the type `Vec<&MoveResult>` (found `{want}`)")
                v = self.fresh()
                out.append(f"{ind}let {v} ← SeamIter.collect {a}")
                return (v, "List " + t[5:])
            if m == "iter" and not args and t == "VecMoveResult":
                return (f"(Iter.ofList (Array.toList {a}))", "Iter MoveResult")
            if m == "filter" and t.startswith("Iter ") and len(args) == 1 and args[0][0] == "closure":
                _, x, body, cln = args[0]
                env2 = dict(env)
                env2[x] = (x, t[5:])
                lines = []
                b, bt = self.ex(body, env2, lines, ind + "    ", ctx)
                if bt != "Bool":
                    self.bad(cln, f"`filter` closure of type `{bt}`")
                lam = f"(fun {x} => do\n" + "\n".join(lines) + ("\n" if lines else "") + f"{ind}    pure ({b}))"
                return (f"(Iter.filter {lam} {a})", t)
            if m == "test" and t == "MoveQuery" and len(args) == 1:
                self.used.add("MoveQuery::test")
                x, xt = self.ex(args[0], env, out, ind, ctx)
                if xt != "Move":
                    self.bad(ln, f"`test` on a `{xt}`")
                v = self.fresh()
                out.append(f"{ind}let {v} ← TRes.toPanics (MoveQuery.test {a} {x})")
                return (v, "Bool")
            self.bad(ln, f"method `.{m}(..)` on a `{t}` is outside the subset")
        if k == "try":
            self.bad(e[2], "`?` is only supported directly under `let x = ..?;` / `x = ..?;`")
        if k == "closure":
            self.bad(e[3], "closure outside `.filter(..)`")
        if k == "path":
            self.bad(e[2], f"path `{'::'.join(e[1])}` is outside the subset")
        fail(f"internal: expression kind {k}")

    # --- statements ----------------------------------------------------------------------------------------------
    def finish(self, atom, t, mode, ind, ln):
        """`return atom` / the value of the function body"""
        if t != "Result State":
            self.bad(ln, f"the function returns a `{t}`, expected `Result<State, MovePerformError>`")
        if mode["kind"] == "fn":
            return [f"{ind}pure {atom}"]
        return [f"{ind}pure (SeamCtl.ret {atom})"]

    def bind_value(self, e, env, out, ind, ctx, mode, want, k):
        """evaluate `e` (possibly `e'?`), then continue with `k(atom, type)` -> lines"""
        if e[0] == "try":
            a, t = self.ex(e[1], env, out, ind, ctx)
            if not t.startswith("ResultD "):
                self.bad(e[2], f"`?` on a `{t}`")
            inner, callee = t[8:].split(" @")
            v = self.fresh()
            err = self.err_of[callee]
            out.append(f"{ind}match {a} with")
            out.append(f"{ind}| Option.none => (do")
            out.extend(self.finish(f"(Except.error MovePerformError.{err})", "Result State", mode, ind + "    ", e[2]))
            out[-1] += ")"
            out.append(f"{ind}| Option.some {v} => (do")
            rest = k(v, inner, ind + "    ")
            rest[-1] += ")"
            out.extend(rest)
            return out
        a, t = self.ex(e, env, out, ind, ctx, want)
        if t.startswith("ResultD "):
            self.bad(0, "a `Result` of an earlier stage must be consumed by `?`")
        out.extend(k(a, t, ind))
        return out

    def stmts(self, ss, env, muts, ind, ctx, mode):
        """lines for the statement list `ss` ending the current block"""
        if not ss:
            if mode["kind"] == "loop":
                vs = mode["vars"]
                tup = vs[0] if len(vs) == 1 else "(" + ", ".join(vs) + ")"
                for v in vs:
                    if env[v][0] != v:
                        fail("internal: loop variable renamed")
                return [f"{ind}pure (SeamCtl.next {tup})"]
            fail(f"{self.f}: a block of the function ends without a value")
        s, rest = ss[0], ss[1:]
        k = s[0]
        out = []
        if k == "let":
            _, name, mut, ty, e, ln = s

            def cont(a, t, ind2):
                env2 = dict(env)
                muts2 = set(muts)
                lines = []
                if mut:
                    muts2.add(name)
                if mut or a.startswith("("):
                    lines.append(f"{ind2}let {name} : {lty(t)} := {a}")
                    env2[name] = (name, t)
                else:
                    env2[name] = (a, t)
                return lines + self.stmts(rest, env2, muts2, ind2, ctx, mode)
            return self.bind_value(e, env, out, ind, ctx, mode, ty, cont)
        if k == "assign":
            _, name, e, ln = s
            if name not in muts:
                self.bad(ln, f"assignment to `{name}`, which is not a `let mut` variable")
            if mode["kind"] == "loop" and name not in mode["vars"]:
                fail("internal: assigned variable not a loop variable")

            def cont(a, t, ind2):
                if t != env[name][1]:
                    self.bad(ln, f"assignment of a `{t}` to `{name}`")
                env2 = dict(env)
                env2[name] = (name, t)
                return [f"{ind2}let {name} : {lty(t)} := {a}"] + self.stmts(rest, env2, muts, ind2, ctx, mode)
            return self.bind_value(e, env, out, ind, ctx, mode, None, cont)
        if k == "return":
            if rest:
                self.bad(s[2], "statements after `return`")
            a, t = self.ex(s[1], env, out, ind, ctx)
            return out + self.finish(a, t, mode, ind, s[2])
        if k == "tail":
            if rest:
                fail("internal: tail not last")
            if mode["kind"] == "loop":
                self.bad(s[2], "a value at the end of a loop body is outside the subset")
            a, t = self.ex(s[1], env, out, ind, ctx)
            return out + self.finish(a, t, mode, ind, s[2])
        if k == "match":
            _, scrut, arms, ln = s
            if rest:
                self.bad(ln, "a `match` must be the last statement of its block (subset of stage 5)")
            a, t = self.ex(scrut, env, out, ind, ctx)
            if not t.startswith("List "):
                self.bad(ln, f"`match` on a `{t}` (only slices)")
            out.append(f"{ind}match {a} with")
            seen_wild = False
            for pat, body in arms:
                if seen_wild:
                    self.bad(ln, "arm after `_`")
                env2 = dict(env)
                if pat[0] == "wild":
                    lp = "_"
                    seen_wild = True
                elif pat[0] == "nil":
                    lp = "[]"
                elif pat[0] == "one":
                    lp = f"[{pat[1]}]"
                    env2[pat[1]] = (pat[1], t[5:])
                else:
                    lp = f"{pat[1]} :: _"
                    env2[pat[1]] = (pat[1], t[5:])
                out.append(f"{ind}| {lp} => (do")
                lines = self.stmts(body, env2, muts, ind + "    ", ctx, mode)
                lines[-1] += ")"
                out.extend(lines)
            kinds = {pat[0] for pat, _ in arms}
            if not seen_wild and not {"nil", "cons"} <= kinds:
                self.bad(ln, "slice `match` that is not visibly exhaustive (`_` arm, or `[]` together with `[x, ..]`)")
            return out
        if k == "for":
            _, x, it, body, ln = s
            if mode["kind"] != "fn":
                self.bad(ln, "nested `for` is outside the subset")
            a, t = self.ex(it, env, out, ind, ctx)
            if not t.startswith("List "):
                self.bad(ln, f"`for` over a `{t}`")
            vs = sorted(assigned(body) & muts)
            for v in assigned(body):
                if v not in muts and v not in declared(body):
                    self.bad(ln, f"loop body assigns `{v}`, not a `let mut` variable")
            if not vs:
                self.bad(ln, "loop without loop variables")
            env2 = {v: (v, env[v][1]) for v in vs}
            for v in env:
                if v not in env2 and v in free_vars(body) and v != x:
                    self.bad(ln, f"loop body reads the outer variable `{v}` which it does not assign (subset: loop variables only)")
            env2[x] = (x, t[5:])
            sig = " ".join(f"({v} : {lty(env[v][1])})" for v in vs)
            sty = lty(env[vs[0]][1]) if len(vs) == 1 else " × ".join(lty(env[v][1]) for v in vs)
            bname = f"{ctx['name']}.body"
            blines = self.stmts(body, env2, set(vs), "  ", ctx, {"kind": "loop", "vars": vs})
            self.aux.append(f"/-- one pass of `for {x} in ..` ({self.f}:{ln}) -/\n"
                            f"def {bname} {sig} ({x} : {lty(t[5:])}) : Panics (SeamCtl (Except MovePerformError State) ({sty})) := do\n"
                            + "\n".join(blines) + "\n")
            tup = vs[0] if len(vs) == 1 else "(" + ", ".join(vs) + ")"
            r = self.fresh()
            out.append(f"{ind}let {r} ← SeamFor {a} {' '.join(env[v][0] for v in vs) if len(vs) == 1 else '(' + ', '.join(env[v][0] for v in vs) + ')'} "
                       f"(fun {x} {tup} => {bname} {' '.join(vs)} {x})")
            out.append(f"{ind}match {r} with")
            out.append(f"{ind}| SeamCtl.ret r => pure r")
            out.append(f"{ind}| SeamCtl.next {tup} => (do")
            env3 = dict(env)
            for v in vs:
                env3[v] = (v, env[v][1])
            lines = self.stmts(rest, env3, muts, ind + "    ", ctx, mode)
            lines[-1] += ")"
            return out + lines
        fail(f"internal: statement kind {k}")


def walk(ss):
    for s in ss:
        yield s
        if s[0] == "for":
            yield from walk(s[3])
        if s[0] == "match":
            for _, b in s[2]:
                yield from walk(b)


def assigned(ss):
    return {s[1] for s in walk(ss) if s[0] == "assign"}


def declared(ss):
    return {s[1] for s in walk(ss) if s[0] == "let"}


def free_vars(ss):
    out = set()

    def ev(e):
        if isinstance(e, tuple):
            if e and e[0] == "var":
                out.add(e[1])
            for x in e:
                ev(x)
        elif isinstance(e, list):
            for x in e:
                ev(x)
    for s in walk(ss):
        ev(s)
    return out - declared(ss)


# ----------------------------------------------------------------------------------------------------------------------
class Seams:
    def __init__(self, repo):
        self.repo = repo
        self.files = {}

    def load(self, rel):
        if rel not in self.files:
            path = os.path.join(self.repo, rel)
            if not os.path.exists(path):
                fail(f"{rel}: file not found")
            with open(path) as f:
                text = f.read()
            self.files[rel] = (text, U.lex(text, rel))
        return self.files[rel]

    def getfn(self, rel, container, name):
        _, toks = self.load(rel)
        lo, hi = find_container(toks, 0, len(toks), U.H(container), rel)
        fns, _ = T.scan_items_tolerant(toks, lo, hi, rel)
        hit = [f for f in fns if f.name == name]
        if len(hit) != 1:
            fail(f"{rel}: `{container}` has no single `fn {name}`")
        if hit[0].attrs:
            fail(f"{rel}:{hit[0].line}: attribute on `{name}` is outside the subset")
        return hit[0]

    def run(self):
        for rel, pat, what in TEXT_CHECKS:
            text, _ = self.load(rel)
            if len(re.findall(pat, text)) != 1:
                fail(f"{rel}: textual check failed: {what}")
        notes = []
        # the one error variant of `State::by_performing_move`
        bpm = self.getfn(STATE, "impl State", "by_performing_move")
        vs = set()
        for i, t in enumerate(bpm.body):
            if t.s == "MovePerformError":
                vs.add(bpm.body[i + 2].s)
        if len(vs) != 1:
            fail(f"{STATE}: `by_performing_move` returns the error variants {sorted(vs)}; the payload-free reading of stage 2 needs exactly one")
        err_of = {"State::by_performing_move": vs.pop()}
        notes.append(f"`State::by_performing_move(..)?`: the callee (stage 2, payload dropped) can only fail with "
                     f"`MovePerformError::{err_of['State::by_performing_move']}` (every `MovePerformError::` in its text)")

        defs = []
        # MoveSet::filter
        flt = self.getfn(MOVES, "impl MoveSet", "filter")
        if U.norm(flt.sig) != "( & 'a self , query : MoveQuery ) -> impl Iterator < Item = & 'a MoveResult >":
            fail(f"{MOVES}: signature of MoveSet::filter changed: {U.norm(flt.sig)}")
        em = Em(MOVES, "MoveSet", err_of)
        p = P(flt.body, MOVES)
        body = p.block()
        if p.i != len(p.t):
            fail(f"{MOVES}: trailing tokens after the body of filter")
        if len(body) != 1 or body[0][0] != "tail":
            fail(f"{MOVES}:{flt.line}: MoveSet::filter must be a single expression")
        lines = []
        ctx = {"name": "MoveSet.filter", "local": set(), "calls": set()}
        a, t = em.ex(body[0][1], {"self": ("self_", "MoveSet"), "query": ("query", "MoveQuery")}, lines, "  ", ctx)
        if t != "Iter MoveResult" or lines:
            fail(f"{MOVES}:{flt.line}: MoveSet::filter: unexpected shape")
        defs.append(f"/-- `MoveSet::filter` ({MOVES}:{flt.line}) -/\n"
                    f"def MoveSet.filter (self_ : MoveSet) (query : MoveQuery) : Iter MoveResult :=\n  {a}\n")
        used = set(em.used)

        # State::by_performing_moves
        fn = self.getfn(STATE, "impl State", "by_performing_moves")
        if U.norm(fn.sig) not in ("( state : & Self , moves : & [ MoveQuery ] , ) -> Result < State , MovePerformError >",
                                  "( state : & Self , moves : & [ MoveQuery ] ) -> Result < State , MovePerformError >"):
            fail(f"{STATE}: signature of by_performing_moves changed: {U.norm(fn.sig)}")
        em = Em(STATE, "State", err_of)
        p = P(fn.body, STATE)
        body = p.block()
        if p.i != len(p.t):
            fail(f"{STATE}: trailing tokens after the body of by_performing_moves")
        ctx = {"name": "State.by_performing_moves", "local": {"MoveSet::filter"}, "calls": set()}
        env = {"state": ("state", "State"), "moves": ("moves", "List MoveQuery")}
        lines = em.stmts(body, env, set(), "  ", ctx, {"kind": "fn"})
        defs.extend(em.aux)
        defs.append(f"/-- `State::by_performing_moves` ({STATE}:{fn.line}) -/\n"
                    "def State.by_performing_moves (state : State) (moves : List MoveQuery) : Panics (Except MovePerformError State) := do\n"
                    + "\n".join(lines) + "\n")
        used |= em.used
        defs.append("/-- the seams of stage 4c with `by_performing_moves` INSTANTIATED by the translated function -/\n"
                    "def seamEnv (display_Move : Move → List Char) (display_EngineVersion engine_author : List Char) : UciSeams :=\n"
                    "  { by_performing_moves := State.by_performing_moves, display_Move := display_Move,\n"
                    "    display_EngineVersion := display_EngineVersion, engine_author := engine_author }\n")
        for key in sorted(used):
            ent = EXTERNS[key]
            rel, pat = ent["rust"]
            rtext, _ = self.load(rel)
            if len(re.findall(pat, rtext)) != 1:
                fail(f"{rel}: signature of extern `{ent['lean']}` changed")
            gf, head = ent["head"]
            with open(os.path.join(VERIF, "lean", "Wee", "Gen", gf)) as f:
                if head not in f.read().split("\n"):
                    fail(f"Gen/{gf}: head of `{ent['lean']}` is not `{head}`")
            notes.append(f"extern `{ent['lean']}` (Gen/{gf}) called by its generated name; Rust signature and Lean head checked")
        head = (f"-- GENERATED by tools/rs2lean_seams.py from {MOVES}, {STATE}; do not edit.\n"
                "import Wee.Gen.UciFns\nimport Wee.Gen.GenMoves\n"
                "/-!\n# Lean definitions translated from the Rust source text, stage 5 (the resolver `State::by_performing_moves`)\n\n"
                "Every `def` below the prelude is produced from the text of one Rust function; the prelude is the fixed, trusted vocabulary.\n"
                "`Wee/Proofs/SeamFnsBridge.lean` proves `State.by_performing_moves` equal to the model's `performQueries` and discharges the\n"
                "seam hypothesis of the UCI loop bridge.\n-/\n"
                "set_option linter.unusedVariables false\nnamespace Wee.GenFns\nopen Wee\n")
        tail = "\n/-! ## Side conditions checked by the translator\n" + "\n".join(f"* {n}" for n in notes) + "\n-/\n"
        return head + PRELUDE + "\n/-! ## Translated functions -/\n\n" + "\n".join(defs) + tail + "\nend Wee.GenFns\n"


def main():
    ap = argparse.ArgumentParser()
    ap.add_argument("--repo", default=os.environ.get("WEE_REPO", "/repo"))
    ap.add_argument("--out", default=DEFAULT_OUT)
    ap.add_argument("--check", action="store_true")
    a = ap.parse_args()
    try:
        text = Seams(a.repo).run()
    except TieBroken as e:
        print(f"TIE-BROKEN {TAG}: {e}")
        sys.exit(2)
    old = None
    if os.path.exists(a.out):
        with open(a.out) as f:
            old = f.read()
    if old == text:
        print(f"{TAG}: {a.out} up to date")
        sys.exit(0)
    if a.check:
        print(f"{TAG}: {a.out} would change")
        sys.exit(1)
    with open(a.out, "w") as f:
        f.write(text)
    print(f"{TAG}: wrote {a.out}")


if __name__ == "__main__":
    main()
