#!/usr/bin/env python3
"""Tie (a) for FUNCTIONS, stage 3c: the SEARCH MEMORY of `weechess-engine/src/searcher.rs`
(`TranspositionBucket`, `TranspositionTable`, `TranspositionTableAccess`, `TranspositionTableMoveIterator`, `StateHistory`).

    python3 tools/rs2lean_tt.py [--repo DIR] [--out FILE] [--check]

Imports `tools/rs2lean.py`, `rs2lean2.py`, `rs2lean3.py` as modules (none is modified): their lexer, item finder and parser are reused
(`Parser4` below extends `Parser3`), and stages 1 and 2 are RUN in this process -- the functions of earlier stages that the search
memory calls (`Move::as_raw`, `ZobristHasher::hash`, `State::by_performing_move`) are looked up in their registries, so a broken
stage 1/2 breaks this stage as well.  The items of `CONTAINERS_TT` are translated into `lean/Wee/Gen/TTFns.lean` (namespace
`Wee.GenFns`, `import Wee.Gen.CoreFns`); `Wee/Proofs/TTFnsBridge.lean` proves the generated functions equal to the hand-written model
(`Wee/Model/TT.lean`, `walkLine` of `Wee/Model/Search.lean`).  Anything outside the supported subset fails CLOSED:
`TIE-BROKEN rs2lean_tt: <reason>`, exit status 2.

The emitter of this stage is its own (small, typed, continuation-passing) one: the search memory uses `match` guards, `continue`,
`return` inside closures and loops over `iter_mut()`, which the fold-based emitters of stages 2/3a do not cover.

======================================================================================================
TRUSTED PART 1 -- semantics given to the Rust subset of this stage (additions to the tables of the earlier stages)
------------------------------------------------------------------------------------------------------
 u64, usize, Hash                     `UInt64` (64-bit target: `hash as usize` is the identity); u32 `UInt32`;
                                      `x as u64` (x : u32) = `UInt32.toUInt64 x`, `x as u32` (x : u64) = `UInt64.toUInt32 x` (truncation)
 a % b, a / b   (b not a literal)     CHECKED: `TTPrim.checked_rem` / `checked_div` = panic when `b == 0` (Rust panics in both profiles)
 a + b, a * b, x += e  (integers)     CHECKED (`UInt64.checked_add/mul` of stage 1): the debug profile panics on overflow
 assert!(c)                           panic when `c` is false (`TTPrim.assert`)
 v.len()                              `TTPrim.len v` = `v.size.toUInt64` (a Rust collection holds at most `isize::MAX` elements)
 v[i]                                 `ArrayMap.index v i` (stage 2): out of bounds = panic;  `v[i] = x` = `ArrayMap.set v i x`
 vec![x; n], [x; N]                   `Array.replicate n.toNat x`
 &x, *x, x.clone(), o.copied()        the value (references are values)
 early exit (`return`, `let-else`, `continue`) and statement `if`/`match`
                                      CONTINUATION PASSING: the statements that follow a statement `if`/`match`/`if let` are emitted
                                      inside every branch that falls through; `return r` ends the branch with `r`.
 match with a guard                   `P if g => A` followed by later arms: `| P => if g then A else <body of the first later arm
                                      whose pattern is irrefutable for the constructor of P>`; anything else fails closed.
 for e in PLACE.iter_mut() { body }   `TTPrim.for_early` over `List.range PLACE.size` with state = the outer variables the body
                                      assigns: `e` stands for the place `PLACE[i]` (read: `TTPrim.iter_mut_get`, panic if out of range --
                                      the bridge proves it never is; `*e = v`: `Array.setIfInBounds`).  `return r` = `Early.ret`,
                                      `continue` / falling off the body = `Early.cont`.
 X.iter().find_map(|e| { .. })        `List.findSome?` over `Array.toList X`; the closure must be panic free; `return r` inside the
                                      closure ends the CLOSURE with `r`.
 X.iter().map(|t| e).sum()  (usize)   `TTPrim.usize_sum` of the mapped list: CHECKED additions from 0, front to back.
 &mut self methods                    return `(result, self)` (just `self` for a unit result), as in stage 2.
 RwLock<T>                            TRANSPARENT (the Lean type of `RwLock<T>` is that of `T`).  `l.read().unwrap()` is the value,
                                      `l.write().unwrap().m(args)` is the ATOMIC application of the `&mut self` method `m` to the
                                      value in place.  A `&self` method that takes a write lock therefore returns the new `self`
                                      (interior mutability made explicit).  This is the TRUSTED reading of `std::sync::RwLock`:
                                      mutual exclusion holds, lock poisoning (`unwrap` of the guard) is out of scope.
                                      `v.into_iter().map(RwLock::new).collect()` is `v`.
 HashMap<K, V>                        an ABSTRACT FINITE MAP, trusted: `TTPrim.HashMap K V := K -> Option V`; `HashMap::new()` = the
                                      empty map, `m.get(k)` = `m k`, `*m.entry(k).or_insert(d) += v` = `m[k] := (m k).getD d + v`
                                      (checked).  Iteration order, capacity and hashing are not observable through these three.
 std::mem::size_of::<T>()             a constant computed by the tool from the declarations with rustc's layout of `repr(Rust)`
                                      types on a 64-bit target (usize/u64 8, u32/i32/f32 4, fieldless enum of <= 256 variants 1 byte;
                                      struct/tuple = fields padded to the largest alignment; `Option<T>` = `T` when `T` holds a
                                      fieldless enum with a spare value (niche), `[T; N]` = N * T).  TRUSTED (the layout is not
                                      fixed by the language); cross-checked once against rustc (see NOTES).
 x as f32, a / b on f32               `F32.ofInt`, `TTPrim.f32_checked_div` (`none` when the divisor is 0: NaN/inf are outside the model)
 matches!(e, Path)                    `match e with | Path => true | _ => false`
 #[cfg(weechess_verif)] <statement>   SKIPPED BY RULE: the translated function is the one compiled WITHOUT the cfg.  The tool checks
                                      textually that the skipped statement is exactly one call `verif::<ident>(<args>);` (a logging /
                                      scheduling hook whose result is discarded); anything else under that cfg fails closed.  Items
                                      (`fn`, `mod`) under `#[cfg(weechess_verif)]` / `#[cfg(test)]` are skipped by name in the table.
======================================================================================================
"""
import argparse
import os
import re
import sys

sys.dont_write_bytecode = True
sys.path.insert(0, os.path.dirname(os.path.abspath(__file__)))
import rs2lean as R  # noqa: E402
import rs2lean2 as R2  # noqa: E402
import rs2lean3 as R3  # noqa: E402

from rs2lean import N, TieBroken, fail  # noqa: E402

VERIF = R.VERIF
DEFAULT_OUT = os.path.join(VERIF, "lean", "Wee", "Gen", "TTFns.lean")
SEARCHER = "weechess-engine/src/searcher.rs"
HASHER = "weechess-core/src/hasher.rs"
TAG = "rs2lean_tt"

# ----------------------------------------------------------------------------------------------------
# TABLES
# ----------------------------------------------------------------------------------------------------
DECLS = [
    (HASHER, r"pub type Hash = u64;", "type Hash = u64"),
    (SEARCHER, r"use std::\{\s*collections::HashMap,\s*sync::\{\s*atomic::\{AtomicBool, Ordering\},\s*mpsc, Arc, RwLock,\s*\},",
     "HashMap is std::collections::HashMap, RwLock is std::sync::RwLock"),
    (SEARCHER, r"use weechess_core::\{\s*Hash, Move, MoveGenerationBuffer, MoveGenerator, MoveResult, PseudoLegalMove, State,\s*"
               r"ZobristHasher,\s*\};", "Hash, Move, MoveResult, State, ZobristHasher are the weechess_core items"),
    (SEARCHER, r"use crate::eval::\{self, Evaluation\};", "eval::Evaluation is crate::eval::Evaluation"),
    (R.MOVES, r"pub struct MoveResult\(pub Move, pub State\);", "struct MoveResult(pub Move, pub State)"),
]

ENUMS = ["EvaluationKind", "TranspositionInsertionResult"]
# (name, type used for the `impl Iterator` return of which fn)
STRUCTS = ["TranspositionEntry", "TranspositionBucket", "TranspositionTable", "TranspositionTableAccess",
           "TranspositionTableMoveIterator", "StateHistory"]

# header tokens, Self type, functions (in dependency order), skipped by name -> reason, return type overrides
CONTAINERS_TT = [
    (["impl", "TranspositionInsertionResult"], "TranspositionInsertionResult", ["inserted"], {}, {}),
    (["impl", "TranspositionBucket"], "TranspositionBucket", ["empty", "find", "insert_or_replace"], {}, {}),
    (["impl", "TranspositionTable"], "TranspositionTable",
     ["with_bucket_count", "with_memory", "find", "insert", "entries", "max_entries"], {}, {}),
    (["impl", "TranspositionTableAccess"], "TranspositionTableAccess",
     ["with_tables", "insert", "find", "entries", "max_entries", "saturation", "iter_moves"],
     {"small": ("cfg ( test )", "#[cfg(test)] constructor of the unit tests")},
     {"iter_moves": "TranspositionTableMoveIterator"}),
    (["impl", "Iterator", "for", "TranspositionTableMoveIterator", "<", "'_", ">"], "TranspositionTableMoveIterator", ["next"], {}, {}),
    (["impl", "StateHistory"], "StateHistory", ["new", "increment", "lookup"], {}, {}),
]

# functions of earlier stages used here: (Self type, name) -> expected Lean name
EARLIER = {("Move", "as_raw"): "Move.as_raw", ("ZobristHasher", "hash"): "ZobristHasher.hash",
           ("State", "by_performing_move"): "State.by_performing_move"}

PRELUDE = r'''
/-! ## Prelude of stage 3c (fixed vocabulary; see the tables at the top of `tools/rs2lean_tt.py`) -/

/-- `a % b` with a computed divisor: Rust panics when `b == 0` -/
def TTPrim.checked_rem (a b : UInt64) : Panics UInt64 := if b = 0 then none else some (a % b)
/-- `a / b` with a computed divisor: Rust panics when `b == 0` -/
def TTPrim.checked_div (a b : UInt64) : Panics UInt64 := if b = 0 then none else some (a / b)
/-- `assert!(c)` -/
def TTPrim.assert (c : Bool) : Panics Unit := if c then some () else none
/-- `v.len()` -/
def TTPrim.len {α : Type} (v : Array α) : UInt64 := v.size.toUInt64
/-- the element `e` of `for e in v.iter_mut()` in iteration `i` (always in range; the bridge proves it) -/
def TTPrim.iter_mut_get {α : Type} (v : Array α) (i : Nat) : Panics α := v[i]?
/-- `for .. { body }` with `return` / `continue` in the body: `Early.ret r` leaves the function with `r` (nothing after it is
evaluated), `Early.cont s` goes on with the next item -/
def TTPrim.for_early {α ρ σ : Type} (f : σ → α → Panics (Early ρ σ)) : List α → σ → Panics (Early ρ σ)
  | [], s => some (Early.cont s)
  | x :: xs, s =>
    match f s x with
    | none => none
    | some (Early.ret r) => some (Early.ret r)
    | some (Early.cont s') => TTPrim.for_early f xs s'
/-- `iter.sum()` on `usize`: checked additions from 0, front to back -/
def TTPrim.usize_sum (xs : List UInt64) : Panics UInt64 := xs.foldlM (fun acc x => UInt64.checked_add acc x) 0
/-- `a / b` on `f32` with a computed divisor (`none`: NaN / infinity are outside the modelled domain) -/
def TTPrim.f32_checked_div (a b : Rat) : Panics Rat := if b = 0 then none else some (Wee.F32.div a b)
/-- `std::collections::HashMap<K, V>` as an abstract finite map -/
abbrev TTPrim.HashMap (K V : Type) := K → Option V
/-- `HashMap::new()` -/
def TTPrim.HashMap.new {K V : Type} : TTPrim.HashMap K V := fun _ => none
/-- `m.get(k)` -/
def TTPrim.HashMap.get {K V : Type} (m : TTPrim.HashMap K V) (k : K) : Option V := m k
/-- `m.insert(k, v)` / the write through `m.entry(k).or_insert(..)` -/
def TTPrim.HashMap.insert {K V : Type} [DecidableEq K] (m : TTPrim.HashMap K V) (k : K) (v : V) : TTPrim.HashMap K V :=
  fun k' => if k' = k then some v else m k'
'''

INT_LEAN = {"u64": "UInt64", "usize": "UInt64", "u32": "UInt32"}
SIZES = {"u64": (8, 8), "usize": (8, 8), "u32": (4, 4), "i32": (4, 4), "f32": (4, 4), "Move": (4, 4), "Evaluation": (4, 4), "Hash": (8, 8)}


def die(rel, line, msg):
    fail(f"{rel}:{line}: {msg}")


# ----------------------------------------------------------------------------------------------------
# parser
# ----------------------------------------------------------------------------------------------------
class Parser4(R3.Parser3):
    def ty(self):
        s = self.peek()
        if s == "impl":
            self.err("`impl Trait` type (give the function a return override in the table)")
        if self.tok().k == "id" and s in ("RwLock", "HashMap") and self.peek(1) == "<":
            self.eat()
            self.eat("<")
            args = [self.ty()]
            while self.peek() == ",":
                self.eat()
                args.append(self.ty())
            if self.peek() == ">>":
                self.t[self.i] = R.Tok("op", ">", self.tok().line)
            else:
                self.eat(">")
            if s == "RwLock" and len(args) == 1:
                return ("RwLock", args[0])
            if s == "HashMap" and len(args) == 2:
                return ("HashMap", ("tuple", (args[0], args[1])))
            self.err(f"type arguments of `{s}`")
        return super().ty()

    def arms(self):
        self.eat("{")
        arms = []
        while self.peek() != "}":
            ln = self.line()
            pat = self.pattern()
            if self.peek() == "|":
                self.err("or-patterns are outside the supported subset")
            guard = None
            if self.peek() == "if":
                self.eat()
                self.nostruct += 1
                guard = self.expr()
                self.nostruct -= 1
            self.eat("=>")
            if self.peek() == "{":
                body = self.block()
                if self.peek() == ",":
                    self.eat()
            else:
                saved, self.nostruct = self.nostruct, 0
                if self.peek() == "continue":
                    self.eat()
                    x = N("continue", ln)
                else:
                    x = self.expr()
                self.nostruct = saved
                body = N("block", ln, stmts=[], tail=x)
                if self.peek() == ",":
                    self.eat()
                elif self.peek() != "}":
                    self.err("expected `,` after a match arm")
            arms.append(N("arm", ln, pat=pat, body=body, guard=guard))
        self.eat("}")
        return arms

    def one_stmt(self):
        s = self.peek()
        l2 = self.line()
        if s == "continue" and self.peek(1) == ";":
            self.eat()
            self.eat()
            return N("exprstmt", l2, e=N("continue", l2)), None
        if s == "assert" and self.peek(1) == "!":
            self.eat()
            self.eat("!")
            self.eat("(")
            c = self.expr()
            self.eat(")")
            self.eat(";")
            return N("assert", l2, cond=c), None
        if s == "let" and self.peek(1) in ("Some", "Ok") and self.peek(2) == "(":
            self.eat()
            pat = self.pattern()
            self.eat("=")
            self.nostruct += 1
            init = self.expr()
            self.nostruct -= 1
            self.eat("else")
            els = self.block()
            self.eat(";")
            return N("letelse", l2, pat=pat, init=init, els=els), None
        if s in ("matches", "vec") and self.peek(1) == "!":
            e = self.expr(stmt=True)
            if self.peek() == ";":
                self.eat()
                return N("exprstmt", l2, e=e), None
            return None, e
        return super().one_stmt()

    def primary(self):
        t = self.tok()
        ln = t.line
        if t.s == "matches" and self.peek(1) == "!":
            self.eat()
            self.eat("!")
            self.eat("(")
            e = self.expr()
            self.eat(",")
            pat = self.pattern()
            self.eat(")")
            return N("matches", ln, e=e, pat=pat)
        if t.s == "vec" and self.peek(1) == "!":
            self.eat()
            self.eat("!")
            if self.peek() != "[":
                self.err("`vec!` is supported only as `vec![x; n]`")
            e = super().primary()
            if e.k != "repeat":
                self.err("`vec!` is supported only as `vec![x; n]`")
            e.vec = True
            return e
        if t.s == "std" and [self.peek(i) for i in range(1, 7)] == ["::", "mem", "::", "size_of", "::", "<"]:
            for _ in range(7):
                self.eat()
            ty = self.ty()
            self.eat(">")
            self.eat("(")
            self.eat(")")
            return N("sizeof", ln, of=ty)
        return super().primary()


# ----------------------------------------------------------------------------------------------------
# cfg-gated statements
# ----------------------------------------------------------------------------------------------------
def strip_cfg(toks, rel, fn, notes):
    """remove `#[cfg(weechess_verif)] verif::<ident>(..);` from a fn body; any other attribute inside a body fails closed"""
    out = []
    i = 0
    while i < len(toks):
        t = toks[i]
        if t.s == "#" and i + 1 < len(toks) and toks[i + 1].s == "[":
            c = R.match_close(toks, i + 1, "[", "]")
            attr = " ".join(x.s for x in toks[i + 2:c])
            if attr != "cfg ( weechess_verif )":
                die(rel, t.line, f"fn {fn}: attribute `#[{attr}]` on a statement is outside the supported subset")
            j = c + 1
            ok = (toks[j].s == "verif" and toks[j + 1].s == "::" and toks[j + 2].k == "id" and toks[j + 3].s == "(")
            if ok:
                pc = R.match_close(toks, j + 3, "(", ")")
                ok = toks[pc + 1].s == ";"
            if not ok:
                die(rel, t.line, f"fn {fn}: the statement under `#[cfg(weechess_verif)]` is not a plain call `verif::<hook>(..);` "
                                 f"(only logging hooks may be skipped)")
            notes.append(f"{fn}: skipped `#[cfg(weechess_verif)] verif::{toks[j + 2].s}(..);` (line {t.line}): a call into the "
                         f"instrumentation module whose result is discarded")
            i = pc + 2
            continue
        out.append(t)
        i += 1
    return out


# ----------------------------------------------------------------------------------------------------
# declarations
# ----------------------------------------------------------------------------------------------------
def find_enum(toks, name, rel):
    hits = []
    i = 0
    while i < len(toks):
        t = toks[i]
        if t.s == "enum" and toks[i + 1].s == name and toks[i + 2].s == "{":
            c = R.match_close(toks, i + 2, "{", "}")
            hits.append((i + 3, c))
            i = c + 1
            continue
        if t.s == "{":
            i = R.match_close(toks, i, "{", "}") + 1
            continue
        i += 1
    if len(hits) != 1:
        fail(f"{rel}: expected exactly one `enum {name} {{`, found {len(hits)}")
    lo, hi = hits[0]
    vs = []
    i = lo
    while i < hi:
        if toks[i].k != "id" or (i + 1 < hi and toks[i + 1].s != ","):
            die(rel, toks[i].line, f"enum {name}: only field-less variants without discriminants are supported")
        vs.append(toks[i].s)
        i += 2
    return vs


def find_struct_lt(toks, name, rel):
    """like R2.find_struct, but accepts `struct NAME<'a> {`"""
    toks2 = []
    i = 0
    while i < len(toks):
        if toks[i].s == "struct" and toks[i + 1].s == name and toks[i + 2].s == "<" and toks[i + 3].k == "life" \
                and toks[i + 4].s == ">":
            toks2.extend(toks[i:i + 2])
            i += 5
            continue
        toks2.append(toks[i])
        i += 1
    return R2.find_struct(toks2, name, rel)


# ----------------------------------------------------------------------------------------------------
# types
# ----------------------------------------------------------------------------------------------------
def norm(t):
    if isinstance(t, tuple):
        if t[0] in ("ref", "refmut"):
            return norm(t[1])
        if t[0] == "tuple":
            return ("tuple", tuple(norm(x) for x in t[1]))
        if t[0] in ("Option", "Vec", "array", "slice", "RwLock"):
            return (t[0], norm(t[1]))
        if t[0] == "HashMap":
            return ("HashMap", norm(t[1]))
        fail(f"type {t!r} is outside the supported subset")
    if t == "Hash":
        return "u64"
    return t


def show(t):
    if isinstance(t, tuple):
        if t[0] == "tuple":
            return "(" + ", ".join(show(x) for x in t[1]) + ")"
        return f"{t[0]}<{show(t[1])}>"
    return str(t)


class FnInfo:
    pass


class Ctx:
    """where `return` / normal completion of the current body go"""
    def __init__(self, kind, ret_ty, mon, mutself, state=None):
        self.kind, self.ret_ty, self.mon, self.mutself, self.state = kind, ret_ty, mon, mutself, state


class TT:
    def __init__(self, repo, e2):
        self.repo, self.e2 = repo, e2
        self.src, self.toks = {}, {}
        self.enums, self.structs, self.fns, self.consts = {}, {}, {}, {}
        self.notes, self.items = [], []
        self.ntmp = 0
        self.sizeofs = {}

    # ---- loading ----------------------------------------------------------------------------------
    def load(self, rel):
        if rel not in self.toks:
            p = os.path.join(self.repo, rel)
            if not os.path.exists(p):
                fail(f"{rel}: file not found")
            with open(p) as f:
                self.src[rel] = f.read()
            self.toks[rel] = R.lex(self.src[rel], rel)
        return self.toks[rel]

    def check_decls(self):
        for rel, pat, what in DECLS:
            self.load(rel)
            text = re.sub(r"//[^\n]*", "", self.src[rel])
            if len(re.findall(pat, text)) != 1:
                fail(f"{rel}: declaration `{what}` not found exactly once (a primitive mapping rests on it)")
        for key, lean in EARLIER.items():
            fn = self.e2.methods.get(key) or self.e2.assoc.get(key)
            if fn is None or fn.lean != lean:
                fail(f"{key[0]}::{key[1]} is not translated by stages 1/2 (needed by the search memory)")

    def earlier(self, key):
        return self.e2.methods.get(key) or self.e2.assoc.get(key)

    def collect_decls(self):
        toks = self.load(SEARCHER)
        for name in ENUMS:
            self.enums[name] = find_enum(toks, name, SEARCHER)
        R2.STRUCT_NAMES.update(STRUCTS)
        for name in STRUCTS:
            derives, fields = find_struct_lt(toks, name, SEARCHER)
            out = []
            for fname, ttoks, line in fields:
                tp = Parser4(ttoks, SEARCHER, name)
                ty = tp.ty()
                if tp.i != len(tp.t):
                    die(SEARCHER, line, f"struct {name}: field {fname}: unsupported type")
                out.append((fname, norm(ty)))
            self.structs[name] = out
            self.items.append(("struct", name, derives))

    # ---- layout (std::mem::size_of) ---------------------------------------------------------------
    def layout(self, t):
        """(size, align, has_niche) under rustc's layout of repr(Rust) types, 64-bit target"""
        if isinstance(t, tuple):
            if t[0] == "tuple":
                return self.layout_fields([x for x in t[1]])
            if t[0] == "Option":
                s, a, niche = self.layout(t[1])
                if not niche:
                    fail(f"size_of: Option<{show(t[1])}> without a niche is not covered by the layout table")
                return s, a, False
            if t[0] == "array":
                fail("size_of: array type without a known length")
            if t[0] == "arrayN":
                s, a, _ = self.layout(t[1])
                return s * t[2], a, False
            fail(f"size_of: type {show(t)} is not covered by the layout table")
        if t in SIZES:
            return SIZES[t][0], SIZES[t][1], False
        if t in self.enums:
            if not (1 <= len(self.enums[t]) < 256):
                fail(f"size_of: enum {t}")
            return 1, 1, True
        if t in self.structs_sized:
            return self.layout_fields([ty for _, ty in self.structs_sized[t]])
        fail(f"size_of: type {show(t)} is not covered by the layout table")

    def layout_fields(self, tys):
        ls = [self.layout(x) for x in tys]
        align = max([a for _, a, _ in ls] + [1])
        size = sum(s for s, _, _ in ls)
        # fields are reordered by decreasing alignment: padding only at the end
        size = (size + align - 1) // align * align
        return size, align, any(n for _, _, n in ls)

    def size_of(self, ty, line):
        """size_of::<T>() for a struct T of this file, re-reading the declarations with array LENGTHS"""
        toks = self.load(SEARCHER)
        self.structs_sized = {}
        for name in STRUCTS:
            _, fields = find_struct_lt(toks, name, SEARCHER)
            out = []
            for fname, ttoks, fl in fields:
                if ttoks and ttoks[0].s == "[":
                    semi = [j for j, x in enumerate(ttoks) if x.s == ";"]
                    if not semi:
                        out.append((fname, ("unsized",)))
                        continue
                    inner = Parser4(ttoks[1:semi[-1]], SEARCHER, name).ty()
                    ltoks = [x.s for x in ttoks[semi[-1] + 1:-1]]
                    if len(ltoks) == 3 and ltoks[1] == "::" and (ltoks[0] if ltoks[0] != "Self" else name, ltoks[2]) in self.const_vals:
                        n = self.const_vals[(ltoks[0] if ltoks[0] != "Self" else name, ltoks[2])]
                    elif len(ltoks) == 1 and ltoks[0].isdigit():
                        n = int(ltoks[0])
                    else:
                        die(SEARCHER, fl, f"size_of: array length `{' '.join(ltoks)}` is not a known constant")
                    out.append((fname, ("arrayN", norm(inner), n)))
                else:
                    try:
                        out.append((fname, norm(Parser4(ttoks, SEARCHER, name).ty())))
                    except TieBroken:
                        out.append((fname, ("unsized",)))
            self.structs_sized[name] = out
        s, _, _ = self.layout(ty)
        return s

    # ---- functions: collection --------------------------------------------------------------------
    def collect_fns(self):
        toks = self.load(SEARCHER)
        self.const_vals = {}
        for header, self_ty, names, skip, retov in CONTAINERS_TT:
            lo, hi = R.find_container(toks, 0, len(toks), header, SEARCHER)
            raws, rconsts, _ = R2.scan_items2(toks, lo, hi, SEARCHER)
            assoc = {}
            j = lo
            while j < hi:                          # `type Item = T;` of a trait impl
                if toks[j].s == "{":
                    j = R.match_close(toks, j, "{", "}") + 1
                    continue
                if toks[j].s == "type" and toks[j + 2].s == "=":
                    j2 = j + 3
                    while toks[j2].s != ";":
                        j2 += 1
                    tp = Parser4(toks[j + 3:j2], SEARCHER, self_ty)
                    assoc[toks[j + 1].s] = tp.ty()
                    j = j2
                j += 1
            for cname, etoks, line, attrs in rconsts:
                ss = [x.s for x in etoks]
                if not (len(ss) == 3 and ss[0] == "usize" and ss[1] == "=" and etoks[2].k == "int"):
                    die(SEARCHER, line, f"const {self_ty}::{cname}: only `usize = <literal>` constants are supported")
                v = int(ss[2].replace("_", ""), 0)
                self.const_vals[(self_ty, cname)] = v
                self.consts[(self_ty, cname)] = ("usize", f"{self_ty}.{cname}", v)
                self.items.append(("const", self_ty, cname))
            found = {}
            for raw in raws:
                if raw.name in skip:
                    want_attr, why = skip[raw.name]
                    if want_attr not in raw.attrs:
                        die(SEARCHER, raw.line, f"fn {raw.name} is skipped by name because it is `#[{want_attr}]`, but it no longer carries that attribute")
                    self.notes.append(f"skipped {self_ty}::{raw.name}: {why}")
                    continue
                if raw.name not in names:
                    die(SEARCHER, raw.line, f"fn `{raw.name}` of `{' '.join(header)}` is not in the table of translated functions "
                                            f"(add it to the table and give it a bridge theorem, or to `skip`)")
                if any(a.startswith("cfg") for a in raw.attrs):
                    die(SEARCHER, raw.line, f"fn {raw.name} is cfg-gated")
                found[raw.name] = raw
            missing = [n for n in names if n not in found]
            if missing:
                fail(f"{SEARCHER}: `{' '.join(header)}`: function(s) {missing} of the table not found")
            for n in names:
                raw = found[n]
                sig = list(raw.sig)
                if n in retov:
                    # `-> impl Iterator<..> + 'a` is replaced by the named iterator type of the table
                    k = [j for j, x in enumerate(sig) if x.s == "->"]
                    if not k or sig[k[-1] + 1].s != "impl":
                        die(SEARCHER, raw.line, f"fn {n}: return type override without an `impl Trait` return type")
                    sig = sig[:k[-1] + 1] + [R.Tok("id", retov[n], raw.line)]
                sig = [x for x in sig if x.k != "life"]      # lifetimes are dropped (references are values)
                sp = Parser4(sig, SEARCHER, self_ty, assoc)
                params, ret = sp.signature()
                body_toks = strip_cfg(list(raw.body), SEARCHER, f"{self_ty}::{n}", self.notes)
                bp = Parser4(body_toks, SEARCHER, self_ty, assoc)
                body = bp.block()
                if bp.i != len(bp.t):
                    die(SEARCHER, raw.line, f"fn {n}: trailing tokens")
                fi = FnInfo()
                fi.name, fi.self_ty, fi.lean, fi.line = n, self_ty, f"{self_ty}.{n}", raw.line
                fi.params = [(p, norm(t), m) for p, t, m in params]
                fi.ret = norm(ret)
                fi.body = body
                fi.has_self = bool(params) and params[0][0] == "self"
                fi.mutself = fi.has_self and (params[0][2] == "refmut" or self.takes_write_lock(body))
                if fi.has_self and params[0][2] == "ref" and fi.mutself:
                    self.notes.append(f"{fi.lean}: `&self` method that takes a write lock: returns the new `self` (interior mutability explicit)")
                fi.may_panic = None
                self.fns[(self_ty, n)] = fi
                self.items.append(("fn", fi))

    @staticmethod
    def takes_write_lock(body):
        return any(x.k == "mcall" and x.name == "write" for x in R.walk(body))

    # ---- panic analysis ---------------------------------------------------------------------------
    def children(self, e):
        out = []
        for k, v in e.__dict__.items():
            if k in ("ty",):
                continue
            if isinstance(v, N):
                out.append(v)
            elif isinstance(v, list):
                for x in v:
                    if isinstance(x, N):
                        out.append(x)
                    elif isinstance(x, tuple):
                        out.extend(y for y in x if isinstance(y, N))
        return out

    def walk(self, e):
        yield e
        for c in self.children(e):
            yield from self.walk(c)

    def node_may_panic(self, e, fi):
        k = e.k
        if k == "index" or k == "assert":
            return True
        if k == "bin" and e.op in ("+", "-", "*"):
            return True
        if k == "bin" and e.op in ("/", "%"):
            return True
        if k == "assign" and e.op != "=":
            return True
        if k == "assign" and any(x.k == "index" for x in self.walk(e.place)):
            return True
        if k == "mcall":
            if e.name == "sum":
                return True
            if e.name == "unwrap" and not (e.recv.k == "mcall" and e.recv.name in ("read", "write")):
                return True
            if e.name == "iter_mut":
                return True
            for (st, n), f in self.fns.items():
                if n == e.name and f is not fi and f.may_panic:
                    return True            # conservative: any translated method of that name
            for (st, n), lean in EARLIER.items():
                if n == e.name and self.earlier((st, n)).may_panic:
                    return True
        if k == "call":
            segs = e.fn
            if len(segs) == 2:
                st = fi.self_ty if segs[0] == "Self" else segs[0]
                f = self.fns.get((st, segs[1]))
                if f is not None and f.may_panic:
                    return True
                if (st, segs[1]) in EARLIER and self.earlier((st, segs[1])).may_panic:
                    return True
        return False

    def analyse(self, fi):
        fi.may_panic = any(self.node_may_panic(x, fi) for x in self.walk(fi.body))

    # ---- Lean types -------------------------------------------------------------------------------
    def lty(self, t, atom=False):
        if isinstance(t, tuple):
            if t[0] == "Option":
                s = f"Option {self.lty(t[1], True)}"
            elif t[0] == "tuple":
                return "(" + " × ".join(self.lty(x, True) for x in t[1]) + ")"
            elif t[0] in ("Vec", "array"):
                s = f"Array {self.lty(t[1], True)}"
            elif t[0] == "RwLock":
                return self.lty(t[1], atom)
            elif t[0] == "HashMap":
                s = f"TTPrim.HashMap {self.lty(t[1][1][0], True)} {self.lty(t[1][1][1], True)}"
            else:
                fail(f"type {show(t)} not supported")
            return f"({s})" if atom else s
        if t in INT_LEAN:
            return INT_LEAN[t]
        if t == "bool":
            return "Bool"
        if t == "unit":
            return "Unit"
        if t == "f32":
            return "Rat"
        if t == "MoveResult":
            return "(Move × State)"
        if t in self.structs or t in self.enums or t in ("Move", "State", "ZobristHasher", "Evaluation"):
            return t
        fail(f"type `{show(t)}` is outside the supported subset")

    def fresh(self):
        self.ntmp += 1
        return f"tmp{self.ntmp}"

    @staticmethod
    def par(s):
        if re.fullmatch(r"[\w.!?']+|\(.*\)|#\[.*\]", s) and R.Translator.balanced(s):
            return s
        return f"({s})"

    def err(self, e, msg):
        fail(f"{SEARCHER}:{e.line}: in fn {self.cur.self_ty}::{self.cur.name}: {msg}")

    # ---- places -----------------------------------------------------------------------------------
    def read_place(self, p, env, out):
        return self.ex(p, env, out)

    def write_place(self, p, v, env, out, ind):
        """emit the rebinding of the root variable of place `p` to hold `v` (a Lean term) at that place"""
        if p.k == "paren":
            return self.write_place(p.e, v, env, out, ind)
        if p.k == "path" and len(p.segs) == 1:
            x = p.segs[0]
            if x in self.alias:
                place, ivar = self.alias[x]
                cur, _ = self.ex(place, env, out, ind=ind)
                return self.write_place(place, f"Array.setIfInBounds {self.par(cur)} {ivar} {self.par(v)}", env, out, ind)
            if x not in env:
                self.err(p, f"assignment to `{x}` which is not a local")
            out.append(f"{ind}let {R.mangle(x)} : {self.lty(env[x])} := {v}")
            return
        if p.k == "un" and p.op == "*":
            return self.write_place(p.e, v, env, out, ind)
        if p.k == "field":
            cur, ct = self.ex(p.e, env, out, ind=ind)
            if ct not in self.structs or p.name not in dict(self.structs[ct]):
                self.err(p, f"assignment to field `.{p.name}` of {show(ct)}")
            return self.write_place(p.e, f"{{ {cur} with f_{p.name} := {v} }}", env, out, ind)
        if p.k == "index":
            cur, ct = self.ex(p.e, env, out, ind=ind)
            ix, _ = self.ex(p.ix, env, out, exp="usize", ind=ind)
            if out is None:
                self.err(p, "internal: pure context")
            t = self.fresh()
            out.append(f"{ind}let {t} ← ArrayMap.set {self.par(cur)} {self.par(ix)} {self.par(v)}")
            return self.write_place(p.e, t, env, out, ind)
        if p.k == "mcall" and p.name == "unwrap" and p.recv.k == "mcall" and p.recv.name == "write" and not p.args and not p.recv.args:
            return self.write_place(p.recv.recv, v, env, out, ind)
        self.err(p, "unsupported place")

    def root_var(self, p):
        while True:
            if p.k in ("field", "index", "paren"):
                p = p.e
            elif p.k == "un" and p.op == "*":
                p = p.e
            elif p.k == "mcall" and p.name in ("unwrap", "write", "entry", "or_insert"):
                p = p.recv
            else:
                break
        if p.k == "path" and len(p.segs) == 1:
            x = p.segs[0]
            if x in self.alias:
                return self.root_var(self.alias[x][0])
            return x
        return None

    # ---- expressions ------------------------------------------------------------------------------
    def lit(self, e, exp):
        t = e.suf or exp
        if t not in INT_LEAN:
            self.err(e, f"integer literal `{e.text}` of undetermined type")
        return f"({e.text} : {INT_LEAN[t]})", t

    def ex(self, e, env, out, exp=None, ind=None):
        """(Lean term, Rust type); panicking sub-expressions are bound in `out` (A-normal form, Rust's evaluation order)"""
        if ind is None:
            ind = self.ind
        k = e.k
        P = self.par

        def bind(rhs, ty):
            if out is None:
                self.err(e, "internal: a panicking expression in a pure context")
            t = self.fresh()
            out.append(f"{ind}let {t} ← {rhs}")
            return t, ty

        if k == "paren":
            return self.ex(e.e, env, out, exp, ind)
        if k == "lit":
            return self.lit(e, exp)
        if k == "boollit":
            return ("true" if e.v else "false"), "bool"
        if k == "sizeof":
            ty = norm(e.of)
            n = self.size_of(ty, e.line)
            self.sizeofs[show(ty)] = n
            return f"({n} : UInt64)", "usize"
        if k == "path":
            segs = e.segs
            if len(segs) == 1:
                x = segs[0]
                if x in self.alias:
                    place, ivar = self.alias[x]
                    cur, ct = self.ex(place, env, out, ind=ind)
                    if not (isinstance(ct, tuple) and ct[0] in ("array", "Vec")):
                        self.err(e, "iter_mut over a non-array")
                    return bind(f"TTPrim.iter_mut_get {P(cur)} {ivar}", ct[1])
                if x in env:
                    return R.mangle(x), env[x]
                if x == "None":
                    if not (isinstance(exp, tuple) and exp[0] == "Option"):
                        self.err(e, "`None` of undetermined type")
                    return "none", exp
                self.err(e, f"unknown identifier `{x}`")
            if len(segs) == 2:
                st = self.cur.self_ty if segs[0] == "Self" else segs[0]
                if (st, segs[1]) in self.consts:
                    ty, lean, _ = self.consts[(st, segs[1])]
                    return lean, ty
                if st in self.enums and segs[1] in self.enums[st]:
                    return f"{st}.{segs[1]}", st
            self.err(e, f"unknown path `{'::'.join(segs)}`")
        if k == "un":
            if e.op in ("&", "*"):
                return self.ex(e.e, env, out, exp, ind)
            if e.op == "!":
                x, t = self.ex(e.e, env, out, exp, ind)
                if t == "bool":
                    return f"!{P(x)}", t
                self.err(e, "`!` on a non-bool")
            self.err(e, f"unary `{e.op}` not supported")
        if k == "cast":
            to = norm(e.to)
            x, t = self.ex(e.e, env, out, None, ind)
            if (t, to) in (("u64", "usize"), ("usize", "u64")):
                return x, to
            if (t, to) == ("u32", "u64"):
                return f"UInt32.toUInt64 {P(x)}", to
            if t in ("u64", "usize") and to == "u32":
                return f"UInt64.toUInt32 {P(x)}", to          # truncation, like `as`
            if t in ("usize", "u64") and to == "f32":
                return f"Wee.F32.ofInt (Int.ofNat (UInt64.toNat {P(x)}))", "f32"
            self.err(e, f"cast {show(t)} as {show(to)} not supported")
        if k == "bin":
            op = e.op
            if op in ("&&", "||"):
                a, _ = self.ex(e.l, env, out, "bool", ind)
                sub = []
                b, _ = self.ex(e.r, env, sub, "bool", ind)
                if sub:
                    self.err(e, f"panicking right operand of `{op}` not supported")
                return f"{P(a)} {op} {P(b)}", "bool"
            lt_hint = exp if op not in ("==", "!=", "<", "<=", ">", ">=") else None
            if e.l.k == "lit" and not e.l.suf and e.r.k != "lit":
                b, t = self.ex(e.r, env, [], None, ind)          # type of the other operand (discarded emission)
                lt_hint = t
            a, t = self.ex(e.l, env, out, lt_hint, ind)
            b, t2 = self.ex(e.r, env, out, t, ind)
            if t != t2:
                self.err(e, f"operator `{op}` on {show(t)} and {show(t2)}")
            if op in ("==", "!="):
                if not (t in INT_LEAN or t == "bool" or t in self.enums):
                    self.err(e, f"`{op}` on {show(t)}")
                return f"{P(a)} {op} {P(b)}", "bool"
            if op in ("<", "<=", ">", ">="):
                if t not in INT_LEAN:
                    self.err(e, f"`{op}` on {show(t)}")
                return f"decide ({P(a)} {op} {P(b)})", "bool"
            if op in ("^", "&", "|") and t in INT_LEAN:
                return f"{P(a)} {{'^': '^^^', '&': '&&&', '|': '|||'}}[op] {P(b)}".replace("{'^': '^^^', '&': '&&&', '|': '|||'}[op]",
                                                                                        {"^": "^^^", "&": "&&&", "|": "|||"}[op]), t
            if op in ("+", "-", "*") and t in INT_LEAN:
                nm = {"+": "checked_add", "-": "checked_sub", "*": "checked_mul"}[op]
                return bind(f"{INT_LEAN[t]}.{nm} {P(a)} {P(b)}", t)
            if op in ("%", "/") and t in ("usize", "u64"):
                return bind(f"TTPrim.{'checked_rem' if op == '%' else 'checked_div'} {P(a)} {P(b)}", t)
            if op == "/" and t == "f32":
                return bind(f"TTPrim.f32_checked_div {P(a)} {P(b)}", t)
            self.err(e, f"operator `{op}` on {show(t)} not supported")
        if k == "field":
            x, t = self.ex(e.e, env, out, None, ind)
            if isinstance(t, tuple) and t[0] == "tuple" and e.name in ("0", "1") and len(t[1]) == 2:
                return f"{P(x)}.{int(e.name) + 1}", t[1][int(e.name)]
            if t == "MoveResult" and e.name in ("0", "1"):
                return f"{P(x)}.{int(e.name) + 1}", ("Move", "State")[int(e.name)]
            if t in self.structs and e.name in dict(self.structs[t]):
                return f"{P(x)}.f_{e.name}", dict(self.structs[t])[e.name]
            self.err(e, f"field `.{e.name}` of {show(t)} not supported")
        if k == "index":
            x, t = self.ex(e.e, env, out, None, ind)
            if not (isinstance(t, tuple) and t[0] in ("Vec", "array")):
                self.err(e, f"indexing of {show(t)}")
            i, it = self.ex(e.ix, env, out, "usize", ind)
            if it != "usize":
                self.err(e, "index that is not a usize")
            return bind(f"ArrayMap.index {P(x)} {P(i)}", t[1])
        if k == "tuple":
            ets = exp[1] if isinstance(exp, tuple) and exp[0] == "tuple" else (None, None)
            a, ta = self.ex(e.items[0], env, out, ets[0], ind)
            b, tb = self.ex(e.items[1], env, out, ets[1], ind)
            return f"({a}, {b})", ("tuple", (ta, tb))
        if k == "repeat":
            want = exp[1] if isinstance(exp, tuple) and exp[0] in ("array", "Vec") else None
            x, t = self.ex(e.e, env, out, want, ind)
            n, nt = self.ex(e.n, env, out, "usize", ind)
            if nt != "usize":
                self.err(e, "repeat count that is not a usize")
            return f"Array.replicate (UInt64.toNat {P(n)}) {P(x)}", ("Vec" if getattr(e, "vec", False) else "array", t)
        if k == "structlit":
            name = self.cur.self_ty if e.name == "Self" else e.name
            if name not in self.structs:
                self.err(e, f"struct literal of `{name}`")
            decl = self.structs[name]
            if sorted(f for f, _ in e.fields) != sorted(f for f, _ in decl):
                self.err(e, f"struct literal of {name}: fields do not match the declaration")
            vals = {}
            for f, x in e.fields:                      # Rust evaluates the field initialisers in SOURCE order
                vals[f], vt = self.ex(x, env, out, dict(decl)[f], ind)
                self.expect(x, vt, dict(decl)[f])
            return "{ " + ", ".join(f"f_{f} := {vals[f]}" for f, _ in decl) + " }", name
        if k == "matches":
            x, t = self.ex(e.e, env, out, None, ind)
            if not (e.pat[0] == "path" and len(e.pat[1]) == 2 and t in self.enums
                    and (self.cur.self_ty if e.pat[1][0] == "Self" else e.pat[1][0]) == t and e.pat[1][1] in self.enums[t]):
                self.err(e, "`matches!` is supported only with a variant of the scrutinee's field-less enum")
            return f"(match {x} with | {t}.{e.pat[1][1]} => true | _ => false)", "bool"
        if k == "call":
            return self.call(e, env, out, exp, ind, bind)
        if k == "mcall":
            return self.mcall(e, env, out, exp, ind, bind)
        if k == "if" and e.el is not None:
            # value `if` with pure, statement-free branches
            c, _ = self.ex(e.c, env, out, "bool", ind)
            if e.th.stmts or e.el.stmts or e.th.tail is None or e.el.tail is None:
                self.err(e, "value `if` with statements in a branch (outside the supported subset of this stage)")
            s1, s2 = [], []
            a, ta = self.ex(e.th.tail, env, s1, exp, ind)
            b, tb = self.ex(e.el.tail, env, s2, ta, ind)
            if s1 or s2:
                self.err(e, "value `if` with a panicking branch (outside the supported subset of this stage)")
            return f"(if {c} then {a} else {b})", ta
        self.err(e, f"expression kind `{k}` is outside the supported subset")

    def expect(self, e, got, want):
        if got != want:
            self.err(e, f"type mismatch: {show(got)} where {show(want)} is expected")

    def call_fn(self, e, lean, params, ret, may_panic, args, env, out, ind, bind, recv=None):
        """plain (non-&mut) call of a translated function"""
        ts = []
        if recv is not None:
            ts.append(self.par(recv))
        ps = params[1:] if recv is not None else params
        if len(ps) != len(args):
            self.err(e, f"call of {lean}: arity")
        for a, (pn, pt, pm) in zip(args, ps):
            x, t = self.ex(a, env, out, pt, ind)
            self.expect(a, t, pt)
            ts.append(self.par(x))
        term = " ".join([lean] + ts)
        if may_panic:
            return bind(term, ret)
        return term, ret

    def call(self, e, env, out, exp, ind, bind):
        segs, args = e.fn, e.args
        P = self.par
        if segs == ["Some"] and len(args) == 1:
            want = exp[1] if isinstance(exp, tuple) and exp[0] == "Option" else None
            x, t = self.ex(args[0], env, out, want, ind)
            return f"some {P(x)}", ("Option", t)
        if segs == ["MoveResult"] and len(args) == 2:
            a, ta = self.ex(args[0], env, out, "Move", ind)
            b, tb = self.ex(args[1], env, out, "State", ind)
            self.expect(args[0], ta, "Move")
            self.expect(args[1], tb, "State")
            return f"({a}, {b})", "MoveResult"
        if segs == ["HashMap", "new"] and not args:
            if not (isinstance(exp, tuple) and exp[0] == "HashMap"):
                self.err(e, "`HashMap::new()` of undetermined type")
            return "TTPrim.HashMap.new", exp
        if len(segs) == 2:
            st = self.cur.self_ty if segs[0] == "Self" else segs[0]
            fi = self.fns.get((st, segs[1]))
            if fi is not None:
                if fi.may_panic is None:
                    self.err(e, f"call of {fi.lean} before its translation (order of the table)")
                if fi.has_self:
                    self.err(e, f"path call of the method {fi.lean}")
                return self.call_fn(e, fi.lean, fi.params, fi.ret, fi.may_panic, args, env, out, ind, bind)
            if (st, segs[1]) in EARLIER:
                f = self.earlier((st, segs[1]))
                ps = [(p, norm(t), m) for p, t, m in f.params]
                if f.mutparam:
                    self.err(e, f"{f.lean}: `&mut` parameter")
                return self.call_fn(e, f.lean, ps, norm(f.ret), f.may_panic, args, env, out, ind, bind)
        self.err(e, f"call of `{'::'.join(segs)}` is outside the supported subset (unknown callee)")

    def closure_of(self, e, arg, n):
        if arg.k != "closure" or len(arg.params) != n:
            self.err(e, f"a closure with {n} parameter(s) is expected")
        return arg

    def mcall(self, e, env, out, exp, ind, bind):
        n, args, recv = e.name, e.args, e.recv
        P = self.par
        # ---- iterator chains
        if n == "find_map" and recv.k == "mcall" and recv.name == "iter" and not recv.args and len(args) == 1:
            cl = self.closure_of(e, args[0], 1)
            xs, t = self.ex(recv.recv, env, out, None, ind)
            if not (isinstance(t, tuple) and t[0] in ("array", "Vec")):
                self.err(e, f"`.iter()` on {show(t)}")
            if not (isinstance(exp, tuple) and exp[0] == "Option"):
                self.err(e, "`find_map` with an undetermined result type")
            env2 = dict(env)
            env2[cl.params[0]] = t[1]
            body = cl.body if cl.body.k == "block" else N("block", cl.line, stmts=[], tail=cl.body)
            lines = self.block_lines(body, env2, Ctx("closure", exp, False, False), ind + "    ")
            return (f"List.findSome? (fun ({R.mangle(cl.params[0])} : {self.lty(t[1])}) =>\n" + "\n".join(lines)
                    + f") (Array.toList {P(xs)})"), exp
        if n == "sum" and not args and recv.k == "mcall" and recv.name == "map" and len(recv.args) == 1 \
                and recv.recv.k == "mcall" and recv.recv.name == "iter" and not recv.recv.args:
            cl = self.closure_of(e, recv.args[0], 1)
            xs, t = self.ex(recv.recv.recv, env, out, None, ind)
            if not (isinstance(t, tuple) and t[0] in ("array", "Vec")):
                self.err(e, f"`.iter()` on {show(t)}")
            env2 = dict(env)
            env2[cl.params[0]] = t[1]
            sub = []
            if cl.body.k == "block":
                self.err(e, "`.map(|t| e).sum()`: the closure body must be a single expression")
            b, bt = self.ex(cl.body, env2, sub, exp, ind)
            if bt != "usize":
                self.err(e, f"`.sum()` over {show(bt)} (only usize)")
            if sub:
                # a panicking closure: the mapped list is built with `List.mapM` (in the `Panics` monad the interleaving of the
                # lazy `map` with the additions of `sum` is not observable: any panic is THE panic)
                body = "; ".join(x.strip() for x in sub)
                ms = self.fresh()
                out.append(f"{ind}let {ms} ← List.mapM (fun ({R.mangle(cl.params[0])} : {self.lty(t[1])}) => do {body}; pure {P(b)}) (Array.toList {P(xs)})")
                return bind(f"TTPrim.usize_sum {ms}", "usize")
            return bind(f"TTPrim.usize_sum (List.map (fun ({R.mangle(cl.params[0])} : {self.lty(t[1])}) => {b}) (Array.toList {P(xs)}))", "usize")
        if n == "collect" and not args and recv.k == "mcall" and recv.name == "map" and len(recv.args) == 1 \
                and recv.args[0].k == "path" and recv.args[0].segs == ["RwLock", "new"] \
                and recv.recv.k == "mcall" and recv.recv.name == "into_iter" and not recv.recv.args:
            xs, t = self.ex(recv.recv.recv, env, out, None, ind)
            if not (isinstance(t, tuple) and t[0] == "Vec"):
                self.err(e, f"`.into_iter()` on {show(t)}")
            return xs, ("Vec", ("RwLock", t[1]))
        # ---- locks
        if n == "unwrap" and not args and recv.k == "mcall" and recv.name in ("read", "write") and not recv.args:
            x, t = self.ex(recv.recv, env, out, None, ind)
            if not (isinstance(t, tuple) and t[0] == "RwLock"):
                self.err(e, f"`.{recv.name}()` on {show(t)} (only RwLock)")
            return x, t[1]
        if n in ("read", "write"):
            self.err(e, f"`.{n}()` is supported only as `.{n}().unwrap()` on a RwLock")
        # ---- small std methods
        if n in ("clone", "copied") and not args:
            return self.ex(recv, env, out, exp, ind)
        if n == "len" and not args:
            x, t = self.ex(recv, env, out, None, ind)
            if not (isinstance(t, tuple) and t[0] in ("array", "Vec")):
                self.err(e, f"`.len()` on {show(t)}")
            return f"TTPrim.len {P(x)}", "usize"
        if n == "get" and len(args) == 1:
            x, t = self.ex(recv, env, out, None, ind)
            if isinstance(t, tuple) and t[0] == "HashMap":
                kx, kt = self.ex(args[0], env, out, t[1][1][0], ind)
                self.expect(args[0], kt, t[1][1][0])
                return f"TTPrim.HashMap.get {P(x)} {P(kx)}", ("Option", t[1][1][1])
            self.err(e, f"`.get()` on {show(t)}")
        # ---- translated methods
        x, t = None, None
        sub_out = out
        rx, rt = self.ex(recv, env, out, None, ind)
        fi = self.fns.get((rt, n)) if isinstance(rt, str) else None
        if fi is not None:
            if fi.may_panic is None:
                self.err(e, f"call of {fi.lean} before its translation (order of the table)")
            if not fi.has_self:
                self.err(e, f"method call of the associated function {fi.lean}")
            if not fi.mutself:
                return self.call_fn(e, fi.lean, fi.params, fi.ret, fi.may_panic, args, env, out, ind, bind, recv=rx)
            # `&mut self` (or write-locked) method: apply, then write the new value back to the receiver place
            if out is None:
                self.err(e, "internal: `&mut self` call in a pure context")
            ts = [P(rx)]
            if len(fi.params) - 1 != len(args):
                self.err(e, f"call of {fi.lean}: arity")
            for a, (pn, pt, pm) in zip(args, fi.params[1:]):
                ax, at = self.ex(a, env, out, pt, ind)
                self.expect(a, at, pt)
                ts.append(P(ax))
            term = " ".join([fi.lean] + ts)
            r = self.fresh()
            out.append(f"{ind}let {r} {'←' if fi.may_panic else ':='} {term}")
            if fi.ret == "unit":
                self.write_place(recv, r, env, out, ind)
                return "()", "unit"
            self.write_place(recv, f"{r}.2", env, out, ind)
            return f"{r}.1", fi.ret
        if isinstance(rt, str) and (rt, n) in EARLIER:
            f = self.earlier((rt, n))
            if f.mutparam:
                self.err(e, f"{f.lean}: `&mut self`")
            ps = [(p, norm(t), m) for p, t, m in f.params]
            return self.call_fn(e, f.lean, ps, norm(f.ret), f.may_panic, args, env, out, ind, bind, recv=rx)
        self.err(e, f"method `.{n}()` on {show(rt)} is outside the supported subset (unknown callee)")

    # ---- statements (continuation passing) ----------------------------------------------------------
    def finish(self, ctx, val, env):
        """the line that ends a body with value `val` (a Lean term or None for unit)"""
        if ctx.kind == "loop":
            st = self.state_term(ctx.state)
            return f"pure (Early.cont {st})" if ctx.mon else f"Early.cont {st}"
        return self.ret_line(ctx, val, env)

    def ret_line(self, ctx, val, env):
        if ctx.kind == "loop":
            v = self.ret_value(ctx.fn_ctx, val)
            return f"pure (Early.ret {self.par(v)})"
        v = self.ret_value(ctx, val)
        return f"pure {self.par(v)}" if ctx.mon else v

    def ret_value(self, ctx, val):
        if ctx.mutself:
            if val is None or ctx.ret_ty == "unit":
                return "self"
            return f"({val}, self)"
        return val if val is not None else "()"

    def state_term(self, vs):
        if not vs:
            return "()"
        if len(vs) == 1:
            return R.mangle(vs[0])
        return "(" + ", ".join(R.mangle(v) for v in vs) + ")"

    def block_lines(self, b, env, ctx, ind):
        saved = self.ind
        lines = self.seq(list(b.stmts), b.tail, dict(env), ctx, ind)
        self.ind = saved
        return lines

    def seq(self, stmts, tail, env, ctx, ind):
        """lines of a body: `stmts`, then `tail` (value) or unit, then the completion of `ctx`"""
        self.ind = ind
        out = []
        m = out if ctx.mon else None
        if not stmts:
            if tail is None:
                out.append(ind + self.finish(ctx, None, env))
                return out
            if tail.k in ("if", "iflet", "match") and self.is_stmt_like(tail):
                return self.branchy(tail, [], None, env, ctx, ind)
            if tail.k == "continue":
                if ctx.kind != "loop":
                    self.err(tail, "`continue` outside a loop")
                out.append(ind + self.finish(ctx, None, env))
                return out
            want = ctx.ret_ty if ctx.kind != "loop" else "unit"
            x, t = self.ex(tail, env, m, want, ind)
            if ctx.kind != "loop":
                self.expect(tail, t, ctx.ret_ty)
            out.append(ind + self.finish(ctx, None if t == "unit" else x, env))
            return out
        s, rest = stmts[0], stmts[1:]
        k = s.k
        if k == "let":
            ann = norm(s.ann) if s.ann is not None else None
            x, t = self.ex(s.init, env, m, ann, ind)
            if ann is not None:
                self.expect(s.init, t, ann)
            if s.name in self.alias:
                self.err(s, f"`{s.name}` re-declared while it names a loop element")
            env[s.name] = t
            out.append(f"{ind}let {R.mangle(s.name)} : {self.lty(t)} := {x}")
            return out + self.seq(rest, tail, env, ctx, ind)
        if k == "assert":
            c, _ = self.ex(s.cond, env, m, "bool", ind)
            if m is None:
                self.err(s, "internal: pure context")
            out.append(f"{ind}TTPrim.assert {self.par(c)}")
            return out + self.seq(rest, tail, env, ctx, ind)
        if k == "return":
            if ctx.kind == "closure":
                fctx = ctx
            elif ctx.kind == "loop":
                fctx = ctx
            else:
                fctx = ctx
            rty = (ctx.fn_ctx.ret_ty if ctx.kind == "loop" else ctx.ret_ty)
            val = None
            if s.e is not None:
                val, t = self.ex(s.e, env, m, rty, ind)
                self.expect(s.e, t, rty)
            elif rty != "unit":
                self.err(s, "`return;` in a function with a result")
            out.append(ind + self.ret_line(fctx, val, env))
            return out
        if k == "letelse":
            x, t = self.ex(s.init, env, m, None, ind)
            if not (isinstance(t, tuple) and t[0] == "Option" and s.pat[0] == "some" and s.pat[1][0] == "bind"):
                self.err(s, "`let .. else` is supported only as `let Some(x) / Ok(x) = <Option / Result> else { .. }`")
            if not self.diverges(s.els):
                self.err(s, "the `else` block of `let .. else` must end with `return`")
            v = s.pat[1][1]
            out.append(f"{ind}match {x} with")
            out.append(f"{ind}| none =>{' do' if ctx.mon else ''}")
            out.extend(self.seq(list(s.els.stmts), s.els.tail, dict(env), ctx, ind + "  "))
            out.append(f"{ind}| some {R.mangle(v)} =>{' do' if ctx.mon else ''}")
            env2 = dict(env)
            env2[v] = t[1]
            out.extend(self.seq(rest, tail, env2, ctx, ind + "  "))
            return out
        if k == "assign":
            self.assign(s, env, m, ind)
            return out + self.seq(rest, tail, env, ctx, ind)
        if k == "exprstmt":
            e = s.e
            if e.k == "continue":
                if ctx.kind != "loop":
                    self.err(e, "`continue` outside a loop")
                out.append(ind + self.finish(ctx, None, env))
                return out
            if e.k in ("if", "iflet", "match"):
                return self.branchy(e, rest, tail, env, ctx, ind)
            if e.k == "for":
                return self.for_loop(e, rest, tail, env, ctx, ind)
            if e.k == "mcall":
                x, t = self.ex(e, env, m, None, ind)
                if t != "unit":
                    self.err(s, "expression statement with a discarded value")
                return out + self.seq(rest, tail, env, ctx, ind)
            self.err(s, "expression statement without a supported effect")
        self.err(s, f"statement kind `{k}` is outside the supported subset")

    def is_stmt_like(self, e):
        """an `if`/`match` in tail position that must be emitted branch by branch (statements, early exits, no else)"""
        if e.k == "if":
            return True
        return True

    def diverges(self, b):
        if b.stmts and b.stmts[-1].k == "return":
            return True
        if b.tail is not None and b.tail.k == "continue":
            return True
        if b.stmts and b.stmts[-1].k == "exprstmt" and b.stmts[-1].e.k == "continue":
            return True
        return False

    def assign(self, s, env, m, ind):
        p = s.place
        if s.op == "=":
            _, pt = self.place_type(p, env)
            v, t = self.ex(s.rhs, env, m, pt, ind)
            self.expect(s.rhs, t, pt)
            self.write_place(p, v, env, m if m is not None else self.pure_out(s), ind)
            return
        if s.op == "+=":
            # `*m.entry(k).or_insert(d) += v`
            q = p
            if q.k == "un" and q.op == "*" and q.e.k == "mcall" and q.e.name == "or_insert" and len(q.e.args) == 1 \
                    and q.e.recv.k == "mcall" and q.e.recv.name == "entry" and len(q.e.recv.args) == 1:
                mp = q.e.recv.recv
                mx, mt = self.ex(mp, env, m, None, ind)
                if not (isinstance(mt, tuple) and mt[0] == "HashMap"):
                    self.err(s, f"`.entry()` on {show(mt)}")
                kt, vt = mt[1][1]
                kx, kt2 = self.ex(q.e.recv.args[0], env, m, kt, ind)
                self.expect(s, kt2, kt)
                dx, dt = self.ex(q.e.args[0], env, m, vt, ind)
                self.expect(s, dt, vt)
                rx, rt = self.ex(s.rhs, env, m, vt, ind)
                self.expect(s, rt, vt)
                if m is None:
                    self.err(s, "internal: pure context")
                t = self.fresh()
                m.append(f"{ind}let {t} ← {INT_LEAN[vt]}.checked_add (Option.getD (TTPrim.HashMap.get {self.par(mx)} {self.par(kx)}) {self.par(dx)}) {self.par(rx)}")
                self.write_place(mp, f"TTPrim.HashMap.insert {self.par(mx)} {self.par(kx)} {t}", env, m, ind)
                return
            cur, pt = self.ex(p, env, m, None, ind)
            if pt not in INT_LEAN:
                self.err(s, f"`+=` on {show(pt)}")
            v, t = self.ex(s.rhs, env, m, pt, ind)
            self.expect(s.rhs, t, pt)
            if m is None:
                self.err(s, "internal: pure context")
            r = self.fresh()
            m.append(f"{ind}let {r} ← {INT_LEAN[pt]}.checked_add {self.par(cur)} {self.par(v)}")
            self.write_place(p, r, env, m, ind)
            return
        self.err(s, f"`{s.op}` not supported")

    def pure_out(self, s):
        self.err(s, "internal: assignment in a pure context")

    def place_type(self, p, env):
        x, t = self.ex(p, env, [], None, "")
        return x, t

    def assigned_roots(self, b, local):
        """outer variables assigned in block `b` (root variables of assignment places and of `&mut self` calls)"""
        acc = []
        for x in self.walk(b):
            r = None
            if x.k == "assign":
                r = self.root_var(x.place)
            elif x.k == "mcall":
                # a `&mut self` method called on a place
                for (st, n), f in self.fns.items():
                    if n == x.name and f.mutself:
                        r = self.root_var(x.recv)
            if r is not None and r not in local and r not in acc:
                acc.append(r)
        return acc

    def branchy(self, e, rest, tail, env, ctx, ind):
        """statement `if` / `if let` / `match`: the continuation (`rest`, `tail`) is emitted inside every branch that falls through"""
        out = []
        m = out if ctx.mon else None
        do = " do" if ctx.mon else ""

        def cont(b, env2, ind2):
            # body of the branch followed by the continuation; a branch value (when this is the tail) is the block's tail
            if not rest and tail is None:
                return self.seq(list(b.stmts), b.tail, env2, ctx, ind2)
            if b.tail is not None and b.tail.k != "continue" and not (b.tail.k in ("if", "iflet", "match")):
                self.err(b.tail, "value of a statement branch is discarded")
            stmts = list(b.stmts)
            if b.tail is not None and b.tail.k != "continue":
                stmts.append(N("exprstmt", b.tail.line, e=b.tail))
            if self.diverges(b):
                return self.seq(list(b.stmts), b.tail, env2, ctx, ind2)
            # names declared in the branch must not leak into the continuation: reject shadowing of names the rest uses
            decl = {s.name for s in stmts if s.k == "let"}
            if decl:
                used = {x.segs[0] for r in rest + ([tail] if tail is not None else []) for x in self.walk(r)
                        if x.k == "path" and len(x.segs) == 1}
                if decl & used:
                    self.err(e, f"a branch declares {sorted(decl & used)} which the following statements use (scoping)")
            return self.seq(stmts + rest, tail, env2, ctx, ind2)

        empty = N("block", e.line, stmts=[], tail=None)
        if e.k == "if":
            c, _ = self.ex(e.c, env, m, "bool", ind)
            out.append(f"{ind}if {c} then{do}")
            out.extend(cont(e.th, dict(env), ind + "  "))
            out.append(f"{ind}else{do}")
            out.extend(cont(e.el if e.el is not None else empty, dict(env), ind + "  "))
            return out
        if e.k == "iflet":
            arms = [N("arm", e.line, pat=e.pat, body=e.th, guard=None),
                    N("arm", e.line, pat=("wild",), body=e.el if e.el is not None else empty, guard=None)]
            scrut = e.scrut
        else:
            arms, scrut = e.arms, e.scrut
        x, t = self.ex(scrut, env, m, None, ind)
        if not (isinstance(t, tuple) and t[0] == "Option"):
            self.err(e, f"`match` / `if let` on {show(t)} (only Option / Result scrutinees)")
        sv = self.fresh()
        out.append(f"{ind}let {sv} : {self.lty(t)} := {x}")
        out.append(f"{ind}match {sv} with")
        done = set()
        for i, a in enumerate(arms):
            ctor = a.pat[0]
            if ctor in ("wild", "bind"):
                cases = [c for c in ("none", "some") if c not in done]
            elif ctor in ("none", "some"):
                cases = [ctor] if ctor not in done else []
            else:
                self.err(e, "unsupported pattern in a `match` on an Option")
            for c in cases:
                env2 = dict(env)
                if c == "none":
                    out.append(f"{ind}| none =>{do}")
                    pre = []
                    if ctor == "bind":
                        env2[a.pat[1]] = t
                        pre.append(f"{ind}  let {R.mangle(a.pat[1])} : {self.lty(t)} := {sv}")
                    if a.guard is not None:
                        self.err(e, "guard on a `None` / catch-all arm")
                    out.extend(pre)
                    out.extend(cont(a.body, env2, ind + "  "))
                    done.add("none")
                else:
                    pv = self.fresh()
                    out.append(f"{ind}| some {pv} =>{do}")
                    pre = []
                    if ctor == "some":
                        self.bind_pat(a.pat[1], pv, t[1], env2, pre, ind + "  ", e)
                    elif ctor == "bind":
                        env2[a.pat[1]] = t
                        pre.append(f"{ind}  let {R.mangle(a.pat[1])} : {self.lty(t)} := {sv}")
                    out.extend(pre)
                    if a.guard is None:
                        if ctor == "some" and not self.irrefutable(a.pat[1]):
                            self.err(e, "refutable sub-pattern")
                        out.extend(cont(a.body, env2, ind + "  "))
                        done.add("some")
                    else:
                        if ctor != "some":
                            self.err(e, "guard on a catch-all arm")
                        later = [b for b in arms[i + 1:] if b.guard is None and
                                 (b.pat[0] in ("wild", "bind") or (b.pat[0] == "some" and self.irrefutable(b.pat[1])))]
                        if not later or any(b.guard is not None for b in arms[i + 1:arms.index(later[0])] if b.pat[0] != "none"):
                            self.err(e, "a guarded arm must be followed by an unguarded irrefutable arm for the same constructor")
                        fb = later[0]
                        g, _ = self.ex(a.guard, env2, None, "bool", ind + "  ")
                        out.append(f"{ind}  if {g} then{do}")
                        out.extend(cont(a.body, dict(env2), ind + "    "))
                        out.append(f"{ind}  else{do}")
                        env3 = dict(env)
                        pre3 = []
                        if fb.pat[0] == "some":
                            self.bind_pat(fb.pat[1], pv, t[1], env3, pre3, ind + "    ", e)
                        elif fb.pat[0] == "bind":
                            env3[fb.pat[1]] = t
                            pre3.append(f"{ind}    let {R.mangle(fb.pat[1])} : {self.lty(t)} := {sv}")
                        out.extend(pre3)
                        out.extend(cont(fb.body, env3, ind + "    "))
                        done.add("some")
            if done == {"none", "some"}:
                break
        if done != {"none", "some"}:
            self.err(e, "non-exhaustive `match`")
        return out

    def irrefutable(self, p):
        return p[0] in ("wild", "bind") or (p[0] == "tuple" and all(self.irrefutable(q) for q in p[1]))

    def bind_pat(self, p, term, ty, env, pre, ind, e):
        if p[0] == "wild":
            return
        if p[0] == "bind":
            env[p[1]] = ty
            pre.append(f"{ind}let {R.mangle(p[1])} : {self.lty(ty)} := {term}")
            return
        if p[0] == "tuple" and isinstance(ty, tuple) and ty[0] == "tuple" and len(p[1]) == len(ty[1]) == 2:
            self.bind_pat(p[1][0], f"{term}.1", ty[1][0], env, pre, ind, e)
            self.bind_pat(p[1][1], f"{term}.2", ty[1][1], env, pre, ind, e)
            return
        self.err(e, "unsupported pattern")

    def for_loop(self, e, rest, tail, env, ctx, ind):
        """`for x in PLACE.iter_mut() { body }` (with `return` / `continue`)"""
        it = e.it
        if not (it.k == "mcall" and it.name == "iter_mut" and not it.args and e.pat[0] == "bind"):
            self.err(e, "`for` is supported only as `for x in <place>.iter_mut()` in this stage")
        if ctx.kind != "fn" or not ctx.mon:
            self.err(e, "loop inside a closure / nested loop / pure function")
        root = self.root_var(it.recv)
        if root is None or root not in env:
            self.err(e, "`iter_mut()` on something that is not a place of a local")
        x = e.pat[1]
        if x in env or x in self.alias:
            self.err(e, f"loop variable `{x}` shadows a local")
        out = []
        arr, at = self.ex(it.recv, env, out, None, ind)
        if not (isinstance(at, tuple) and at[0] in ("array", "Vec")):
            self.err(e, f"`.iter_mut()` on {show(at)}")
        ivar = self.fresh()
        self.alias[x] = (it.recv, ivar)
        vs = self.assigned_roots(e.body, [])
        if root not in vs:
            vs.append(root)
        for v in vs:
            if v not in env:
                self.err(e, f"the loop assigns `{v}` which is not a local")
        sty = "(" + " × ".join(self.lty(env[v], True) for v in vs) + ")" if len(vs) > 1 else self.lty(env[vs[0]])
        rty = self.lty(ctx.ret_ty) if not ctx.mutself else (
            self.lty(env["self"]) if ctx.ret_ty == "unit" else f"({self.lty(ctx.ret_ty, True)} × {self.lty(env['self'], True)})")
        lctx = Ctx("loop", "unit", True, ctx.mutself, state=vs)
        lctx.fn_ctx = ctx
        r = self.fresh()
        sname = R.mangle(vs[0]) if len(vs) == 1 else "loop_state"
        out.append(f"{ind}let {r} : Early {self.par(rty)} {self.par(sty)} ← TTPrim.for_early (fun ({sname} : {sty}) ({ivar} : Nat) => do")
        ind2 = ind + "    "
        if len(vs) > 1:
            for i, v in enumerate(vs):
                prj = f"loop_state.{i + 1}" if i < len(vs) - 1 or len(vs) == 2 else f"loop_state.{i + 1}"
                if len(vs) != 2:
                    self.err(e, "loops that assign more than two variables are outside the supported subset")
                out.append(f"{ind2}let {R.mangle(v)} : {self.lty(env[v])} := {prj}")
        body_lines = self.seq(list(e.body.stmts), e.body.tail, dict(env), lctx, ind2)
        out.extend(body_lines)
        out[-1] = out[-1] + f") (List.range (Array.size {self.par(arr)})) {self.state_term(vs)}"
        del self.alias[x]
        out.append(f"{ind}match {r} with")
        rv = self.fresh()
        out.append(f"{ind}| Early.ret {rv} => pure {rv}")
        cv = self.fresh()
        out.append(f"{ind}| Early.cont {cv} => do")
        if len(vs) == 1:
            out.append(f"{ind}  let {R.mangle(vs[0])} : {self.lty(env[vs[0]])} := {cv}")
        else:
            for i, v in enumerate(vs):
                out.append(f"{ind}  let {R.mangle(v)} : {self.lty(env[v])} := {cv}.{i + 1}")
        out.extend(self.seq(rest, tail, env, ctx, ind + "  "))
        return out

    # ---- items ------------------------------------------------------------------------------------
    def emit_fn(self, fi):
        self.cur = fi
        self.alias = {}
        self.ntmp = 0
        self.ind = "  "
        self.analyse(fi)
        env = {}
        ps = []
        for p, t, mode in fi.params:
            env[p] = fi.self_ty if p == "self" else t
            ps.append(f"({R.mangle(p)} : {self.lty(env[p])})")
        ctx = Ctx("fn", fi.ret, fi.may_panic, fi.mutself)
        for x in self.walk(fi.body):
            if x.k in ("let",) and re.fullmatch(r"tmp\d+|loop_state", x.name):
                fail(f"{SEARCHER}: identifier {x.name} clashes with generated temporaries")
        if fi.mutself:
            rt = self.lty(fi.self_ty) if fi.ret == "unit" else f"({self.lty(fi.ret, True)} × {self.lty(fi.self_ty, True)})"
        else:
            rt = self.lty(fi.ret)
        lines = self.block_lines(fi.body, env, ctx, "  ")
        hdr = f"/-- `{SEARCHER}` `{fi.self_ty}::{fi.name}` (line {fi.line}) -/\n"
        sig = f"def {fi.lean} {' '.join(ps)} : ".replace("  ", " ")
        if fi.may_panic:
            return hdr + sig + f"Panics {self.par(rt)} := do\n" + "\n".join(lines)
        return hdr + sig + f"{rt} :=\n" + "\n".join(lines)

    def emit_struct(self, name, derives):
        fields = self.structs[name]
        out = [f"/-- `{SEARCHER}` `struct {name}` (derive: {', '.join(derives) if derives else 'none'}) -/",
               f"structure {name} where"]
        for f, t in fields:
            out.append(f"  f_{f} : {self.lty(t)}")
        return "\n".join(out)

    def emit_enum(self, name):
        out = [f"/-- `{SEARCHER}` `enum {name}` -/", f"inductive {name} where"]
        for v in self.enums[name]:
            out.append(f"  | {v}")
        out.append("deriving DecidableEq, Repr, Inhabited")
        return "\n".join(out)

    def run(self):
        self.check_decls()
        self.collect_decls()
        self.collect_fns()
        out = [f"-- GENERATED by tools/rs2lean_tt.py from {SEARCHER}; do not edit.",
               "import Wee.Gen.CoreFns",
               "import Wee.Model.F32",
               "/-!",
               "# Lean definitions translated from the Rust source text, stage 3c (search memory: transposition table, repetition history)",
               "",
               "Every `def`/`structure`/`inductive` below the prelude is produced from the text of one Rust item; the prelude is the fixed,",
               "trusted vocabulary.  `Wee/Proofs/TTFnsBridge.lean` proves these functions equal to the hand-written model",
               "(`Wee/Model/TT.lean`, `walkLine` of `Wee/Model/Search.lean`).  Functions of stages 1 and 2 are used by name.",
               "-/",
               "set_option linter.unusedVariables false",
               "namespace Wee.GenFns",
               "open Wee",
               PRELUDE.strip("\n"),
               "",
               "/-! ## Translated declarations -/",
               ""]
        for name in ENUMS:
            out.append(self.emit_enum(name))
            out.append("")
        for it in self.items:
            if it[0] == "struct":
                out.append(self.emit_struct(it[1], it[2]))
                out.append("")
        out.append("/-! ## Translated items -/")
        out.append("")
        for it in self.items:
            if it[0] == "const":
                ty, lean, v = self.consts[(it[1], it[2])]
                out.append(f"/-- `{SEARCHER}` `{it[1]}::{it[2]}` -/\ndef {lean} : {INT_LEAN[ty]} := {v}")
                out.append("")
            elif it[0] == "fn":
                out.append(self.emit_fn(it[1]))
                out.append("")
        out.append("/-! ## Side conditions checked by the translator")
        for k2, v in sorted(self.sizeofs.items()):
            out.append(f"* layout: size_of::<{k2}>() = {v} (64-bit target, rustc layout of repr(Rust) types; trusted, see the tool header)")
        for n in self.notes:
            out.append(f"* {n}")
        out.append("-/")
        out.append("end Wee.GenFns")
        return "\n".join(out) + "\n"


def main():
    ap = argparse.ArgumentParser()
    ap.add_argument("--repo", default=os.environ.get("WEE_REPO", "/repo"))
    ap.add_argument("--out", default=DEFAULT_OUT)
    ap.add_argument("--check", action="store_true", help="do not write; exit 1 if the file would change")
    a = ap.parse_args()
    try:
        t1 = R.Translator(a.repo)
        t1.run()                                   # stage 1, unchanged (its output is not written here)
        R2.install()
        e2 = R2.Emitter2(a.repo, t1)
        e2.run2()                                  # stage 2 (registry, panic analysis); its text is discarded
        text = TT(a.repo, e2).run()
    except TieBroken as ex:
        print(f"TIE-BROKEN {TAG}: {ex}")
        sys.exit(2)
    old = None
    if os.path.exists(a.out):
        with open(a.out) as f:
            old = f.read()
    changed = old != text
    if a.check:
        print('{"changed": %s}' % ("true" if changed else "false"))
        sys.exit(1 if changed else 0)
    if changed:
        os.makedirs(os.path.dirname(a.out), exist_ok=True)
        with open(a.out, "w") as f:
            f.write(text)
    print('{"changed": [%s]}' % ('"TTFns.lean"' if changed else ""))


if __name__ == "__main__":
    main()
