#!/usr/bin/env python3
"""Builds corpus/heavy_positions.txt: legal positions with very many legal moves (queen-rich; > 100, up to 218)."""
import os, sys, random
sys.path.insert(0, os.path.dirname(os.path.abspath(__file__)))
import wee, props
from gen_underpromo import fen_of  # noqa

def main():
    seed, trials = int(sys.argv[1]), int(sys.argv[2])
    rnd = random.Random(seed)
    cands = []
    for _ in range(trials):
        white = rnd.random() < 0.5
        cells = {}
        def put(ch, pred=lambda s: True):
            for _ in range(80):
                s = rnd.randrange(64)
                if s not in cells and pred(s):
                    cells[s] = ch
                    return s
        put("K"); put("k")
        us = (lambda c: c) if white else (lambda c: c.swapcase())
        for _ in range(rnd.randrange(5, 10)):
            put(us("Q"))
        for ch in rnd.sample(["R", "R", "B", "B", "N", "N"], rnd.randrange(0, 5)):
            put(us(ch))
        for ch in rnd.sample(["p", "p", "n", "b", "r", "q"], rnd.randrange(0, 4)):
            put(us(ch), lambda s: 0 < s // 8 < 7)
        cands.append(fen_of(cells, "w" if white else "b"))
    legal, _, _ = wee.run_driver(["legalpos " + f for f in cands], jobs=8)
    cands = [f for f, (m, s) in zip(cands, legal) if s == "1"]
    mm = props.model_moves(cands)
    heavy = sorted(((len(ms), f) for f, ms in mm if len(ms) > 100), reverse=True)
    print(len(cands), "legal;", len(heavy), "with > 100 moves;", sum(1 for n, f in heavy if n > 128), "with > 128; max", heavy[0][0] if heavy else 0)
    keep = [f for n, f in heavy if n > 128][:40] + [f for n, f in heavy if n <= 128][:10]
    p = os.path.join(wee.VERIF, "corpus", "heavy_positions.txt")
    old = set(open(p).read().split("\n")) if os.path.exists(p) else set()
    fixed = {"R6R/3Q4/1Q4Q1/4Q3/2Q4Q/Q4Q2/pp1Q4/kBNN1KB1 w - - 0 1", "3qk3/8/8/8/8/8/8/QQQQKQQQ w - - 0 1", "qqqqkqqq/8/8/8/8/8/8/QQQQKQQQ b - - 0 1"}
    with open(p, "w") as fh:
        fh.write("\n".join(sorted((old | set(keep) | fixed) - {""})) + "\n")


if __name__ == "__main__":
    main()
