#!/bin/bash
# re-run every claimed quick check on the CLEAN tree so that the committed evidence files are records
# of the unchanged tree (runs against seeded changes rewrite them)
cd /verif
if [ -n "$(git -C /repo status --short)" ]; then echo "/repo working tree is not clean"; exit 2; fi
fail=0
for p in $(python3 -c "import json; print(' '.join(c['property_id'] for c in json.load(open('MANIFEST.json'))['checks']))"); do
  out=$(./check $p quick 2>&1 | tail -1)
  echo "$out"
  case "$out" in *"exit 0"*) ;; *) fail=1;; esac
done
exit $fail
