#!/usr/bin/env python3
"""Tie (a) for FUNCTIONS, stage 6: the code of `Searcher::analyze_iterative` AROUND its iteration loop (`weechess-engine/src/searcher.rs`).

    python3 tools/rs2lean_iterate.py [--repo DIR] [--out FILE] [--check]

Imports `tools/rs2lean_search.py` (and through it the earlier stages) as a module; none is modified.  Stage 4a/4e is RUN in this process
(a broken loop fragment breaks this stage as well) and the loop is called BY ITS GENERATED NAME `Searcher.analyze_iterative.loop` (head
checked in the committed `lean/Wee/Gen/SearchFns.lean` and in the text stage 4e produces now).  Output: `lean/Wee/Gen/IterateFns.lean`
(namespace `Wee.GenFns`); `Wee/Proofs/IterateFnsBridge.lean` proves the generated `Searcher.analyze_iterative` to refine the model's
`Wee.Search.iterate`.  Anything outside the subset fails CLOSED: `TIE-BROKEN rs2lean_iterate: <reason>`, exit status 2.

======================================================================================================
TRUSTED PART 4 -- how the frame of `analyze_iterative` is read (additions to the tables of stages 3c / 4a / 4e)
------------------------------------------------------------------------------------------------------
 fragment technique                   the body of `fn analyze_iterative` is cut into its TOP-LEVEL statements (own small lexer with float
                                      literals and strings; comments dropped).  Exactly one statement must be `for depth in 0..max_depth {..}`
                                      (stage 4e's fragment: it becomes the call of the generated loop).  EVERY other statement must match one
                                      of the recognisers of `STATEMENTS` below (whole-statement patterns over the token text; the captured
                                      parts -- constants, the comparison, the literal -- are translated), and is emitted IN SOURCE ORDER.
                                      A statement no recogniser knows, a statement using a variable that is not bound at that point, a loop
                                      reached before all of its parameters are bound: broken tie.
 cells (monad `Iter5M`)               `rng` (`let mut rng = rng;` -- the function's own generator: `ZobristHasher::with(&mut rng)` and the loop
                                      draw from it), the polls of `token` counted from the ENTRY of the function (0), and the calls of the
                                      callback `f` as a list of `Iter5Event`s in call order.  `transpositions` is a local: the loop gets it as
                                      its cell and the name is rebound to the cell's final value (interior mutability, stage 3c).
 the loop                             `Iter5Prim.run_loop`: stage 4e's `IM` computation runs on cells made of `rng`, the table, the poll counter
                                      and an empty event list; its events are appended (as `Iter5Event.Status`), `rng` / polls written back.
 ZobristHasher::with(&mut rng)        TRUSTED PRIMITIVE `Iter5Prim.zobrist_with` = the model's `Wee.KeyTable.ofRng` on the `rng` cell (2 + 64*16 +
                                      2*2 + 8 draws of `next_u64` in the order of the struct literal), laid out as stage 2's `ZobristHasher`.
                                      The text of `ZobristHasher::with` is PINNED (`PINNED`): an edit there is a broken tie.
 opt.map(|a| (..)).unwrap_or_else(|| {..})   `match opt with | some a => pure (..) | none => <closure body>`; the closure captures `rng` by `&mut`.
 (0..N).map(|_| e).collect()          stage 4e's `SPrim.range_map_collect` in `Panics`; integer arithmetic on `usize` = CHECKED (`*`, `/`).
 `x > lit` on f32                     `Iter5Prim.f32_gt` = `>` on the exact rationals that stage 3c's `Wee.F32` works with; the literal must be
                                      exactly representable in f32 (checked) and is written as an exact fraction.
 f(StatusEvent::Warning {..})         `Iter5M.emit (Iter5Event.Warning kind fmt args)`: the format string and the values of its arguments
                                      (`format!` itself -- the decimal rendering of an f32 -- is not modelled); fields in source order.
 usize::MAX                           2^64 - 1 (64-bit target, as everywhere).
"""
import argparse
import os
import re
import struct
import sys
from fractions import Fraction

sys.path.insert(0, os.path.dirname(os.path.abspath(__file__)))
import rs2lean as R  # noqa: E402
import rs2lean2 as R2  # noqa: E402
import rs2lean_tt as RT  # noqa: E402
import rs2lean_search as RS  # noqa: E402
from rs2lean import TieBroken  # noqa: E402

TAG = "rs2lean_iterate"
VERIF = os.path.dirname(os.path.dirname(os.path.abspath(__file__)))
GEN = os.path.join(VERIF, "lean", "Wee", "Gen")
DEFAULT_OUT = os.path.join(GEN, "IterateFns.lean")
SEARCHER = "weechess-engine/src/searcher.rs"
HASHER = "weechess-core/src/hasher.rs"
MOVES = "weechess-core/src/moves.rs"


def fail(msg):
    raise TieBroken(msg)


# declarations the readings rest on (comment-stripped text, each exactly once)
PINNED = [
    (SEARCHER, r"fn analyze_iterative<F>\(\s*game_state: State,\s*evaluator: &eval::Evaluator,\s*rng: RandomNumberGenerator,\s*max_depth: Option<usize>,\s*"
     r"token: CancellationToken,\s*previous_artifact: Option<SearchArtifact>,\s*max_thread_count: Option<usize>,\s*f: &mut F,\s*\) -> SearchArtifact\s*"
     r"where\s*F: FnMut\(StatusEvent\),\s*\{", "signature of analyze_iterative"),
    (SEARCHER, r"type RandomNumberGenerator = ChaCha8Rng;", "RandomNumberGenerator = ChaCha8Rng"),
    (SEARCHER, r"pub struct SearchArtifact \{\s*hasher: ZobristHasher,\s*transpositions: TranspositionTableAccess,\s*state_history: StateHistory,\s*\}",
     "struct SearchArtifact"),
    (SEARCHER, r"Warning \{\s*message: String,\s*kind: WarningKind,\s*\},\s*\}", "StatusEvent::Warning"),
    (SEARCHER, r"pub enum WarningKind \{\s*TranspositionTableSaturated,\s*\}", "enum WarningKind"),
    (SEARCHER, r"fn saturation\(&self\) -> f32 \{", "TranspositionTableAccess::saturation"),
    (SEARCHER, r"fn with_memory\(size_in_bytes: usize\) -> Self \{", "TranspositionTable::with_memory"),
    (SEARCHER, r"fn with_tables\(tables: Vec<TranspositionTable>\) -> Self \{", "TranspositionTableAccess::with_tables"),
    (SEARCHER, r"fn increment\(&mut self, hash: Hash\) \{", "StateHistory::increment"),
    (HASHER, r"pub fn with<R>\(rng: &mut R\) -> Self\s*where\s*R: Rng,\s*\{\s*Self \{\s*turn_hash: ArrayMap::from_fn\(\|_\| rng\.next_u64\(\)\),\s*"
     r"piece_hash: ArrayMap::from_fn\(\|_\| ArrayMap::from_fn\(\|_\| rng\.next_u64\(\)\)\),\s*"
     r"castle_hash: ArrayMap::from_fn\(\|_\| ArrayMap::from_fn\(\|_\| rng\.next_u64\(\)\)\),\s*"
     r"en_passant_hash: ArrayMap::from_fn\(\|_\| rng\.next_u64\(\)\),\s*\}\s*\}", "ZobristHasher::with (pinned text of the trusted primitive)"),
    (HASHER, r"pub struct ZobristHasher \{\s*turn_hash: ArrayMap<Color, u64>,\s*piece_hash: ArrayMap<Square, ArrayMap<PieceIndex, u64>>,\s*"
     r"castle_hash: ArrayMap<Color, ArrayMap<Side, u64>>,\s*en_passant_hash: ArrayMap<File, u64>,\s*\}", "struct ZobristHasher (field order and shapes)"),
    (HASHER, r"pub fn hash\(&self, state: &State\) -> Hash \{", "ZobristHasher::hash"),
    (MOVES, r"pub fn is_empty\(&self\) -> bool \{\s*self\.0\.is_empty\(\)\s*\}", "MoveSet::is_empty"),
]
EXTERN_HEADS = {
    "SearchFns.lean": ["def Searcher.analyze_iterative.loop (game_state : State) (evaluator : Evaluator) (token : CancellationToken) (hasher : ZobristHasher) "
                       "(state_history : StateHistory) (game_state_hash : UInt64) (max_thread_count : Option UInt64) (max_num_threads : UInt64) "
                       "(max_depth : UInt64) (loop_state : (UInt64 × Evaluation × (Option Move))) : IM (UInt64 × Evaluation × (Option Move)) := do",
                       "def SPrim.range_map_collect {m : Type → Type} [Monad m] {β : Type} (lo hi : UInt64) (f : UInt64 → m β) : m (Array β) := do",
                       "inductive StatusEvent where", "structure IterCells where"],
    "TTFns.lean": ["def TranspositionTableAccess.saturation (self : TranspositionTableAccess) : Panics Rat := do",
                   "def TranspositionTable.with_memory (size_in_bytes : UInt64) : Panics TranspositionTable := do",
                   "def TranspositionTableAccess.with_tables (tables : Array TranspositionTable) : Panics TranspositionTableAccess := do",
                   "def StateHistory.new : StateHistory :=",
                   "def StateHistory.increment (self : StateHistory) (hash : UInt64) : Panics StateHistory := do",
                   "def TTPrim.checked_div (a b : UInt64) : Panics UInt64 := if b = 0 then none else some (a / b)"],
    "MoveFns.lean": ["def UInt64.checked_mul (a b : UInt64) : Panics UInt64 := if a.toNat * b.toNat < 2 ^ 64 then some (a * b) else none",
                     "def Evaluation.NEG_INF : Evaluation :="],
    "GenMoves.lean": ["def MoveGenerator.compute_legal_moves (state : State) : Panics MoveSet := do", "abbrev MoveSet := Array MoveResult"],
    "CoreFns.lean": ["def ZobristHasher.hash (self : ZobristHasher) (state : State) : Panics UInt64 := do", "structure ZobristHasher where"],
}
LOOP_ENV = ["game_state", "evaluator", "token", "hasher", "state_history", "game_state_hash", "max_thread_count", "max_depth",
            "nodes_searched", "best_eval", "best_mv", "transpositions", "rng"]

PRELUDE = r"""
/-! ## Prelude of stage 6: the frame of `analyze_iterative` (fixed vocabulary; TRUSTED PART 4 of the tool) -/

/-- `struct SearchArtifact` (stage 4c has an opaque `SearchArtifact` token of the same Rust type: hence the prefix) -/
structure Iter5SearchArtifact where
  f_hasher : ZobristHasher
  f_transpositions : TranspositionTableAccess
  f_state_history : StateHistory

/-- `enum WarningKind` -/
inductive Iter5WarningKind where
  | TranspositionTableSaturated
deriving DecidableEq

/-- a call of the callback `f`: an event of the loop (stage 4e's `StatusEvent`) or `StatusEvent::Warning { kind, message: format!(fmt, args..) }` -/
inductive Iter5Event where
  | Status (e : StatusEvent)
  | Warning (kind : Iter5WarningKind) (message_fmt : String) (message_args : List Rat)

/-- the objects the function works on: its generator, the polls of the token since its entry, the calls of `f` -/
structure Iter5Cells where
  rng : Wee.Rng.ChaCha8
  polls : Nat
  events : List Iter5Event

def Iter5M (α : Type) : Type := Iter5Cells → Except SearchStop α × Iter5Cells
instance : Monad Iter5M where
  pure a := fun c => (.ok a, c)
  bind x f := fun c => match x c with
    | (.ok a, c') => f a c'
    | (.error e, c') => (.error e, c')
def Iter5M.liftP {α : Type} (p : Panics α) : Iter5M α := fun c =>
  match p with
  | some a => (.ok a, c)
  | none => (.error .panic, c)
def Iter5M.emit (e : Iter5Event) : Iter5M Unit := fun c => (.ok (), { c with events := c.events ++ [e] })
/-- TRUSTED PRIMITIVE `ZobristHasher::with(&mut rng)`: the model's `KeyTable.ofRng` on the generator cell, in stage 2's layout -/
def Iter5Prim.zobrist_with : Iter5M ZobristHasher := fun c =>
  let kr := Wee.KeyTable.ofRng c.rng
  (.ok { f_turn_hash := kr.1.turn
         f_piece_hash := Array.ofFn (n := 64) fun sq => Array.ofFn (n := 16) fun i => kr.1.piece.getD (sq.val * 16 + i.val) 0
         f_castle_hash := Array.ofFn (n := 2) fun c => Array.ofFn (n := 2) fun sd => kr.1.castle.getD (c.val * 2 + sd.val) 0
         f_en_passant_hash := kr.1.epFile }, { c with rng := kr.2 })
/-- the loop of stage 4e on the function's cells and the local table; returns the loop state and the table it leaves -/
def Iter5Prim.run_loop {σ : Type} (l : IM σ) (transpositions : TranspositionTableAccess) : Iter5M (σ × TranspositionTableAccess) := fun c =>
  match l { rng := c.rng, transpositions := transpositions, polls := c.polls, events := [] } with
  | (.ok r, ic) => (.ok (r, ic.transpositions), { rng := ic.rng, polls := ic.polls, events := c.events ++ ic.events.map Iter5Event.Status })
  | (.error e, ic) => (.error e, { rng := ic.rng, polls := ic.polls, events := c.events ++ ic.events.map Iter5Event.Status })
/-- `a > b` on f32 values (exact rationals of `Wee.F32`) -/
def Iter5Prim.f32_gt (a b : Rat) : Bool := decide (a > b)
def Iter5Prim.f32_lt (a b : Rat) : Bool := decide (a < b)
def Iter5Prim.f32_ge (a b : Rat) : Bool := decide (a ≥ b)
def Iter5Prim.f32_le (a b : Rat) : Bool := decide (a ≤ b)
"""

TOK = re.compile(r'\d+\.\d+|\d+|[A-Za-z_][A-Za-z0-9_]*|"(?:[^"\\]|\\.)*"|::|\.\.|->|=>|==|!=|<=|>=|&&|\|\||\+=|-=|\S')


def lex(text):
    return TOK.findall(text)


def match_close(toks, i, o, c):
    d = 0
    for j in range(i, len(toks)):
        if toks[j] == o:
            d += 1
        elif toks[j] == c:
            d -= 1
            if d == 0:
                return j
    fail("unbalanced brackets in analyze_iterative")


def split_statements(toks):
    """top-level statements of a block body (token lists); the last one may be a tail expression (no `;`)"""
    out, cur, d = [], [], 0
    i = 0
    while i < len(toks):
        t = toks[i]
        cur.append(t)
        if t in "([{":
            d += 1
        elif t in ")]}":
            d -= 1
            # a block statement (`for`, `if` without `let`) ends at its closing brace
            if d == 0 and t == "}" and cur[0] in ("for", "if", "while", "loop", "match") and not (i + 1 < len(toks) and toks[i + 1] in ("else", ".", "?")):
                out.append(cur)
                cur = []
        elif t == ";" and d == 0:
            out.append(cur)
            cur = []
        i += 1
    if cur:
        out.append(cur)
    return out


def f32_lit(s):
    x = float(s)
    y = struct.unpack("f", struct.pack("f", x))[0]
    if Fraction(s) != Fraction(y):
        fail(f"f32 literal `{s}` is not exactly representable (its rounding is not modelled)")
    q = Fraction(y)
    return f"(({q.numerator} : Rat) / {q.denominator})"


class Frame:
    def __init__(self, repo):
        self.repo = repo
        self.consts = {}
        self.ntmp = 0
        self.notes = []

    def read(self, rel):
        p = os.path.join(self.repo, rel)
        if not os.path.exists(p):
            fail(f"{rel}: file not found")
        with open(p) as f:
            return re.sub(r"//[^\n]*", "", f.read())

    def fresh(self):
        self.ntmp += 1
        return f"tmp{self.ntmp}"

    def check_frame(self):
        texts = {}
        for rel, pat, what in PINNED:
            if rel not in texts:
                texts[rel] = self.read(rel)
            if len(re.findall(pat, texts[rel])) != 1:
                fail(f"{rel}: `{what}` not found exactly once (the frame of analyze_iterative rests on it)")
        m = re.findall(r"const DEFAULT_TRANSPOSITION_TABLE_SIZE_MB: usize = (\d+);", texts[SEARCHER])
        if len(m) != 1:
            fail(f"{SEARCHER}: const DEFAULT_TRANSPOSITION_TABLE_SIZE_MB not found exactly once")
        self.consts["DEFAULT_TRANSPOSITION_TABLE_SIZE_MB"] = int(m[0])
        for fname, heads in EXTERN_HEADS.items():
            with open(os.path.join(GEN, fname)) as f:
                g = f.read()
            for h in heads:
                if g.count("\n" + h) != 1:
                    fail(f"lean/Wee/Gen/{fname}: definition head `{h[:70]}..` not found exactly once (the generated code calls it by name)")
        return texts[SEARCHER]

    def body_tokens(self, text):
        m = re.search(PINNED[0][1], text)
        toks = lex(text[m.end() - 1:])
        e = match_close(toks, 0, "{", "}")
        return toks[1:e]

    # ---- usize constant expressions: atoms joined by `*` `/` (left to right), CHECKED ------------------------------------------------
    def usize_expr(self, toks, consts, ind, lines):
        def atom(t):
            if re.fullmatch(r"\d+", t):
                return f"({t} : UInt64)"
            if t in consts:
                return f"({consts[t]} : UInt64)"
            fail(f"analyze_iterative: `{t}` in a usize expression is not a literal / a known constant")
        if len(toks) % 2 == 0:
            fail(f"analyze_iterative: unsupported usize expression `{' '.join(toks)}`")
        cur = atom(toks[0])
        for k in range(1, len(toks), 2):
            op, b = toks[k], atom(toks[k + 1])
            t = self.fresh()
            if op == "*":
                lines.append(f"{ind}let {t} : UInt64 ← UInt64.checked_mul {cur} {b}")
            elif op == "/":
                lines.append(f"{ind}let {t} : UInt64 ← TTPrim.checked_div {cur} {b}")
            else:
                fail(f"analyze_iterative: operator `{op}` in a usize expression")
            cur = t
        return cur

    # ---- the closure of `unwrap_or_else`: a fresh artifact ----------------------------------------------------------------------------
    def fresh_artifact(self, toks, bound):
        if "rng" not in bound:
            fail("analyze_iterative: the artifact closure uses `rng` before `let mut rng = rng;`")
        lines = []
        have = set()
        sts = split_statements(toks)
        for n, st in enumerate(sts):
            s = " ".join(st)
            if s == "let hasher = ZobristHasher :: with ( & mut rng ) ;":
                lines.append("  let hasher : ZobristHasher ← Iter5Prim.zobrist_with")
                have.add("hasher")
                continue
            if s == "let state_history = StateHistory :: new ( ) ;":
                lines.append("  let state_history : StateHistory := StateHistory.new")
                have.add("state_history")
                continue
            m = re.fullmatch(r"let transpositions = \{ const TABLE_COUNT : usize = (\d+) ; let tables = \( 0 \.\. TABLE_COUNT \) \. map \( \| _ \| "
                             r"\{ TranspositionTable :: with_memory \( (.*?) ,? \) \} \) \. collect \( \) ; "
                             r"TranspositionTableAccess :: with_tables \( tables \) \} ;", s)
            if m:
                consts = dict(self.consts)
                consts["TABLE_COUNT"] = int(m.group(1))
                inner = []
                v = self.usize_expr(m.group(2).split(" "), consts, "      ", inner)
                t1 = self.fresh()
                lines.append(f"  let {t1} : Array TranspositionTable ← Iter5M.liftP (SPrim.range_map_collect (m := Panics) (0 : UInt64) ({m.group(1)} : UInt64) (fun (_ : UInt64) => do")
                lines.extend(inner)
                lines.append(f"      TranspositionTable.with_memory {v}))")
                lines.append(f"  let tables : Array TranspositionTable := {t1}")
                lines.append("  let transpositions : TranspositionTableAccess ← Iter5M.liftP (TranspositionTableAccess.with_tables tables)")
                have.add("transpositions")
                continue
            if n == len(sts) - 1 and s == "( hasher , transpositions , state_history )":
                if have != {"hasher", "transpositions", "state_history"}:
                    fail("analyze_iterative: the artifact closure returns a component it did not build")
                lines.append("  pure (hasher, transpositions, state_history)")
                return lines
            fail(f"analyze_iterative (artifact closure): unsupported statement `{s[:120]}`")
        fail("analyze_iterative (artifact closure): no tail expression `(hasher, transpositions, state_history)`")

    # ---- the statements of the function body -----------------------------------------------------------------------------------------
    def run(self):
        text = self.check_frame()
        sts = split_statements(self.body_tokens(text))
        bound = {"game_state", "evaluator", "token", "previous_artifact", "max_thread_count", "f"}
        opt_max_depth = True         # `max_depth` is still the `Option<usize>` parameter
        rng_param = True             # `rng` is still the immutable parameter
        out, fresh_def = [], None
        seen_loop = False
        done = False

        def need(*vs):
            for v in vs:
                if v not in bound:
                    fail(f"analyze_iterative: `{v}` is used before it is bound")

        for n, st in enumerate(sts):
            s = " ".join(st)
            if done:
                fail(f"analyze_iterative: statement after the returned value: `{s[:80]}`")
            if s == "let max_depth = max_depth . unwrap_or ( usize :: MAX ) ;":
                if not opt_max_depth:
                    fail("analyze_iterative: `max_depth.unwrap_or` on a usize")
                opt_max_depth = False
                bound.add("max_depth")
                out.append("  let max_depth : UInt64 := Option.getD max_depth (18446744073709551615 : UInt64)")
                continue
            if s == "let mut rng = rng ;":
                if not rng_param:
                    fail("analyze_iterative: second `let mut rng`")
                rng_param = False
                bound.add("rng")
                self.notes.append("`let mut rng = rng;`: the parameter `rng` becomes the generator cell of `Iter5M`")
                continue
            m = re.fullmatch(r"let \( hasher , transpositions , mut state_history \) = previous_artifact \. map \( \| a \| \( a \. hasher , a \. transpositions , "
                             r"a \. state_history \) \) \. unwrap_or_else \( \|\| \{ (.*) \} \) ;", s)
            if m:
                need("previous_artifact")
                fresh_def = self.fresh_artifact(m.group(1).split(" "), bound)
                bound.discard("previous_artifact")      # moved
                bound.update(["hasher", "transpositions", "state_history"])
                t = self.fresh()
                out.append(f"  let {t} : ZobristHasher × TranspositionTableAccess × StateHistory ← (match previous_artifact with")
                out.append("    | some a => pure (a.f_hasher, a.f_transpositions, a.f_state_history)")
                out.append("    | none => Searcher.analyze_iterative.fresh_artifact)")
                out.append(f"  let hasher : ZobristHasher := {t}.1")
                out.append(f"  let transpositions : TranspositionTableAccess := {t}.2.1")
                out.append(f"  let state_history : StateHistory := {t}.2.2")
                continue
            if s == "let game_state_hash = hasher . hash ( & game_state ) ;":
                need("hasher", "game_state")
                bound.add("game_state_hash")
                out.append("  let game_state_hash : UInt64 ← Iter5M.liftP (ZobristHasher.hash hasher game_state)")
                continue
            if s == "let mut nodes_searched = 0 ;":
                bound.add("nodes_searched")
                out.append("  let nodes_searched : UInt64 := (0 : UInt64)")
                continue
            if s == "let mut best_eval = eval :: Evaluation :: NEG_INF ;":
                bound.add("best_eval")
                out.append("  let best_eval : Evaluation := Evaluation.NEG_INF")
                continue
            if s == "let mut best_mv = None ;":
                bound.add("best_mv")
                out.append("  let best_mv : Option Move := none")
                continue
            if s == "state_history . increment ( game_state_hash ) ;":
                need("state_history", "game_state_hash")
                out.append("  let state_history : StateHistory ← Iter5M.liftP (StateHistory.increment state_history game_state_hash)")
                continue
            m = re.fullmatch(r"let max_depth = if MoveGenerator :: compute_legal_moves \( & game_state \) \. is_empty \( \) \{ (\d+) \} else \{ max_depth \} ;", s)
            if m:
                need("game_state", "max_depth")
                if opt_max_depth:
                    fail("analyze_iterative: the limit rule is applied to the `Option<usize>` parameter")
                t = self.fresh()
                out.append(f"  let {t} : MoveSet ← Iter5M.liftP (MoveGenerator.compute_legal_moves game_state)")
                out.append(f"  let max_depth : UInt64 := if Array.isEmpty {t} then ({m.group(1)} : UInt64) else max_depth")
                continue
            if st[:7] == ["for", "depth", "in", "0", "..", "max_depth", "{"] and st[-1] == "}":
                if seen_loop:
                    fail("analyze_iterative: two loops")
                seen_loop = True
                need(*LOOP_ENV)
                if opt_max_depth:
                    fail("analyze_iterative: the loop bound is the `Option<usize>` parameter")
                t = self.fresh()
                out.append(f"  let {t} : (UInt64 × Evaluation × (Option Move)) × TranspositionTableAccess ← Iter5Prim.run_loop "
                           "(Searcher.analyze_iterative.loop game_state evaluator token hasher state_history game_state_hash max_thread_count max_num_threads "
                           "max_depth (nodes_searched, best_eval, best_mv)) transpositions")
                out.append(f"  let transpositions : TranspositionTableAccess := {t}.2")
                for v in ("nodes_searched", "best_eval", "best_mv"):
                    bound.discard(v)       # stage 4e checks that the loop state is not used after the loop
                continue
            m = re.fullmatch(r"if transpositions \. saturation \( \) (>|<|>=|<=) (\d+\.\d+) \{ f \( StatusEvent :: Warning \{ kind : WarningKind :: (\w+) , "
                             r"message : format ! \( (\"[^\"]*\") , transpositions \. saturation \( \) \* (\d+\.\d+) \) , \} \) ; \}", s)
            if m:
                need("transpositions")
                op = {">": "gt", "<": "lt", ">=": "ge", "<=": "le"}[m.group(1)]
                if m.group(3) != "TranspositionTableSaturated":
                    fail(f"analyze_iterative: unknown WarningKind::{m.group(3)}")
                t1, t2 = self.fresh(), self.fresh()
                out.append(f"  let {t1} : Rat ← Iter5M.liftP (TranspositionTableAccess.saturation transpositions)")
                out.append(f"  (if Iter5Prim.f32_{op} {t1} {f32_lit(m.group(2))} then do")
                out.append(f"    let {t2} : Rat ← Iter5M.liftP (TranspositionTableAccess.saturation transpositions)")
                out.append(f"    Iter5M.emit (Iter5Event.Warning Iter5WarningKind.{m.group(3)} {m.group(4)} [Wee.F32.mul {t2} {f32_lit(m.group(5))}])")
                out.append("  else pure ())")
                continue
            if n == len(sts) - 1 and s == "SearchArtifact { hasher , transpositions , state_history , }":
                need("hasher", "transpositions", "state_history")
                if not seen_loop:
                    fail("analyze_iterative: no `for depth in 0..max_depth` statement")
                out.append("  pure { f_hasher := hasher, f_transpositions := transpositions, f_state_history := state_history }")
                done = True
                continue
            fail(f"analyze_iterative (frame): unsupported statement `{s[:140]}`")
        if not done:
            fail("analyze_iterative: no returned `SearchArtifact { hasher, transpositions, state_history }`")
        if fresh_def is None:
            fail("analyze_iterative: the artifact statement was not found")
        return fresh_def, out


def generate(repo):
    # stages 1, 2, 3c, 4a/4e run here: a broken earlier stage (in particular the loop fragment) breaks this one
    t1 = R.Translator(repo)
    t1.run()
    R2.install()
    e2 = R2.Emitter2(repo, t1)
    e2.run2()
    RT.TT(repo, e2).run()
    search_text = RS.Em(repo).run()
    if search_text.count("\n" + EXTERN_HEADS["SearchFns.lean"][0]) != 1:
        fail("stage 4e no longer produces `Searcher.analyze_iterative.loop` with the expected head")
    fr = Frame(repo)
    fresh_def, body = fr.run()
    out = ["-- GENERATED by tools/rs2lean_iterate.py from the Rust source text. DO NOT EDIT.",
           "import Wee.Gen.SearchFns",
           "import Wee.Gen.GenMoves",
           "import Wee.Model.Hash",
           "import Wee.Model.F32",
           "/-!",
           "# Lean definitions translated from the Rust source text, stage 6 (the frame of `Searcher::analyze_iterative` around its loop)",
           "",
           "Every line of the two `def`s below the prelude is produced from one top-level statement of `fn analyze_iterative`, in source order; the",
           "`for` statement is the call of stage 4e's generated loop.  `Wee/Proofs/IterateFnsBridge.lean` proves `Searcher.analyze_iterative` to refine",
           "the model's `Wee.Search.iterate`.",
           "-/",
           "set_option linter.unusedVariables false",
           "namespace Wee.GenFns",
           "open Wee",
           PRELUDE.strip("\n"),
           "",
           "/-! ## Translated items -/",
           "",
           f"/-- `{SEARCHER}` `Searcher::analyze_iterative`: the closure of `previous_artifact.map(..).unwrap_or_else(|| {{ .. }})` (captures `rng` by `&mut`) -/",
           "def Searcher.analyze_iterative.fresh_artifact : Iter5M (ZobristHasher × TranspositionTableAccess × StateHistory) := do"]
    out.extend(fresh_def)
    out.append("")
    out.append(f"/-- `{SEARCHER}` `Searcher::analyze_iterative`: the statements of the body in source order (the `for` statement = stage 4e's loop) -/")
    out.append("def Searcher.analyze_iterative.body (game_state : State) (evaluator : Evaluator) (max_depth : Option UInt64) (token : CancellationToken) "
               "(previous_artifact : Option Iter5SearchArtifact) (max_thread_count : Option UInt64) (max_num_threads : UInt64) : Iter5M Iter5SearchArtifact := do")
    out.extend(body)
    out.append("")
    out.append(f"/-- `{SEARCHER}` `Searcher::analyze_iterative`: the returned artifact and the calls of `f`, in order (`rng`: the parameter; polls counted from 0) -/")
    out.append("def Searcher.analyze_iterative (game_state : State) (evaluator : Evaluator) (rng : Wee.Rng.ChaCha8) (max_depth : Option UInt64) (token : CancellationToken) "
               "(previous_artifact : Option Iter5SearchArtifact) (max_thread_count : Option UInt64) (max_num_threads : UInt64) : Except SearchStop (Iter5SearchArtifact × List Iter5Event) :=")
    out.append("  match Searcher.analyze_iterative.body game_state evaluator max_depth token previous_artifact max_thread_count max_num_threads "
               "{ rng := rng, polls := 0, events := [] } with")
    out.append("  | (.ok a, c) => .ok (a, c.events)")
    out.append("  | (.error e, _) => .error e")
    out.append("")
    out.append("/-! ## Side conditions checked by the translator")
    out.append(f"* const DEFAULT_TRANSPOSITION_TABLE_SIZE_MB = {fr.consts['DEFAULT_TRANSPOSITION_TABLE_SIZE_MB']} (read from the source)")
    out.append("* pinned texts: " + "; ".join(w for _, _, w in PINNED))
    for nt in fr.notes:
        out.append(f"* {nt}")
    out.append("-/")
    out.append("end Wee.GenFns")
    return "\n".join(out) + "\n"


def main():
    ap = argparse.ArgumentParser()
    ap.add_argument("--repo", default=os.environ.get("WEE_REPO", "/repo"))
    ap.add_argument("--out", default=DEFAULT_OUT)
    ap.add_argument("--check", action="store_true", help="do not write; exit 1 if the file would change")
    a = ap.parse_args()
    try:
        text = generate(a.repo)
    except TieBroken as ex:
        print(f"TIE-BROKEN {TAG}: {ex}")
        sys.exit(2)
    old = None
    if os.path.exists(a.out):
        with open(a.out) as f:
            old = f.read()
    changed = old != text
    if a.check:
        print('{"changed": %s}' % ("true" if changed else "false"))
        sys.exit(1 if changed else 0)
    if changed:
        os.makedirs(os.path.dirname(a.out), exist_ok=True)
        with open(a.out, "w") as f:
            f.write(text)
    print('{"changed": [%s]}' % ('"IterateFns.lean"' if changed else ""))


if __name__ == "__main__":
    main()
